#!/usr/bin/env python3
"""Single entry point of the verification machinery.

    check.py <ID> [--tier quick|thorough] [--seed N] [--replay FILE]

One run = (1) regenerate Gen/Consts.lean from /repo, (2) kernel-check the property's theorems
(`lake build Libp2pModel.Props.<ID>`) and audit their axioms, (3) rebuild the Rust harness against
/repo's working tree (cfg libp2p_verif), (4) run corpus + generated cases on the implementation,
(5) run the Lean model + the Lean Spec (on the implementation's outputs) over the same lines,
(6) compare, decide, write evidence/<ID>.json.  See DESIGN.md §3 for the decision table.
"""
import argparse, collections, hashlib, json, os, re, subprocess, sys, time, fcntl, shutil

ROOT = os.path.dirname(os.path.abspath(__file__))
LEAN = os.path.join(ROOT, "lean")
# VERIF_SCRATCH / VERIF_HARNESS are set only by tools/mutcheck.py (isolated mutation self-tests):
# outputs go to the scratch dir and the harness copy there path-depends on a scratch copy of /repo.
SCRATCH = os.environ.get("VERIF_SCRATCH")
HARN = os.environ.get("VERIF_HARNESS", os.path.join(ROOT, "harness"))
TARGET = os.environ.get("VERIF_TARGET", os.path.join(HARN, "target"))
OUTROOT = SCRATCH or ROOT
OUT = os.path.join(OUTROOT, "out")
ALLOWED_AXIOMS = {"propext", "Classical.choice", "Quot.sound"}
FORBIDDEN = re.compile(r"\b(sorry|admit|native_decide|implemented_by|unsafe|bv_decide)\b|^\s*axiom\s|maxHeartbeats\s+0", re.M)


def sh(cmd, cwd=None, timeout=None, env=None, stdin=None, stdout=None):
    e = dict(os.environ)
    e["CARGO_NET_OFFLINE"] = "true"
    if env:
        e.update(env)
    return subprocess.run(cmd, cwd=cwd, timeout=timeout, env=e, stdin=stdin,
                          stdout=stdout if stdout is not None else subprocess.PIPE,
                          stderr=subprocess.STDOUT if stdout is None else subprocess.PIPE, text=True)


class Lock:
    """serialise lake / cargo invocations between concurrently running checks"""
    def __init__(self, name):
        self.path = os.path.join(ROOT, ".lock-" + name)
    def __enter__(self):
        self.f = open(self.path, "w")
        fcntl.flock(self.f, fcntl.LOCK_EX)
    def __exit__(self, *a):
        fcntl.flock(self.f, fcntl.LOCK_UN)
        self.f.close()


def load_cfg(pid):
    p = os.path.join(ROOT, "checks", pid + ".json")
    if not os.path.exists(p):
        sys.exit(f"check.py: no checks/{pid}.json")
    return json.load(open(p))


def strip_comments(src):
    src = re.sub(r"/-.*?-/", "", src, flags=re.S)
    return re.sub(r"--.*", "", src)


# ------------------------------------------------------------------ step 1+2: Lean obligations

def lean_obligations(cfg, log):
    """returns dict(ok, theorems={name: [axioms]}, bad=[…], build_log)"""
    pid = cfg["id"]
    with Lock("lake"):
        if SCRATCH and not os.environ.get("VERIF_MUT_CONSTS"):
            gen_ok = True  # isolated mutation run: the shared Gen/Consts.lean is left alone
        else:
            r = sh([sys.executable, os.path.join(ROOT, "tools", "gen_consts.py")])
            log.append("gen_consts: " + (r.stdout or "").strip()[-2000:])
            gen_ok = r.returncode == 0
        sh([sys.executable, os.path.join(ROOT, "tools", "gen_lake.py")])
        mods = cfg.get("lean_props", [f"Libp2pModel.Props.{pid}"])
        t0 = time.time()
        r1 = sh(["lake", "build"] + mods, cwd=LEAN, timeout=3600)
        r2 = sh(["lake", "build", "drv_" + pid], cwd=LEAN, timeout=3600)
        log.append(f"lake build {' '.join(mods)}: rc={r1.returncode} ({time.time()-t0:.1f}s)")
        # the axiom report: re-elaborate the property module(s) so `#print axioms` output is from THIS run
        axioms = {}
        bad = []
        if r1.returncode == 0:
            for m in mods:
                path = os.path.join(LEAN, *m.split(".")) + ".lean"
                r3 = sh(["lake", "env", "lean", path], cwd=LEAN, timeout=3600)
                if r3.returncode != 0:
                    bad.append(f"{m}: lean exited {r3.returncode}")
                for mm in re.finditer(r"'([^']+)' depends on axioms: \[([^\]]*)\]", r3.stdout.replace("\n", " ")):
                    axioms[mm.group(1)] = [a.strip() for a in mm.group(2).split(",") if a.strip()]
                for mm in re.finditer(r"'([^']+)' does not depend on any axioms", r3.stdout):
                    axioms[mm.group(1)] = []
    # forbidden constructs in the property's own sources (comments stripped)
    files = []
    for m in mods:
        files.append(os.path.join(LEAN, *m.split(".")) + ".lean")
    for extra in cfg.get("lean_sources", []):
        files.append(os.path.join(LEAN, extra))
    for d in ("Model", "Proofs"):
        dd = os.path.join(LEAN, "Libp2pModel", d)
        if os.path.isdir(dd):
            for f in sorted(os.listdir(dd)):
                if f.startswith(pid) and f.endswith(".lean"):
                    files.append(os.path.join(dd, f))
    for f in sorted(set(files)):
        if os.path.exists(f):
            m = FORBIDDEN.search(strip_comments(open(f).read()))
            if m:
                bad.append(f"{os.path.relpath(f, LEAN)}: forbidden construct `{m.group(0).strip()}`")
    allowed_extra = set(cfg.get("allowed_axioms", []))
    for name, ax in axioms.items():
        extra = [a for a in ax if a not in ALLOWED_AXIOMS and a not in allowed_extra]
        if extra:
            bad.append(f"{name}: axioms {extra}")
    required = cfg.get("theorems", [])
    for t in required:
        if t not in axioms:
            bad.append(f"{t}: required theorem not reported by #print axioms")
    ok = gen_ok and r1.returncode == 0 and r2.returncode == 0 and not bad and len(axioms) > 0
    return dict(ok=ok, theorems=axioms, bad=bad, driver_ok=(r2.returncode == 0),
                build_log=(r1.stdout or "")[-4000:] + ("\n" + (r2.stdout or "")[-2000:] if r2.returncode else ""),
                gen_ok=gen_ok, mods=mods)


# ------------------------------------------------------------------ step 3: harness build

def build_harness(cfg, log):
    with Lock("cargo"):
        t0 = time.time()
        if not os.path.exists(os.path.join(HARN, "Cargo.lock")):
            shutil.copyfile("/repo/Cargo.lock", os.path.join(HARN, "Cargo.lock"))
        # the target dir is fixed explicitly: an inherited CARGO_TARGET_DIR must not redirect the build
        cenv = {"CARGO_TARGET_DIR": TARGET}
        r = sh(["cargo", "build", "--offline", "-p", cfg["harness"]], cwd=HARN, timeout=7200, env=cenv)
        if r.returncode != 0 and re.search(r"lock file|failed to select a version|--offline", r.stdout or ""):
            # /repo's dependency set changed: restart resolution from /repo's own lock file
            shutil.copyfile("/repo/Cargo.lock", os.path.join(HARN, "Cargo.lock"))
            r = sh(["cargo", "build", "--offline", "-p", cfg["harness"]], cwd=HARN, timeout=7200, env=cenv)
        log.append(f"cargo build -p {cfg['harness']}: rc={r.returncode} ({time.time()-t0:.1f}s)")
        return r.returncode == 0, (r.stdout or "")[-6000:]


# ------------------------------------------------------------------ step 4+5: run both sides

def run_pair(cfg, seed, tier, outdir, tag, count=None, replay=None, timeout=None):
    """run harness then driver; returns (harness_lines, driver_lines, err)"""
    pid = cfg["id"]
    os.makedirs(outdir, exist_ok=True)
    hpath = os.path.join(outdir, f"{tag}.harness.txt")
    dpath = os.path.join(outdir, f"{tag}.driver.txt")
    cmd = [os.path.join(TARGET, "debug", cfg["harness"]), pid, "--seed", str(seed), "--tier", tier]
    if count:
        cmd += ["--count", str(count)]
    if replay:
        cmd += ["--replay", replay]
    cmd += cfg.get("harness_args", [])
    to = timeout or cfg.get("timeout_s", {}).get(tier, 1500 if tier == "quick" else 14400)
    try:
        with open(hpath, "w") as f:
            r = sh(cmd, cwd=HARN, stdout=f, timeout=to)
        if r.returncode != 0:
            return None, None, f"harness exited {r.returncode}: {(r.stderr or '')[-1500:]}"
        with open(hpath) as fin, open(dpath, "w") as f:
            r = sh([os.path.join(LEAN, ".lake", "build", "bin", "drv_" + pid)], stdin=fin, stdout=f, timeout=to)
        if r.returncode != 0:
            return None, None, f"model driver exited {r.returncode}: {(r.stderr or '')[-1500:]}"
    except subprocess.TimeoutExpired:
        return None, None, f"timeout after {to}s"
    return open(hpath).read().splitlines(), open(dpath).read().splitlines(), None


class Case:
    __slots__ = ("idx", "header", "steps", "nt", "cls")
    def __init__(self, header):
        t = header.split()
        self.idx = t[1] if len(t) > 1 else "?"
        self.cls = t[2] if len(t) > 2 else ""
        self.nt = "nt=1" in t
        self.header = header
        self.steps = []  # [op, impl, model, spec]
    def lines(self):
        out = [self.header]
        for s in self.steps:
            out += ["op " + s[0], "impl " + s[1]]
        return out + ["end"]
    def digest(self):
        h = hashlib.sha1()
        for s in self.steps:
            h.update((s[0] + "\n" + s[1] + "\n").encode())
        return h.hexdigest()


def parse(hlines, dlines):
    """pair harness and driver streams; returns (cases, error)"""
    cases = []
    di = 0
    cur = None
    for l in hlines:
        if l.startswith("case "):
            cur = Case(l)
            cases.append(cur)
        elif l.startswith("op "):
            if cur is None:
                return cases, "op outside case"
            cur.steps.append([l[3:], None, None, None])
            if di >= len(dlines) or not dlines[di].startswith("model "):
                return cases, f"driver stream out of step at case {cur.idx} (expected model line, got {dlines[di] if di < len(dlines) else 'EOF'})"
            cur.steps[-1][2] = dlines[di][6:]
            di += 1
        elif l.startswith("impl "):
            if cur is None or not cur.steps:
                return cases, "impl outside op"
            cur.steps[-1][1] = l[5:]
            if di >= len(dlines) or not dlines[di].startswith("spec "):
                return cases, f"driver stream out of step at case {cur.idx} (expected spec line)"
            cur.steps[-1][3] = dlines[di][5:]
            di += 1
    if di != len(dlines):
        return cases, "driver produced extra lines"
    return cases, None


def judge(cases):
    """returns (spec_failures, disagreements) as lists of (case, step_index, detail)"""
    fails, dis = [], []
    for c in cases:
        for i, s in enumerate(c.steps):
            if s[1] is None:
                dis.append((c, i, "missing impl line"))
                continue
            if s[3] != "ok":
                fails.append((c, i, s[3]))
            if s[2] != "-" and s[2] != s[1]:
                dis.append((c, i, f"impl `{s[1][:300]}` vs model `{s[2][:300]}`"))
    return fails, dis


def known_findings(pid):
    p = os.path.join(ROOT, "known_findings.jsonl")
    out = []
    if os.path.exists(p):
        for l in open(p):
            l = l.strip()
            if l:
                e = json.loads(l)
                if e.get("property") == pid:
                    out.append(e)
    return out


def fail_key(spec):
    return spec[5:] if spec.startswith("FAIL:") else spec


def write_replay(pid, seed, tier, case, step, kind, detail, theorem=None, extra=None):
    os.makedirs(os.path.join(OUTROOT, "replays"), exist_ok=True)
    base = os.path.join(OUTROOT, "replays", f"{pid}-{seed}-{case.idx if case else 'obligation'}")
    if case is not None:
        with open(base + ".case", "w") as f:
            f.write("\n".join(case.lines()) + "\n")
    doc = dict(property=pid, tier=tier, seed=seed, kind=kind, detail=detail,
               case_index=(case.idx if case else None), failing_step=step,
               case_file=(base + ".case" if case else None),
               steps=[dict(op=s[0], impl=s[1], model=s[2], spec=s[3]) for s in case.steps] if case else [],
               theorem_or_correspondence=theorem,
               replay_cmd=(f"./check.py {pid} --replay {base}.case" if case else None))
    if extra:
        doc.update(extra)
    with open(base + ".json", "w") as f:
        json.dump(doc, f, indent=1)
    return os.path.relpath(base + ".json", OUTROOT)


def shrink(cfg, case, pred, seed, tier, outdir, budget_s):
    """delta-debugging on the op list through `--replay`; pred(cases)->bool on the re-run"""
    t0 = time.time()
    ops = [s[0] for s in case.steps]
    if len(ops) <= 1:
        return case
    best = case
    def attempt(sub):
        path = os.path.join(outdir, "shrink.case")
        with open(path, "w") as f:
            f.write(case.header + "\n" + "".join("op " + o + "\n" for o in sub) + "end\n")
        h, d, err = run_pair(cfg, seed, tier, outdir, "shrink", replay=path, timeout=120)
        if err:
            return None
        cs, perr = parse(h, d)
        if perr or not cs:
            return None
        return cs[0] if pred(cs[0]) else None
    first = attempt(ops)
    if first is None:
        return case  # not reproducible through replay (or replay unsupported): keep the original
    best = first
    n = 2
    while len(ops) >= 2 and time.time() - t0 < budget_s:
        chunk = max(1, len(ops) // n)
        reduced = False
        for i in range(0, len(ops), chunk):
            sub = ops[:i] + ops[i + chunk:]
            if not sub:
                continue
            r = attempt(sub)
            if r is not None:
                ops, best, reduced = sub, r, True
                n = max(n - 1, 2)
                break
            if time.time() - t0 > budget_s:
                break
        if not reduced:
            if chunk == 1:
                break
            n = min(len(ops), n * 2)
    return best


def has_fail(c, known_keys=()):
    return any(s[3] is not None and s[3] != "ok" and fail_key(s[3]) not in known_keys for s in c.steps)


def has_dis(c):
    return any(s[1] is None or (s[2] != "-" and s[2] != s[1]) for s in c.steps)


# ------------------------------------------------------------------ main

def main():
    ap = argparse.ArgumentParser()
    ap.add_argument("pid")
    ap.add_argument("--tier", default=os.environ.get("VERIF_TIER", "quick"))
    ap.add_argument("--seed", type=int, default=int(os.environ.get("VERIF_SEED", "1") or 1))
    ap.add_argument("--replay")
    a = ap.parse_args()
    if a.replay:
        a.replay = os.path.abspath(a.replay)
    pid, tier, seed = a.pid, ("thorough" if a.tier == "thorough" else "quick"), a.seed
    cfg = load_cfg(pid)
    t_start = time.time()
    log = []
    outdir = os.path.join(OUT, pid)
    os.makedirs(outdir, exist_ok=True)
    evid_path = os.path.join(OUTROOT, "evidence", pid + ".json")
    os.makedirs(os.path.dirname(evid_path), exist_ok=True)
    known = known_findings(pid)
    known_keys = {e["key"] for e in known if e.get("status") == "known"}

    ob = lean_obligations(cfg, log)
    hb_ok, hb_log = build_harness(cfg, log)

    violations = []   # (line, replay)
    known_hits = collections.Counter()
    all_cases = []
    notes = []
    corr_broken = None
    run_err = None

    if not hb_ok:
        run_err = "harness does not build against /repo's working tree:\n" + hb_log[-3000:]
    elif not ob["driver_ok"]:
        run_err = "model driver does not build:\n" + ob["build_log"]
    else:
        runs = []
        if a.replay:
            runs.append(("replay", dict(replay=a.replay)))
        else:
            cdir = os.path.join(ROOT, "corpus", pid)
            if os.path.isdir(cdir):
                for f in sorted(os.listdir(cdir)):
                    if f.endswith(".case"):
                        runs.append(("corpus-" + f[:-5], dict(replay=os.path.join(cdir, f))))
            runs.append(("main", dict()))
        for tag, kw in runs:
            h, d, err = run_pair(cfg, seed, tier, outdir, tag, **kw)
            if err:
                run_err = f"{tag}: {err}"
                break
            cases, perr = parse(h, d)
            if perr:
                run_err = f"{tag}: {perr}"
                break
            all_cases += cases

    fails, dis = judge(all_cases)
    new_fails = []
    for c, i, spec in fails:
        k = fail_key(spec)
        if k in known_keys:
            known_hits[k] += 1
        else:
            new_fails.append((c, i, spec))

    searched = 0
    if new_fails:
        c, i, spec = new_fails[0]
        small = shrink(cfg, c, lambda x: has_fail(x, known_keys), seed, tier, outdir, 60 if tier == "quick" else 300)
        rp = write_replay(pid, seed, tier, small, i, "spec-fail-on-implementation", spec,
                          extra=dict(other_failing_cases=[x[0].idx for x in new_fails[1:20]], total_failing=len(new_fails)))
        violations.append(f"VIOLATION property={pid} replay={rp}")
    elif run_err or dis or not ob["ok"]:
        # correspondence or obligation broke, no failing input yet: SEARCH the implementation with the Spec oracle
        found = None
        budget = cfg.get("search_s", {}).get(tier, 90 if tier == "quick" else 900)
        t0 = time.time()
        k = 0
        while hb_ok and ob["driver_ok"] and not run_err and time.time() - t0 < budget and k < 50:
            k += 1
            h, d, err = run_pair(cfg, seed + 7919 * k, "thorough" if k > 1 else tier, outdir, "search",
                                 count=cfg.get("search_count"), timeout=max(10, budget - (time.time() - t0)))
            if err:
                notes.append(f"search run {k}: {err}")
                break
            cs, perr = parse(h, d)
            searched += len(cs)
            for c in cs:
                if has_fail(c, known_keys):
                    found = c
                    break
            if found:
                break
        if dis:
            c, i, detail = dis[0]
            small = shrink(cfg, c, has_dis, seed, tier, outdir, 45 if tier == "quick" else 300)
            corr_broken = f"correspondence {pid}/{(small.steps[min(i, len(small.steps)-1)][0].split() or ['?'])[0]} case {c.idx}"
        if found:
            small = shrink(cfg, found, lambda x: has_fail(x, known_keys), seed, tier, outdir, 60)
            st = next(j for j, s in enumerate(small.steps) if s[3] not in (None, "ok"))
            rp = write_replay(pid, seed, tier, small, st, "spec-fail-on-implementation (found by search)", small.steps[st][3],
                              theorem=corr_broken)
            violations.append(f"VIOLATION property={pid} replay={rp}")
        else:
            if dis:
                rp = write_replay(pid, seed, tier, small, i, "correspondence-broken", detail, theorem=corr_broken,
                                  extra=dict(disagreeing_cases=len({x[0].idx for x in dis}), searched_cases=searched))
            elif not ob["ok"]:
                what = "; ".join(ob["bad"]) or "lake build failed"
                rp = write_replay(pid, seed, tier, None, None, "proof-obligation-broken", what,
                                  theorem=", ".join(ob["mods"]), extra=dict(build_log=ob["build_log"], searched_cases=searched))
            else:
                rp = write_replay(pid, seed, tier, None, None, "check-could-not-run", run_err,
                                  theorem=f"correspondence {pid} (harness/driver run)", extra=dict(searched_cases=searched))
            violations.append(f"VIOLATION property={pid} replay={rp} no-failing-input-found")

    # ---------------------------------------------------------------- evidence
    nontriv = {}
    classes = collections.Counter()
    impl_kinds = collections.Counter()
    for c in all_cases:
        classes[c.cls] += 1
        for s in c.steps:
            impl_kinds[(s[1] or "?").split(" ")[0][:24]] += 1
        if c.nt:
            nontriv.setdefault(c.digest(), c)
    samples = []
    if all_cases:
        picks = [all_cases[0], all_cases[len(all_cases) // 2], max(all_cases, key=lambda c: sum(len(s[0]) for s in c.steps))]
        for c in picks:
            samples.append(dict(case=c.header, steps=[dict(op=s[0][:400], impl=(s[1] or "")[:400], model=(s[2] or "")[:400], spec=s[3]) for s in c.steps[:12]], total_steps=len(c.steps)))
    n_thm = len(ob["theorems"])
    allowed = ALLOWED_AXIOMS | set(cfg.get("allowed_axioms", []))
    discharged = sum(1 for ax in ob["theorems"].values() if all(x in allowed for x in ax)) if ob["ok"] else 0
    evidence = dict(
        property_id=pid, tier=tier, seed=seed,
        level=(cfg.get("level") if cfg.get("level") in ("exploration", "fault_enumeration", "model_checking", "proof", "translation_validation", "other") else "proof"),
        coverage=dict(
            obligations=max(n_thm, len(cfg.get("theorems", [])), 1), discharged=discharged,
            checker_cmd=f"cd lean && lake build {' '.join(ob['mods'])} && lake env lean <module> (#print axioms)",
            trusted_base=["Lean 4.33 kernel", "axioms: " + ", ".join(sorted({x for v in ob["theorems"].values() for x in v}) or ["none"]),
                          "hand-written Lean model tied to /repo by the differential correspondence run below",
                          "tools/gen_consts.py", "harness " + cfg["harness"]] + cfg.get("trusted", []),
            theorems=ob["theorems"],
            obligation_problems=ob["bad"],
            evaluations=max(len(all_cases), 1) if all_cases else 0,
            distinct_nontrivial=len(nontriv),
            rule=cfg.get("nontrivial_rule", "cases are generated by the harness from (seed, index); a case is non-trivial when the harness marks it nt=1; distinct = distinct sha1 of its (op, impl) lines"),
            samples=samples or ["no cases ran: " + (run_err or "")[:500]],
            traces_validated_against_impl=len(all_cases),
            steps_compared=sum(len(c.steps) for c in all_cases),
            disagreements=len(dis), spec_failures=len(fails), known_finding_hits=dict(known_hits),
            generator_classes=dict(classes.most_common(40)), impl_output_kinds=dict(impl_kinds.most_common(40)),
            searched_cases_after_break=searched,
            exhaustive=bool(cfg.get("exhaustive", {}).get(tier, False)),
            explanation=cfg.get("level_text", ""),
        ),
        assumptions=cfg.get("assumptions", []) + ([cfg["level_note"]] if cfg.get("level_note") else []),
        wall_s=round(time.time() - t_start, 2), violations=len(violations),
        log=log, notes=notes,
    )
    with open(evid_path, "w") as f:
        json.dump(evidence, f, indent=1)

    for e in known:
        if e.get("status") == "known" and known_hits.get(e["key"]):
            print(f"KNOWN-FINDING: property={pid} {e['what']} (key {e['key']}, {known_hits[e['key']]} cases this run)")
    for l in log:
        print("  " + l)
    print(f"  theorems checked: {n_thm}; cases: {len(all_cases)} ({len(nontriv)} distinct non-trivial); "
          f"disagreements: {len(dis)}; spec failures: {len(fails)}; wall {time.time()-t_start:.1f}s")
    if violations:
        if ob["bad"]:
            print("  obligation problems: " + "; ".join(ob["bad"]))
        if run_err:
            print("  run error: " + run_err[:2000])
        for v in violations:
            print(v)
        sys.exit(1)
    print(f"OK property={pid} tier={tier}")
    sys.exit(0)


if __name__ == "__main__":
    main()
