//! C03 — connection ids are never reused.
//!
//! * `op shape`: a tools-free syntactic check of `/repo/swarm/src/connection.rs` (read at run
//!   time): `ConnectionId::next` must be a single `fetch_add(1, ..)` on a `static … Atomic*`.
//!   The shape is reported as the impl line; the Lean model proves uniqueness for that shape
//!   (and non-uniqueness for a load/store shape).
//! * `op wrap D N`: the wrap-around semantics the model's `stepW` assumes, observed on the atomic
//!   type the source names (`AtomicUsize`/`AtomicU64`/`AtomicU32`): a local atomic of that type
//!   starts at `2^w - D` and N `fetch_add(1)` calls report their return values.
//! * `op wraplife`: if the source's counter type is at most 32 bits wide, 2^w + 1 real allocations
//!   through `DialOpts` look for the reuse `C03.wrapping_reuse` predicts (a concrete failing
//!   history); with the 64-bit counter of the unchanged tree nothing is run.
//! * `op stress T K mode`: T OS threads, released together, allocate K ids each through the
//!   public API — `DialOpts` builders (`dial`), incoming connections on one real `Swarm` per
//!   thread (`swarm`), or both (`mixed`) — and the multiset of ids is summarised.
use std::sync::{Arc, Barrier};

use hcore::{Args, Multiaddr, Out, Protocol, Rng};
use libp2p_core::transport::TransportEvent;
use libp2p_swarm::dial_opts::DialOpts;

fn id_of(c: libp2p_swarm::ConnectionId) -> usize {
    format!("{c}").parse().expect("ConnectionId displays as a number")
}

/// strip `//` comments and all whitespace
fn squeeze(src: &str) -> String {
    let mut out = String::new();
    for l in src.lines() {
        let l = match l.find("//") {
            Some(p) => &l[..p],
            None => l,
        };
        out.extend(l.chars().filter(|c| !c.is_whitespace()));
    }
    out
}

fn shape() -> String {
    let path = format!("{}/swarm/src/connection.rs", crate::c12::repo_root());
    let src = squeeze(&std::fs::read_to_string(path).unwrap_or_default());
    // body of `fn next() -> Self { … }`
    let Some(p) = src.find("fnnext()->Self{") else {
        return "shape unknown add=? static=0".into();
    };
    let rest = &src[p + "fnnext()->Self{".len()..];
    let body = &rest[..rest.find('}').unwrap_or(rest.len())];
    // Self(<STATIC>.fetch_add(<k>,Ordering::<O>))
    let parsed = (|| {
        let inner = body.strip_prefix("Self(")?.strip_suffix(")")?;
        let (name, call) = inner.split_once(".fetch_add(")?;
        let args = call.strip_suffix(")")?;
        let (k, ord) = args.split_once(',')?;
        if !ord.starts_with("Ordering::") || !name.chars().all(|c| c.is_ascii_uppercase() || c == '_') {
            return None;
        }
        Some((name.to_string(), k.to_string()))
    })();
    match parsed {
        Some((name, k)) => {
            let is_static = ["AtomicUsize", "AtomicU64", "AtomicU32"]
                .iter()
                .any(|t| src.contains(&format!("static{name}:{t}={t}::new(")));
            format!("shape rmw add={} static={}", k, is_static as u8)
        }
        None => {
            if body.contains(".load(") || body.contains(".store(") {
                "shape loadstore add=? static=0".into()
            } else {
                "shape unknown add=? static=0".into()
            }
        }
    }
}

/// which atomic type the static counter of `ConnectionId::next` has, per the source text
fn counter_type() -> Option<&'static str> {
    let path = format!("{}/swarm/src/connection.rs", crate::c12::repo_root());
    let src = squeeze(&std::fs::read_to_string(path).unwrap_or_default());
    ["AtomicUsize", "AtomicU64", "AtomicU32"]
        .into_iter()
        .find(|t| src.contains(&format!(":{t}={t}::new(")) && src.contains(".fetch_add("))
}

fn wrap(d: u64, n: usize) -> String {
    use std::sync::atomic::{AtomicU32, AtomicU64, AtomicUsize, Ordering};
    let Some(ty) = counter_type() else {
        return "wrap unknown".into();
    };
    let (w, ids): (u32, Vec<u128>) = match ty {
        "AtomicUsize" => {
            let a = AtomicUsize::new(0usize.wrapping_sub(d as usize));
            (usize::BITS, (0..n).map(|_| a.fetch_add(1, Ordering::SeqCst) as u128).collect())
        }
        "AtomicU64" => {
            let a = AtomicU64::new(0u64.wrapping_sub(d));
            (64, (0..n).map(|_| a.fetch_add(1, Ordering::SeqCst) as u128).collect())
        }
        _ => {
            let a = AtomicU32::new(0u32.wrapping_sub(d as u32));
            (32, (0..n).map(|_| a.fetch_add(1, Ordering::SeqCst) as u128).collect())
        }
    };
    let l: Vec<String> = ids.iter().map(|x| x.to_string()).collect();
    format!("w={} ids={}", w, l.join(","))
}

/// Search for a concrete reuse over a process lifetime when the counter is narrow enough to wrap
/// in reachable time (`w <= 32`): allocate `2^w + 1` ids through the public `DialOpts` builder on
/// 16 threads and report whether the first id was handed out again.  With a 64-bit counter the
/// search space (2^64 + 1 allocations, `C03.wrapping_reuse`) is not explorable and nothing runs.
fn wraplife() -> String {
    let w: u32 = match counter_type() {
        Some("AtomicUsize") => usize::BITS,
        Some("AtomicU64") => 64,
        Some("AtomicU32") => 32,
        _ => return "wraplife unknown".into(),
    };
    if w > 32 {
        return format!("w={w} reused=0");
    }
    let peer = hcore::peer(7);
    let first = id_of(DialOpts::peer_id(peer).build().connection_id());
    let threads = 16u64;
    let per = ((1u64 << w) + threads) / threads;
    let handles: Vec<_> = (0..threads)
        .map(|_| {
            std::thread::spawn(move || {
                let mut hit = 0u64;
                for _ in 0..per {
                    if id_of(DialOpts::peer_id(peer).build().connection_id()) == first {
                        hit += 1;
                    }
                }
                hit
            })
        })
        .collect();
    let hits: u64 = handles.into_iter().map(|h| h.join().unwrap_or(0)).sum();
    format!("w={w} reused={} first={first} allocations={}", (hits > 0) as u8, per * threads + 1)
}

fn dial_ids(k: usize, salt: usize) -> Vec<usize> {
    let peer = hcore::peer((salt % 200) as u8 + 1);
    let addr = Multiaddr::empty().with(Protocol::Memory(salt as u64 + 1));
    (0..k)
        .map(|i| {
            let opts = match i % 3 {
                0 => DialOpts::peer_id(peer).build(),
                1 => DialOpts::unknown_peer_id().address(addr.clone()).build(),
                _ => DialOpts::peer_id(peer).addresses(vec![addr.clone()]).build(),
            };
            id_of(opts.connection_id())
        })
        .collect()
}

fn swarm_ids(k: usize, salt: usize) -> Vec<usize> {
    let mut rig = crate::c12::Rig::new(4);
    let lid = rig.sh.lock().unwrap().lids[0];
    let mut ids = vec![];
    let mut done = 0;
    while done < k {
        let batch = (k - done).min(1 + salt % 7);
        for j in 0..batch {
            rig.sh.lock().unwrap().tq.push_back(TransportEvent::Incoming {
                listener_id: lid,
                upgrade: std::future::pending(),
                local_addr: Multiaddr::empty().with(Protocol::Memory(1)),
                send_back_addr: Multiaddr::empty().with(Protocol::Memory((salt * 100_000 + done + j) as u64 + 2)),
            });
        }
        rig.settle();
        let log = std::mem::take(&mut rig.sh.lock().unwrap().log);
        for l in log {
            if let Some(v) = l.strip_prefix("sIC@") {
                ids.push(v.parse().unwrap());
            }
        }
        done += batch;
    }
    ids
}

fn stress(t: usize, k: usize, mode: &str) -> String {
    let barrier = Arc::new(Barrier::new(t));
    let mut handles = vec![];
    for i in 0..t {
        let b = barrier.clone();
        let use_swarm = match mode {
            "swarm" => true,
            "mixed" => i % 2 == 1,
            _ => false,
        };
        handles.push(std::thread::spawn(move || {
            b.wait();
            if use_swarm {
                swarm_ids(k, i)
            } else {
                dial_ids(k, i)
            }
        }));
    }
    let mut all: Vec<usize> = vec![];
    for h in handles {
        match h.join() {
            Ok(v) => all.extend(v),
            Err(_) => return "panic thread".into(),
        }
    }
    let n = all.len();
    all.sort_unstable();
    let span = if n == 0 { 0 } else { all[n - 1] - all[0] + 1 };
    all.dedup();
    format!("n={} distinct={} span={}", n, all.len(), span)
}

fn apply(op: &[String]) -> String {
    let t: Vec<&str> = op.iter().map(|s| s.as_str()).collect();
    match t.as_slice() {
        ["shape"] => shape(),
        ["wraplife"] => wraplife(),
        ["wrap", d, n] => match (d.parse::<u64>(), n.parse::<usize>()) {
            (Ok(d), Ok(n)) if d >= 1 && d <= 1 << 20 && n <= 64 => wrap(d, n),
            _ => "bad-op".into(),
        },
        ["stress", t, k, mode] => match (t.parse::<usize>(), k.parse::<usize>()) {
            (Ok(t), Ok(k)) if t >= 1 && t <= 64 => stress(t, k, mode),
            _ => "bad-op".into(),
        },
        _ => "bad-op".into(),
    }
}

fn run_case(out: &mut Out, idx: u64, class: &str, ops: &[Vec<String>]) {
    out.case(idx, &format!("{class} nt=1"));
    for op in ops {
        out.op(&op.join(" "));
        match hcore::guarded(|| apply(op)) {
            Ok(s) => out.imp(&s),
            Err(m) => out.imp(&format!("panic {m}")),
        }
    }
    out.end();
}

fn toks(s: String) -> Vec<String> {
    s.split(' ').map(|x| x.to_string()).collect()
}

pub fn run(args: &Args, out: &mut Out) {
    if let Some(cases) = args.replay_cases() {
        for (i, (_, ops)) in cases.iter().enumerate() {
            run_case(out, i as u64, "replay", ops);
        }
        return;
    }
    let mut idx = 0u64;
    run_case(out, idx, "shape", &[toks("shape".into())]);
    idx += 1;
    for (d, n) in [(1u64, 3usize), (2, 5), (5, 5), (7, 16)] {
        run_case(out, idx, "wrap", &[toks(format!("wrap {d} {n}"))]);
        idx += 1;
    }
    run_case(out, idx, "wraplife", &[toks("wraplife".into())]);
    idx += 1;
    // fixed ladder: the design's 16 threads x 50 000 (quick) / 2 000 000 (thorough) through DialOpts
    let big = if args.thorough { 2_000_000 } else { 50_000 };
    let ladder: Vec<(usize, usize, &str)> = vec![
        (1, 1000, "dial"),
        (2, 20_000, "dial"),
        (16, big, "dial"),
        (4, 500, "swarm"),
        (8, if args.thorough { 4000 } else { 1000 }, "mixed"),
    ];
    if args.count == 0 {
        for (t, k, m) in &ladder {
            run_case(out, idx, "ladder", &[toks(format!("stress {t} {k} {m}"))]);
            idx += 1;
        }
    }
    let n = args.n(12, 60);
    for i in 0..n {
        let mut rng = Rng::for_case(args.seed, i);
        let mode = *rng.pick(&["dial", "dial", "mixed", "swarm"]);
        let t = *rng.pick(&[2usize, 3, 4, 8, 16]);
        let k = match mode {
            "dial" => rng.range(1000, 30_000) as usize,
            _ => rng.range(50, 600) as usize,
        };
        let mut ops = vec![toks(format!("stress {t} {k} {mode}"))];
        if rng.chance(1, 4) {
            ops.push(toks(format!("wrap {} {}", rng.range(1, 40), rng.range(0, 48))));
        }
        if rng.chance(1, 3) {
            ops.push(toks(format!("stress {} {} dial", rng.range(2, 8), rng.range(100, 5000))));
        }
        run_case(out, idx, mode, &ops);
        idx += 1;
    }
}
