//! C12 — listen / external / peer address views vs the Lean model `C12`.
//!
//! Two families of ops (free to mix inside one case):
//!  * `h …`  : the `ExternalAddresses` / `ListenAddresses` / `PeerAddresses` helpers fed with
//!             synthesized `FromSwarm` events through their public API;
//!  * `sw …` : a real `Swarm` (no executor, polled by hand with a no-op waker) over a transport
//!             whose listener events are scripted, with a behaviour that logs every `FromSwarm`
//!             event, feeds it to its own three helpers and emits scripted `ToSwarm` commands.
use std::collections::VecDeque;
use std::io;
use std::num::NonZeroUsize;
use std::pin::Pin;
use std::sync::{Arc, Mutex};
use std::task::{Context, Poll};

use futures::Stream;
use hcore::{maddr_list_tok, maddr_tok, Args, Multiaddr, Out, Protocol, Rng};
use libp2p_core::muxing::StreamMuxerBox;
use libp2p_core::transport::{DialOpts, ListenerId, PortUse, TransportError, TransportEvent};
use libp2p_core::{Endpoint, PeerId, Transport};
use libp2p_swarm::behaviour::{
    ExpiredListenAddr, ExternalAddrConfirmed, ExternalAddrExpired, NewExternalAddrCandidate,
    NewExternalAddrOfPeer, NewListenAddr, NewListener,
};
use libp2p_swarm::{
    dummy, ConnectionDenied, ConnectionId, DialError, DialFailure, ExternalAddresses, FromSwarm,
    ListenAddresses, NetworkBehaviour, PeerAddresses, Swarm, SwarmEvent, THandler, THandlerInEvent,
    THandlerOutEvent, ToSwarm,
};

// ---------------------------------------------------------------- source constants (read at run time)

/// `/repo` — or the private copy of it next to a private copy of the harness (tools/mutcheck.py).
pub fn repo_root() -> String {
    let alt = format!("{}/../../repo", env!("CARGO_MANIFEST_DIR"));
    if std::path::Path::new(&format!("{alt}/swarm/src/lib.rs")).exists() {
        alt
    } else {
        "/repo".into()
    }
}

/// first unsigned integer literal following `marker` in `file` (`?` when not found)
fn const_after(file: &str, marker: &str) -> String {
    let src = std::fs::read_to_string(format!("{}/{}", repo_root(), file)).unwrap_or_default();
    if let Some(p) = src.find(marker) {
        let digits: String = src[p + marker.len()..].chars().take_while(|c| c.is_ascii_digit()).collect();
        if !digits.is_empty() {
            return digits;
        }
    }
    "?".into()
}

// ---------------------------------------------------------------- tokens

fn peer_tok(p: &PeerId) -> String {
    hcore::hex(&p.to_bytes())
}

fn parse_peer(t: &str) -> PeerId {
    PeerId::from_bytes(&hcore::unhex(t)).expect("peer token")
}

fn flag(b: bool) -> &'static str {
    if b {
        "1"
    } else {
        "0"
    }
}

fn sorted_list_tok<'a>(it: impl Iterator<Item = &'a Multiaddr>) -> String {
    let mut v: Vec<String> = it.map(maddr_tok).collect();
    v.sort();
    if v.is_empty() {
        "~".into()
    } else {
        v.join(";")
    }
}

/// inverse of `maddr_tok` for the components this harness generates
fn parse_addr(tok: &str) -> Multiaddr {
    let mut a = Multiaddr::empty();
    if tok == "-" {
        return a;
    }
    for c in tok.split('/') {
        let mut it = c.splitn(2, ':');
        let name = it.next().unwrap();
        let v = it.next().unwrap_or("");
        let s = |v: &str| String::from_utf8(hcore::unhex(v)).unwrap();
        a.push(match name {
            "ip4" => Protocol::Ip4(v.parse::<u32>().unwrap().into()),
            "ip6" => Protocol::Ip6(v.parse::<u128>().unwrap().into()),
            "dns" => Protocol::Dns(s(v).into()),
            "dns4" => Protocol::Dns4(s(v).into()),
            "tcp" => Protocol::Tcp(v.parse().unwrap()),
            "udp" => Protocol::Udp(v.parse().unwrap()),
            "p2p" => Protocol::P2p(parse_peer(v)),
            "quic-v1" => Protocol::QuicV1,
            "p2p-circuit" => Protocol::P2pCircuit,
            "ws" => Protocol::Ws("/".into()),
            "tls" => Protocol::Tls,
            "memory" => Protocol::Memory(v.parse().unwrap()),
            other => panic!("replay: unsupported component {other}"),
        });
    }
    a
}

fn parse_addr_list(tok: &str) -> Vec<Multiaddr> {
    if tok == "~" {
        vec![]
    } else {
        tok.split(';').map(parse_addr).collect()
    }
}

// ---------------------------------------------------------------- scripted Swarm rig

pub(crate) type TOut = (PeerId, StreamMuxerBox);
pub(crate) type TFut = std::future::Pending<Result<TOut, io::Error>>;

#[derive(Default)]
pub(crate) struct Shared {
    pub(crate) tq: VecDeque<TransportEvent<TFut, io::Error>>,
    bq: VecDeque<ToSwarm<std::convert::Infallible, THandlerInEvent<dummy::Behaviour>>>,
    pub(crate) log: Vec<String>,
    pub(crate) lids: Vec<ListenerId>,
}

impl Shared {
    fn lid(&self, id: ListenerId) -> String {
        match self.lids.iter().position(|x| *x == id) {
            Some(i) => i.to_string(),
            None => "x".into(),
        }
    }
}

struct ScriptTransport(Arc<Mutex<Shared>>);

impl Transport for ScriptTransport {
    type Output = TOut;
    type Error = io::Error;
    type ListenerUpgrade = TFut;
    type Dial = TFut;

    fn listen_on(&mut self, _id: ListenerId, _addr: Multiaddr) -> Result<(), TransportError<io::Error>> {
        Ok(())
    }
    fn remove_listener(&mut self, _id: ListenerId) -> bool {
        false
    }
    fn dial(&mut self, addr: Multiaddr, _opts: DialOpts) -> Result<Self::Dial, TransportError<io::Error>> {
        Err(TransportError::MultiaddrNotSupported(addr))
    }
    fn poll(self: Pin<&mut Self>, _cx: &mut Context<'_>) -> Poll<TransportEvent<TFut, io::Error>> {
        match self.0.lock().unwrap().tq.pop_front() {
            Some(e) => Poll::Ready(e),
            None => Poll::Pending,
        }
    }
}

pub(crate) struct LogBehaviour {
    sh: Arc<Mutex<Shared>>,
    ext: ExternalAddresses,
    lis: ListenAddresses,
    pa: PeerAddresses,
}

impl NetworkBehaviour for LogBehaviour {
    type ConnectionHandler = dummy::ConnectionHandler;
    type ToSwarm = std::convert::Infallible;

    fn handle_established_inbound_connection(
        &mut self,
        _: ConnectionId,
        _: PeerId,
        _: &Multiaddr,
        _: &Multiaddr,
    ) -> Result<THandler<Self>, ConnectionDenied> {
        Ok(dummy::ConnectionHandler)
    }
    fn handle_established_outbound_connection(
        &mut self,
        _: ConnectionId,
        _: PeerId,
        _: &Multiaddr,
        _: Endpoint,
        _: PortUse,
    ) -> Result<THandler<Self>, ConnectionDenied> {
        Ok(dummy::ConnectionHandler)
    }
    fn on_connection_handler_event(&mut self, _: PeerId, _: ConnectionId, event: THandlerOutEvent<Self>) {
        match event {}
    }
    fn on_swarm_event(&mut self, event: FromSwarm) {
        let flags = format!(
            "{}{}{}",
            flag(self.ext.on_swarm_event(&event)),
            flag(self.lis.on_swarm_event(&event)),
            flag(self.pa.on_swarm_event(&event))
        );
        let mut sh = self.sh.lock().unwrap();
        let s = match event {
            FromSwarm::NewListenAddr(e) => format!("fNLA@{}@{}", sh.lid(e.listener_id), maddr_tok(e.addr)),
            FromSwarm::ExpiredListenAddr(e) => format!("fELA@{}@{}", sh.lid(e.listener_id), maddr_tok(e.addr)),
            FromSwarm::ListenerClosed(e) => format!("fLC@{}", sh.lid(e.listener_id)),
            FromSwarm::ListenerError(e) => format!("fLE@{}", sh.lid(e.listener_id)),
            FromSwarm::NewListener(e) => format!("fNL@{}", sh.lid(e.listener_id)),
            FromSwarm::ExternalAddrConfirmed(e) => format!("fEAC@{}", maddr_tok(e.addr)),
            FromSwarm::ExternalAddrExpired(e) => format!("fEAE@{}", maddr_tok(e.addr)),
            FromSwarm::NewExternalAddrCandidate(e) => format!("fNEC@{}", maddr_tok(e.addr)),
            FromSwarm::NewExternalAddrOfPeer(e) => format!("fNEP@{}@{}", peer_tok(&e.peer_id), maddr_tok(e.addr)),
            _ => "f?".into(),
        };
        sh.log.push(format!("{s}@{flags}"));
    }
    fn poll(&mut self, _: &mut Context<'_>) -> Poll<ToSwarm<Self::ToSwarm, THandlerInEvent<Self>>> {
        match self.sh.lock().unwrap().bq.pop_front() {
            Some(e) => Poll::Ready(e),
            None => Poll::Pending,
        }
    }
}

pub(crate) struct Rig {
    pub(crate) sh: Arc<Mutex<Shared>>,
    pub(crate) swarm: Swarm<LogBehaviour>,
}

impl Rig {
    pub(crate) fn new(peers: usize) -> Rig {
        let sh = Arc::new(Mutex::new(Shared::default()));
        sh.lock().unwrap().lids = (0..4).map(|_| ListenerId::next()).collect();
        let beh = LogBehaviour {
            sh: sh.clone(),
            ext: ExternalAddresses::default(),
            lis: ListenAddresses::default(),
            pa: PeerAddresses::new(NonZeroUsize::new(peers.max(1)).unwrap()),
        };
        let swarm = Swarm::new(
            ScriptTransport(sh.clone()).boxed(),
            beh,
            hcore::peer(200),
            libp2p_swarm::Config::without_executor(),
        );
        Rig { sh, swarm }
    }

    /// poll the swarm until it is idle, logging the SwarmEvents it returns
    pub(crate) fn settle(&mut self) {
        let waker = futures::task::noop_waker();
        let mut cx = Context::from_waker(&waker);
        for _ in 0..1000 {
            match Pin::new(&mut self.swarm).poll_next(&mut cx) {
                Poll::Ready(Some(ev)) => {
                    let mut sh = self.sh.lock().unwrap();
                    let s = match ev {
                        SwarmEvent::NewListenAddr { listener_id, address } => {
                            format!("sNLA@{}@{}", sh.lid(listener_id), maddr_tok(&address))
                        }
                        SwarmEvent::ExpiredListenAddr { listener_id, address } => {
                            format!("sELA@{}@{}", sh.lid(listener_id), maddr_tok(&address))
                        }
                        SwarmEvent::ListenerClosed { listener_id, addresses, .. } => {
                            format!("sLC@{}@{}", sh.lid(listener_id), maddr_list_tok(&addresses))
                        }
                        SwarmEvent::ListenerError { listener_id, .. } => format!("sLE@{}", sh.lid(listener_id)),
                        SwarmEvent::NewExternalAddrCandidate { address } => format!("sNEC@{}", maddr_tok(&address)),
                        SwarmEvent::ExternalAddrConfirmed { address } => format!("sEAC@{}", maddr_tok(&address)),
                        SwarmEvent::ExternalAddrExpired { address } => format!("sEAE@{}", maddr_tok(&address)),
                        SwarmEvent::NewExternalAddrOfPeer { peer_id, address } => {
                            format!("sNEP@{}@{}", peer_tok(&peer_id), maddr_tok(&address))
                        }
                        SwarmEvent::IncomingConnection { connection_id, .. } => format!("sIC@{connection_id}"),
                        _ => "s?".into(),
                    };
                    sh.log.push(s);
                }
                Poll::Ready(None) => break,
                Poll::Pending => break,
            }
        }
    }

    fn view(&mut self) -> String {
        let ev = {
            let mut sh = self.sh.lock().unwrap();
            let l = std::mem::take(&mut sh.log);
            if l.is_empty() {
                "-".to_string()
            } else {
                l.join(",")
            }
        };
        let b = self.swarm.behaviour();
        format!(
            "ev={} lis={} ext={} hl={} he={}",
            ev,
            sorted_list_tok(self.swarm.listeners()),
            sorted_list_tok(self.swarm.external_addresses()),
            sorted_list_tok(b.lis.iter()),
            maddr_list_tok(b.ext.as_slice()),
        )
    }
}

// ---------------------------------------------------------------- one case

struct St {
    peers: usize,
    ext: ExternalAddresses,
    lis: ListenAddresses,
    pa: PeerAddresses,
    rig: Option<Rig>,
    next_conn: usize,
}

impl St {
    fn new(peers: usize) -> St {
        St {
            peers,
            ext: ExternalAddresses::default(),
            lis: ListenAddresses::default(),
            pa: PeerAddresses::new(NonZeroUsize::new(peers.max(1)).unwrap()),
            rig: None,
            next_conn: 1,
        }
    }
    fn rig(&mut self) -> &mut Rig {
        if self.rig.is_none() {
            self.rig = Some(Rig::new(self.peers));
        }
        self.rig.as_mut().unwrap()
    }
}

fn transport_errors(addrs: Vec<Multiaddr>) -> Vec<(Multiaddr, TransportError<io::Error>)> {
    addrs
        .into_iter()
        .enumerate()
        .map(|(i, a)| {
            let e = if i % 2 == 0 {
                TransportError::Other(io::Error::other("unreachable"))
            } else {
                TransportError::MultiaddrNotSupported(a.clone())
            };
            (a, e)
        })
        .collect()
}

/// execute one op (token list) on the real code; returns the impl line
fn apply(st: &mut St, op: &[String]) -> String {
    let t: Vec<&str> = op.iter().map(|s| s.as_str()).collect();
    let lid = ListenerId::next();
    match t.as_slice() {
        // ---- ExternalAddresses
        ["h", "ext", kind, rest @ ..] => {
            let a = rest.first().map(|x| parse_addr(x)).unwrap_or_else(Multiaddr::empty);
            let changed = match *kind {
                "conf" => st.ext.on_swarm_event(&FromSwarm::ExternalAddrConfirmed(ExternalAddrConfirmed { addr: &a })),
                "exp" => st.ext.on_swarm_event(&FromSwarm::ExternalAddrExpired(ExternalAddrExpired { addr: &a })),
                "cand" => st.ext.on_swarm_event(&FromSwarm::NewExternalAddrCandidate(NewExternalAddrCandidate { addr: &a })),
                "lnew" => st.ext.on_swarm_event(&FromSwarm::NewListenAddr(NewListenAddr { listener_id: lid, addr: &a })),
                _ => st.ext.on_swarm_event(&FromSwarm::NewListener(NewListener { listener_id: lid })),
            };
            assert_eq!(st.ext.iter().len(), st.ext.as_slice().len());
            format!("{} {}", flag(changed), maddr_list_tok(st.ext.as_slice()))
        }
        // ---- ListenAddresses
        ["h", "lis", kind, rest @ ..] => {
            let a = rest.first().map(|x| parse_addr(x)).unwrap_or_else(Multiaddr::empty);
            let changed = match *kind {
                "new" => st.lis.on_swarm_event(&FromSwarm::NewListenAddr(NewListenAddr { listener_id: lid, addr: &a })),
                "exp" => st.lis.on_swarm_event(&FromSwarm::ExpiredListenAddr(ExpiredListenAddr { listener_id: lid, addr: &a })),
                "conf" => st.lis.on_swarm_event(&FromSwarm::ExternalAddrConfirmed(ExternalAddrConfirmed { addr: &a })),
                _ => st.lis.on_swarm_event(&FromSwarm::NewListener(NewListener { listener_id: lid })),
            };
            format!("{} {}", flag(changed), sorted_list_tok(st.lis.iter()))
        }
        // ---- PeerAddresses
        ["h", "pa", "add", p, a] => {
            let (p, a) = (parse_peer(p), parse_addr(a));
            flag(st.pa.on_swarm_event(&FromSwarm::NewExternalAddrOfPeer(NewExternalAddrOfPeer { peer_id: p, addr: &a }))).into()
        }
        ["h", "pa", "addd", p, a] => flag(st.pa.add(parse_peer(p), parse_addr(a))).into(),
        ["h", "pa", "rm", p, a] => flag(st.pa.remove(&parse_peer(p), &parse_addr(a))).into(),
        ["h", "pa", "fail", p, l] => {
            let err = DialError::Transport(transport_errors(parse_addr_list(l)));
            st.next_conn += 1;
            let ev = FromSwarm::DialFailure(DialFailure {
                peer_id: Some(parse_peer(p)),
                error: &err,
                connection_id: ConnectionId::new_unchecked(st.next_conn),
            });
            flag(st.pa.on_swarm_event(&ev)).into()
        }
        ["h", "pa", "failnp", l] => {
            let err = DialError::Transport(transport_errors(parse_addr_list(l)));
            let ev = FromSwarm::DialFailure(DialFailure {
                peer_id: None,
                error: &err,
                connection_id: ConnectionId::new_unchecked(0),
            });
            flag(st.pa.on_swarm_event(&ev)).into()
        }
        ["h", "pa", "failother", p, k] => {
            let err = match *k {
                "aborted" => DialError::Aborted,
                "noaddr" => DialError::NoAddresses,
                _ => DialError::LocalPeerId { address: Multiaddr::empty() },
            };
            let ev = FromSwarm::DialFailure(DialFailure {
                peer_id: Some(parse_peer(p)),
                error: &err,
                connection_id: ConnectionId::new_unchecked(0),
            });
            flag(st.pa.on_swarm_event(&ev)).into()
        }
        ["h", "pa", "other", a] => {
            let a = parse_addr(a);
            flag(st.pa.on_swarm_event(&FromSwarm::ExternalAddrConfirmed(ExternalAddrConfirmed { addr: &a }))).into()
        }
        ["h", "pa", "get", p] => {
            let v: Vec<Multiaddr> = st.pa.get(&parse_peer(p)).collect();
            maddr_list_tok(&v)
        }
        // ---- real Swarm
        ["sw", "pget", p] => {
            let p = parse_peer(p);
            let v: Vec<Multiaddr> = st.rig().swarm.behaviour_mut().pa.get(&p).collect();
            maddr_list_tok(&v)
        }
        ["sw", kind, rest @ ..] => {
            let rig = st.rig();
            let l = |i: &str| rig.sh.lock().unwrap().lids[i.parse::<usize>().unwrap()];
            match (*kind, rest) {
                ("new", [i, a]) => {
                    let ev = TransportEvent::NewAddress { listener_id: l(i), listen_addr: parse_addr(a) };
                    rig.sh.lock().unwrap().tq.push_back(ev);
                }
                ("exp", [i, a]) => {
                    let ev = TransportEvent::AddressExpired { listener_id: l(i), listen_addr: parse_addr(a) };
                    rig.sh.lock().unwrap().tq.push_back(ev);
                }
                ("closed", [i]) => {
                    let ev = TransportEvent::ListenerClosed { listener_id: l(i), reason: Ok(()) };
                    rig.sh.lock().unwrap().tq.push_back(ev);
                }
                ("closederr", [i]) => {
                    let ev = TransportEvent::ListenerClosed { listener_id: l(i), reason: Err(io::Error::other("x")) };
                    rig.sh.lock().unwrap().tq.push_back(ev);
                }
                ("lerr", [i]) => {
                    let ev = TransportEvent::ListenerError { listener_id: l(i), error: io::Error::other("x") };
                    rig.sh.lock().unwrap().tq.push_back(ev);
                }
                ("addext", [a]) => rig.swarm.add_external_address(parse_addr(a)),
                ("rmext", [a]) => rig.swarm.remove_external_address(&parse_addr(a)),
                ("addpeer", [p, a]) => rig.swarm.add_peer_address(parse_peer(p), parse_addr(a)),
                ("bconf", [a]) => rig.sh.lock().unwrap().bq.push_back(ToSwarm::ExternalAddrConfirmed(parse_addr(a))),
                ("bexp", [a]) => rig.sh.lock().unwrap().bq.push_back(ToSwarm::ExternalAddrExpired(parse_addr(a))),
                ("bcand", [a]) => rig.sh.lock().unwrap().bq.push_back(ToSwarm::NewExternalAddrCandidate(parse_addr(a))),
                ("bpeer", [p, a]) => rig.sh.lock().unwrap().bq.push_back(ToSwarm::NewExternalAddrOfPeer {
                    peer_id: parse_peer(p),
                    address: parse_addr(a),
                }),
                _ => return "bad-op".into(),
            }
            rig.settle();
            rig.view()
        }
        _ => "bad-op".into(),
    }
}

fn run_case(out: &mut Out, idx: u64, class: &str, nt: bool, peers: usize, ops: &[Vec<String>], caps: &(String, String)) {
    out.case(idx, &format!("{class} nt={} extcap={} addrcap={} peers={}", nt as u8, caps.0, caps.1, peers));
    let mut st = St::new(peers);
    for op in ops {
        out.op(&op.join(" "));
        match hcore::guarded(|| apply(&mut st, op)) {
            Ok(s) => out.imp(&s),
            Err(m) => out.imp(&format!("panic {m}")),
        }
    }
    out.end();
}

// ---------------------------------------------------------------- generators

struct Alpha {
    peers: Vec<PeerId>,
    base: Vec<Multiaddr>,
}

impl Alpha {
    fn new() -> Alpha {
        let peers: Vec<PeerId> = (1..=6).map(hcore::peer).collect();
        let mut base = vec![];
        for i in 0..8u64 {
            base.push(Multiaddr::empty().with(Protocol::Memory(1000 + i)));
        }
        base.push("/ip4/127.0.0.1/tcp/8080".parse().unwrap());
        base.push("/ip4/127.0.0.1/tcp/8081".parse().unwrap());
        base.push("/ip4/10.0.0.7/udp/4001/quic-v1".parse().unwrap());
        base.push("/dns/example.com/tcp/443".parse().unwrap());
        base.push("/ip6/::1/tcp/9".parse().unwrap());
        base.push(Multiaddr::empty());
        Alpha { peers, base }
    }
    /// an address: a base address, possibly with a `/p2p/<peer>` suffix (own or foreign), possibly a relay path
    fn addr(&self, rng: &mut Rng, window: usize) -> Multiaddr {
        let w = window.min(self.base.len()).max(1);
        let mut a = self.base[rng.usize(w)].clone();
        match rng.usize(10) {
            0 | 1 => a.push(Protocol::P2p(*rng.pick(&self.peers[..4]))),
            2 => {
                a.push(Protocol::P2p(*rng.pick(&self.peers[..4])));
                a.push(Protocol::P2pCircuit);
            }
            _ => {}
        }
        a
    }
    fn addr_for(&self, rng: &mut Rng, p: &PeerId, window: usize) -> Multiaddr {
        let w = window.min(self.base.len()).max(1);
        let mut a = self.base[rng.usize(w)].clone();
        match rng.usize(12) {
            0 | 1 => a.push(Protocol::P2p(*p)),
            2 => a.push(Protocol::P2p(*rng.pick(&self.peers[..4]))),
            3 => {
                a.push(Protocol::P2p(*rng.pick(&self.peers[..4])));
                a.push(Protocol::P2pCircuit);
            }
            _ => {}
        }
        a
    }
}

fn toks(s: String) -> Vec<String> {
    s.split(' ').map(|x| x.to_string()).collect()
}

fn gen_ext(al: &Alpha, rng: &mut Rng, window: usize) -> Vec<String> {
    let a = maddr_tok(&al.addr(rng, window));
    toks(match rng.usize(20) {
        0..=10 => format!("h ext conf {a}"),
        11..=16 => format!("h ext exp {a}"),
        17 => format!("h ext cand {a}"),
        18 => format!("h ext lnew {a}"),
        _ => "h ext other".to_string(),
    })
}

fn gen_lis(al: &Alpha, rng: &mut Rng, window: usize) -> Vec<String> {
    let a = maddr_tok(&al.addr(rng, window));
    toks(match rng.usize(20) {
        0..=9 => format!("h lis new {a}"),
        10..=17 => format!("h lis exp {a}"),
        18 => format!("h lis conf {a}"),
        _ => "h lis other".to_string(),
    })
}

fn gen_pa(al: &Alpha, rng: &mut Rng, npeers: usize, window: usize, prefix: &str) -> Vec<String> {
    let p = *rng.pick(&al.peers[..npeers]);
    let pt = peer_tok(&p);
    let a = maddr_tok(&al.addr_for(rng, &p, window));
    let list = |rng: &mut Rng| {
        let n = [0usize, 1, 1, 1, 2, 2, 3, 5][rng.usize(8)];
        let v: Vec<Multiaddr> = (0..n).map(|_| al.addr_for(rng, &p, window)).collect();
        maddr_list_tok(&v)
    };
    if prefix == "sw" {
        return toks(match rng.usize(10) {
            0..=5 => format!("sw bpeer {pt} {a}"),
            6 => format!("sw addpeer {pt} {a}"),
            _ => format!("sw pget {pt}"),
        });
    }
    toks(match rng.usize(40) {
        0..=15 => format!("h pa add {pt} {a}"),
        16..=17 => format!("h pa addd {pt} {a}"),
        18..=20 => format!("h pa rm {pt} {a}"),
        21..=28 => format!("h pa fail {pt} {}", list(rng)),
        29 => format!("h pa failnp {}", list(rng)),
        30 => format!("h pa failother {pt} {}", rng.pick(&["aborted", "noaddr", "local"])),
        31 => format!("h pa other {a}"),
        _ => format!("h pa get {pt}"),
    })
}

fn gen_sw(al: &Alpha, rng: &mut Rng, npeers: usize, window: usize) -> Vec<String> {
    let a = maddr_tok(&al.addr(rng, window));
    let l = rng.usize(3);
    match rng.usize(40) {
        0..=9 => toks(format!("sw new {l} {a}")),
        10..=15 => toks(format!("sw exp {l} {a}")),
        16..=17 => toks(format!("sw closed {l}")),
        18 => toks(format!("sw closederr {l}")),
        19 => toks(format!("sw lerr {l}")),
        20..=22 => toks(format!("sw addext {a}")),
        23..=24 => toks(format!("sw rmext {a}")),
        25..=28 => toks(format!("sw bconf {a}")),
        29..=31 => toks(format!("sw bexp {a}")),
        32..=34 => toks(format!("sw bcand {a}")),
        _ => gen_pa(al, rng, npeers, window, "sw"),
    }
}

pub fn run(args: &Args, out: &mut Out) {
    let caps = (
        const_after("swarm/src/behaviour/external_addresses.rs", "const MAX_LOCAL_EXTERNAL_ADDRS: usize = "),
        const_after("swarm/src/behaviour/peer_addresses.rs", "let mut set = LruCache::new("),
    );
    if let Some(cases) = args.replay_cases() {
        for (i, (hdr, ops)) in cases.iter().enumerate() {
            let peers = hdr
                .iter()
                .find_map(|t| t.strip_prefix("peers=").and_then(|v| v.parse::<usize>().ok()))
                .unwrap_or(100);
            run_case(out, i as u64, "replay", true, peers, ops, &caps);
        }
        return;
    }
    let al = Alpha::new();
    let mut idx = 0u64;

    // bounded-exhaustive: every PeerAddresses op sequence of length ≤ L over a small op alphabet
    {
        let p1 = peer_tok(&al.peers[0]);
        let p2 = peer_tok(&al.peers[1]);
        let a1 = maddr_tok(&al.base[0]);
        let a2 = maddr_tok(&al.base[1]);
        let a1p2 = maddr_tok(&al.base[0].clone().with(Protocol::P2p(al.peers[1])));
        let alphabet: Vec<Vec<String>> = vec![
            toks(format!("h pa add {p1} {a1}")),
            toks(format!("h pa add {p1} {a2}")),
            toks(format!("h pa add {p2} {a1}")),
            toks(format!("h pa add {p1} {a1p2}")),
            toks(format!("h pa fail {p1} {a1}")),
            toks(format!("h pa fail {p1} {a1};{a2}")),
            toks(format!("h pa fail {p2} ~")),
            toks(format!("h pa fail {p1} {a1p2}")),
            toks(format!("h pa get {p1}")),
            toks(format!("h pa get {p2}")),
        ];
        let len = if args.thorough { 4 } else { 3 };
        if args.count == 0 {
            for peers in [1usize, 2] {
                for l in 1..=len {
                    let total = alphabet.len().pow(l as u32);
                    for code in 0..total {
                        let mut c = code;
                        let mut ops: Vec<Vec<String>> = vec![];
                        for _ in 0..l {
                            ops.push(alphabet[c % alphabet.len()].clone());
                            c /= alphabet.len();
                        }
                        run_case(out, idx, "pa-exhaustive", l >= 2, peers, &ops, &caps);
                        idx += 1;
                    }
                }
            }
        }
    }

    let n = args.n(1500, 60_000);
    for i in 0..n {
        let mut rng = Rng::for_case(args.seed, i);
        let class = ["ext", "lis", "pa", "mixed", "swarm", "pa", "swarm", "ext-fill"][rng.usize(8)];
        let len = match rng.usize(4) {
            0 => rng.range(1, 6),
            1 => rng.range(5, 30),
            _ => rng.range(20, 80),
        } as usize;
        let peers = *rng.pick(&[1usize, 2, 3, 4, 100]);
        let npeers = *rng.pick(&[2usize, 4, 5, 6]);
        let window = *rng.pick(&[2usize, 4, 14, 14]);
        let mut ops: Vec<Vec<String>> = vec![];
        match class {
            "ext-fill" => {
                // cross the capacity: many distinct confirmations first, then refreshes / expiries
                let mut pool: Vec<Multiaddr> = vec![];
                for b in &al.base {
                    pool.push(b.clone());
                    for p in &al.peers[..3] {
                        pool.push(b.clone().with(Protocol::P2p(*p)));
                    }
                }
                rng.shuffle(&mut pool);
                let k = rng.range(15, 30) as usize;
                for a in pool.iter().take(k) {
                    ops.push(toks(format!("h ext conf {}", maddr_tok(a))));
                }
                for _ in 0..len {
                    let a = maddr_tok(rng.pick(&pool[..(k + 3).min(pool.len())]));
                    ops.push(toks(if rng.chance(2, 3) { format!("h ext conf {a}") } else { format!("h ext exp {a}") }));
                }
            }
            _ => {
                for _ in 0..len {
                    ops.push(match class {
                        "ext" => gen_ext(&al, &mut rng, 14),
                        "lis" => gen_lis(&al, &mut rng, window),
                        "pa" => gen_pa(&al, &mut rng, npeers, window.max(4), "h"),
                        "swarm" => gen_sw(&al, &mut rng, npeers, window),
                        _ => match rng.usize(4) {
                            0 => gen_ext(&al, &mut rng, 14),
                            1 => gen_lis(&al, &mut rng, window),
                            2 => gen_pa(&al, &mut rng, npeers, 14, "h"),
                            _ => gen_sw(&al, &mut rng, npeers, window),
                        },
                    });
                }
            }
        }
        run_case(out, idx, class, ops.len() >= 3, peers, &ops, &caps);
        idx += 1;
    }
}
