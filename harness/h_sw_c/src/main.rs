//! Harness binary `h_sw_c <PROP> --seed S --tier T [--count N] [--replay F]`.
//! One module per property (`cNN.rs`, `pub fn run(args: &hcore::Args, out: &mut hcore::Out)`).

mod c03;
mod c12;

fn main() {
    let args = hcore::Args::parse();
    hcore::quiet_panics();
    let mut out = hcore::Out::new();
    match args.prop.as_str() {
        "C03" => c03::run(&args, &mut out),
        "C12" => c12::run(&args, &mut out),
        p => {
            let _ = &mut out;
            eprintln!("h_sw_c: unknown property {p}");
            std::process::exit(2);
        }
    }
    #[allow(unreachable_code)]
    out.flush();
}
