//! C08 — `ConcurrentDial` / `SmartDial` (hook `verif_c08`) with controllable dial futures vs the
//! Lean model `C08`.
//! ops:  `new c <n> <k>` | `new s <addr-list>` | `complete <i>:<ok|err>[,…]` | `adv <ms>` | `poll`
//! The monotonic clock is FROZEN (`crate::clock`) and moves only by `adv`; after each `adv` the harness
//! waits until futures-timer has processed the new time, so a `Delay` is ready exactly iff its deadline
//! has been reached. `SmartDial` wrappers therefore start their dial at a deterministic poll.
//! impl: `S:<started> F:<in flight> M:<max in flight so far> R:<pending | ok:<i>:<errs> | err:<errs>>`
//! A dial is *started* at the first poll of its future and *in flight* until its future returned Ready.
use futures::future::BoxFuture;
use hcore::{Args, Multiaddr, Out, Protocol, Rng};
use libp2p_core::muxing::{StreamMuxer, StreamMuxerBox, StreamMuxerEvent};
use libp2p_core::transport::TransportError;
use libp2p_swarm::verif_c08::{self, Dial, Outcome};
use std::future::Future;
use std::num::NonZeroU8;
use std::pin::Pin;
use std::sync::atomic::{AtomicBool, Ordering};
use std::sync::{Arc, Mutex};
use std::task::{Context, Poll, Wake, Waker};
use std::time::Duration;

struct NullMuxer;
impl StreamMuxer for NullMuxer {
    type Substream = futures::io::Cursor<Vec<u8>>;
    type Error = std::io::Error;
    fn poll_inbound(self: Pin<&mut Self>, _: &mut Context<'_>) -> Poll<Result<Self::Substream, Self::Error>> {
        Poll::Pending
    }
    fn poll_outbound(self: Pin<&mut Self>, _: &mut Context<'_>) -> Poll<Result<Self::Substream, Self::Error>> {
        Poll::Pending
    }
    fn poll_close(self: Pin<&mut Self>, _: &mut Context<'_>) -> Poll<Result<(), Self::Error>> {
        Poll::Ready(Ok(()))
    }
    fn poll(self: Pin<&mut Self>, _: &mut Context<'_>) -> Poll<Result<StreamMuxerEvent, Self::Error>> {
        Poll::Pending
    }
}

#[derive(Default)]
struct Cell {
    polled: bool,
    consumed: bool,
    polled_after_ready: bool,
    outcome: Option<bool>,
    waker: Option<Waker>,
}
#[derive(Default)]
struct Shared {
    cells: Vec<Cell>,
    max_in_flight: usize,
}
impl Shared {
    fn in_flight(&self) -> Vec<usize> {
        (1..self.cells.len()).filter(|i| self.cells[*i].polled && !self.cells[*i].consumed).collect()
    }
}

struct TestDial {
    i: usize,
    addr: Multiaddr,
    sh: Arc<Mutex<Shared>>,
}
impl Future for TestDial {
    type Output = (Multiaddr, Result<(libp2p_core::PeerId, StreamMuxerBox), TransportError<std::io::Error>>);
    fn poll(self: Pin<&mut Self>, cx: &mut Context<'_>) -> Poll<Self::Output> {
        let mut sh = self.sh.lock().unwrap();
        if sh.cells[self.i].consumed {
            sh.cells[self.i].polled_after_ready = true;
            return Poll::Pending;
        }
        sh.cells[self.i].polled = true;
        let n = sh.in_flight().len();
        if n > sh.max_in_flight {
            sh.max_in_flight = n;
        }
        match sh.cells[self.i].outcome {
            None => {
                sh.cells[self.i].waker = Some(cx.waker().clone());
                Poll::Pending
            }
            Some(ok) => {
                sh.cells[self.i].consumed = true;
                let r = if ok {
                    Ok((hcore::peer(7), StreamMuxerBox::new(NullMuxer)))
                } else {
                    Err(TransportError::Other(std::io::Error::new(std::io::ErrorKind::Other, "scripted")))
                };
                Poll::Ready((self.addr.clone(), r))
            }
        }
    }
}

struct Flag(AtomicBool);
impl Wake for Flag {
    fn wake(self: Arc<Self>) {
        self.0.store(true, Ordering::SeqCst);
    }
}

struct Sut {
    dial: Option<Dial>,
    sh: Arc<Mutex<Shared>>,
    addrs: Vec<Multiaddr>, // index 0 unused
    result: Option<Outcome>,
    flag: Arc<Flag>,
    smart: bool,
    timer_stuck: bool,
}

impl Sut {
    fn empty() -> Sut {
        Sut { dial: None, sh: Default::default(), addrs: vec![], result: None, flag: Arc::new(Flag(AtomicBool::new(false))), smart: false, timer_stuck: false }
    }
    fn build(&mut self, addrs: Vec<Multiaddr>) -> Vec<(Multiaddr, BoxFuture<'static, <TestDial as Future>::Output>)> {
        let n = addrs.len();
        self.sh = Arc::new(Mutex::new(Shared { cells: (0..=n).map(|_| Cell::default()).collect(), max_in_flight: 0 }));
        self.addrs = std::iter::once(Multiaddr::empty()).chain(addrs.iter().cloned()).collect();
        self.result = None;
        addrs
            .into_iter()
            .enumerate()
            .map(|(j, a)| {
                let f: BoxFuture<'static, _> = Box::pin(TestDial { i: j + 1, addr: a.clone(), sh: self.sh.clone() });
                (a, f)
            })
            .collect()
    }
    /// poll until the dial neither resolved nor asked to be polled again
    fn drive(&mut self) {
        if self.result.is_some() {
            return;
        }
        let waker = Waker::from(self.flag.clone());
        let mut cx = Context::from_waker(&waker);
        for _ in 0..10_000 {
            self.flag.0.store(false, Ordering::SeqCst);
            match self.dial.as_mut().expect("new first").poll(&mut cx) {
                Poll::Ready(r) => {
                    self.result = Some(r);
                    self.dial = None; // the pool drops the future once it resolved
                    return;
                }
                Poll::Pending => {
                    if !self.flag.0.load(Ordering::SeqCst) {
                        return;
                    }
                }
            }
        }
        panic!("dial keeps waking itself");
    }
    fn idx(&self, a: &Multiaddr) -> usize {
        self.addrs.iter().position(|x| x == a).unwrap_or(0)
    }
    fn state(&self) -> String {
        let sh = self.sh.lock().unwrap();
        let started: Vec<usize> = (1..sh.cells.len()).filter(|i| sh.cells[*i].polled).collect();
        let again = (1..sh.cells.len()).any(|i| sh.cells[i].polled_after_ready);
        let r = match &self.result {
            None => "pending".to_string(),
            Some(Ok((w, errs))) => {
                format!("ok:{}:{}", self.idx(w), hcore::list(&errs.iter().map(|a| self.idx(a)).collect::<Vec<_>>()))
            }
            Some(Err(errs)) => format!("err:{}", hcore::list(&errs.iter().map(|a| self.idx(a)).collect::<Vec<_>>())),
        };
        format!(
            "S:{} F:{} M:{} R:{}{}{}",
            hcore::list(&started),
            hcore::list(&sh.in_flight()),
            sh.max_in_flight,
            r,
            if again { " polled-after-ready" } else { "" },
            if self.timer_stuck { " timer-stuck" } else { "" }
        )
    }
}

fn smart_addr(j: usize, rng_pick: u64) -> Multiaddr {
    // distinct addresses of mixed rank (private/public, quic/tcp/webrtc, relay, dns) so that rank_dials
    // assigns zero and non-zero delays
    let mut a = Multiaddr::empty();
    let port = 1000 + j as u16;
    match rng_pick % 7 {
        0 => {
            a.push(Protocol::Ip4([1, 2, 3, 4].into()));
            a.push(Protocol::Tcp(port));
        }
        1 => {
            a.push(Protocol::Ip4([1, 2, 3, 4].into()));
            a.push(Protocol::Udp(port));
            a.push(Protocol::QuicV1);
        }
        2 => {
            a.push(Protocol::Ip6("2606:4700::1".parse().unwrap()));
            a.push(Protocol::Udp(port));
            a.push(Protocol::QuicV1);
        }
        3 => {
            a.push(Protocol::Ip4([192, 168, 1, 1].into()));
            a.push(Protocol::Tcp(port));
        }
        4 => {
            a.push(Protocol::Dns("example.com".into()));
            a.push(Protocol::Tcp(port));
        }
        5 => {
            a.push(Protocol::Ip4([1, 2, 3, 4].into()));
            a.push(Protocol::Udp(port));
            a.push(Protocol::WebRTCDirect);
        }
        _ => {
            a.push(Protocol::Ip4([1, 2, 3, 4].into()));
            a.push(Protocol::Tcp(port));
            a.push(Protocol::P2p(hcore::peer(9)));
            a.push(Protocol::P2pCircuit);
        }
    }
    a
}

fn exec(out: &mut Out, sut: &mut Sut, op: &[String], _seed: u64) {
    out.op(&op.join(" "));
    let r = hcore::guarded(|| {
        match op[0].as_str() {
            "new" if op[1] == "s" => {
                let addrs = crate::util::parse_list_tok(&op[2]);
                let dials = sut.build(addrs);
                sut.smart = true;
                sut.dial = Some(verif_c08::smart(dials));
            }
            "new" => {
                let n: usize = op[2].parse().unwrap();
                if op[1] == "c" {
                    let k: u8 = op[3].parse().unwrap();
                    let addrs = (1..=n).map(|i| Multiaddr::empty().with(Protocol::Memory(i as u64))).collect();
                    let dials = sut.build(addrs);
                    sut.dial = Some(verif_c08::concurrent(dials, NonZeroU8::new(k).unwrap()));
                } else {
                    unreachable!()
                }
            }
            "adv" => {
                let ms: u64 = op[1].parse().unwrap();
                hcore::warp(Duration::from_millis(ms));
                if !crate::util::settle_timers() {
                    sut.timer_stuck = true;
                }
            }
            "complete" => {
                for part in op[1].split(',') {
                    let mut it = part.split(':');
                    let i: usize = it.next().unwrap().parse().unwrap();
                    let ok = it.next().unwrap() == "ok";
                    let w = {
                        let mut sh = sut.sh.lock().unwrap();
                        if sut.result.is_some()
                            || i == 0
                            || i >= sh.cells.len()
                            || sh.cells[i].outcome.is_some()
                            || (sut.smart && !sh.cells[i].polled)
                        {
                            None
                        } else {
                            sh.cells[i].outcome = Some(ok);
                            sh.cells[i].waker.take()
                        }
                    };
                    if let Some(w) = w {
                        w.wake();
                    }
                }
            }
            "poll" => sut.drive(),
            _ => panic!("bad op"),
        }
        sut.state()
    });
    match r {
        Ok(s) => out.imp(&s),
        Err(m) => out.imp(&format!("panic {m}")),
    }
}

fn gen_case(out: &mut Out, idx: u64, class: &str, smart: bool, n: usize, k: usize, rng: &mut Rng, seed: u64) {
    out.case(idx, &format!("{class} nt={}", (n >= 2) as u8));
    let mut sut = Sut::empty();
    let s = |x: &str| x.to_string();
    if smart {
        unreachable!("smart cases are generated by gen_smart");
    } else {
        exec(out, &mut sut, &[s("new"), s("c"), n.to_string(), k.to_string()], seed);
    }
    let mut open: Vec<usize> = (1..=n).collect(); // outcome not yet decided
    let p_ok = *rng.pick(&[0u64, 1, 1, 3, 5]);
    let presets = !smart && rng.chance(1, 4);
    let steps = rng.usize(2 * n + 3);
    for _ in 0..steps {
        if sut.result.is_some() {
            break;
        }
        if rng.chance(1, 3) || open.is_empty() {
            exec(out, &mut sut, &[s("poll")], seed);
            continue;
        }
        // choose 1-3 dials to complete: normally among the started ones, sometimes any (preset)
        let started: Vec<usize> = {
            let sh = sut.sh.lock().unwrap();
            open.iter().copied().filter(|i| sh.cells[*i].polled).collect()
        };
        let pool: Vec<usize> = if presets || started.is_empty() { open.clone() } else { started };
        if !presets && !smart && pool.iter().all(|i| !sut.sh.lock().unwrap().cells[*i].polled) {
            exec(out, &mut sut, &[s("poll")], seed);
            continue;
        }
        let cnt = 1 + rng.usize(3.min(pool.len()));
        let mut parts = vec![];
        for _ in 0..cnt {
            let i = *rng.pick(&pool);
            if !open.contains(&i) {
                continue;
            }
            open.retain(|x| *x != i);
            parts.push(format!("{}:{}", i, if rng.chance(p_ok, 10) { "ok" } else { "err" }));
        }
        if parts.is_empty() {
            continue;
        }
        exec(out, &mut sut, &[s("complete"), parts.join(",")], seed);
        if rng.chance(2, 3) {
            exec(out, &mut sut, &[s("poll")], seed);
        }
    }
    if sut.result.is_none() {
        exec(out, &mut sut, &[s("poll")], seed);
    }
    out.end();
}

fn smart_addrs(n: usize, rng: &mut Rng) -> Vec<Multiaddr> {
    (1..=n).map(|i| smart_addr(i, rng.next_u64())).collect()
}

/// ranked delays (ms) per dial number, from the real `rank_dials` — used only to aim the clock
/// advances of the generator at the interesting moments
fn delays_of(addrs: &[Multiaddr]) -> Vec<u64> {
    let ranked = libp2p_swarm::verif_c09::rank(addrs.to_vec());
    addrs.iter().map(|a| ranked.iter().find(|(_, x)| x == a).map(|(d, _)| d.as_millis() as u64).unwrap_or(0)).collect()
}

fn started_open(sut: &Sut, open: &[usize]) -> Vec<usize> {
    let sh = sut.sh.lock().unwrap();
    open.iter().copied().filter(|i| sh.cells[*i].polled).collect()
}

/// walk the clock through every delay boundary (d-1 ms, d), with a completion policy
fn smart_scenario(out: &mut Out, idx: &mut u64, addrs: &[Multiaddr], pre_adv: u64, policy: u8, seed: u64) {
    let s = |x: &str| x.to_string();
    out.case(*idx, &format!("smart-walk nt={}", (addrs.len() >= 2) as u8));
    *idx += 1;
    let mut sut = Sut::empty();
    exec(out, &mut sut, &[s("new"), s("s"), hcore::maddr_list_tok(addrs)], seed);
    if pre_adv > 0 {
        exec(out, &mut sut, &[s("adv"), pre_adv.to_string()], seed);
    }
    let mut ds = delays_of(addrs);
    ds.sort();
    ds.dedup();
    let mut open: Vec<usize> = (1..=addrs.len()).collect();
    let mut t = 0u64; // time since the first poll
    let react = |out: &mut Out, sut: &mut Sut, open: &mut Vec<usize>, first: bool| {
        exec(out, sut, &[s("poll")], seed);
        let st = started_open(sut, open);
        match policy {
            // 1: everything fails as soon as it is started; 2: the first started dial succeeds;
            // 3: the first started dial fails, the second succeeds
            1 => {
                if !st.is_empty() {
                    let parts: Vec<String> = st.iter().map(|i| format!("{i}:err")).collect();
                    open.retain(|x| !st.contains(x));
                    exec(out, sut, &[s("complete"), parts.join(",")], seed);
                    exec(out, sut, &[s("poll")], seed);
                }
            }
            // 4: the first started dial succeeds, but the dial is polled only after the next timers fired
            4 if first => {
                if let Some(i) = st.first() {
                    open.retain(|x| x != i);
                    exec(out, sut, &[s("complete"), format!("{i}:ok")], seed);
                }
            }
            2 if first => {
                if let Some(i) = st.first() {
                    open.retain(|x| x != i);
                    exec(out, sut, &[s("complete"), format!("{i}:ok")], seed);
                    exec(out, sut, &[s("poll")], seed);
                }
            }
            3 => {
                if let Some(i) = st.first() {
                    let ok = open.len() < addrs.len();
                    open.retain(|x| x != i);
                    exec(out, sut, &[s("complete"), format!("{i}:{}", if ok { "ok" } else { "err" })], seed);
                    exec(out, sut, &[s("poll")], seed);
                }
            }
            _ => {}
        }
    };
    react(out, &mut sut, &mut open, true);
    for d in ds {
        if d == 0 {
            continue;
        }
        if d - 1 > t {
            exec(out, &mut sut, &[s("adv"), (d - 1 - t).to_string()], seed);
            t = d - 1;
            react(out, &mut sut, &mut open, false);
        }
        exec(out, &mut sut, &[s("adv"), (d - t).to_string()], seed);
        t = d;
        react(out, &mut sut, &mut open, false);
    }
    exec(out, &mut sut, &[s("adv"), s("5000")], seed);
    exec(out, &mut sut, &[s("poll")], seed);
    out.end();
}

fn gen_smart(out: &mut Out, idx: u64, rng: &mut Rng, seed: u64) {
    let s = |x: &str| x.to_string();
    let n = if rng.chance(1, 10) { rng.usize(13) } else { rng.usize(7) };
    let addrs = smart_addrs(n, rng);
    out.case(idx, &format!("smart nt={}", (n >= 2) as u8));
    let mut sut = Sut::empty();
    exec(out, &mut sut, &[s("new"), s("s"), hcore::maddr_list_tok(&addrs)], seed);
    let mut ds = delays_of(&addrs);
    ds.sort();
    ds.dedup();
    let mut open: Vec<usize> = (1..=n).collect();
    let p_ok = *rng.pick(&[0u64, 0, 1, 3]);
    let mut now = 0u64;
    let mut t0: Option<u64> = None;
    let steps = 3 + rng.usize(3 * n + 6);
    for _ in 0..steps {
        if sut.result.is_some() {
            // a few more ops after the result: nothing may start any more
            if rng.chance(1, 2) {
                exec(out, &mut sut, &[s("adv"), s("4000")], seed);
                exec(out, &mut sut, &[s("poll")], seed);
            }
            break;
        }
        match rng.below(10) {
            0..=3 => {
                if t0.is_none() {
                    t0 = Some(now);
                }
                exec(out, &mut sut, &[s("poll")], seed);
            }
            4..=6 => {
                let base = t0.unwrap_or(now);
                let next = ds.iter().map(|d| base + d).find(|x| *x > now);
                let d = match (next, rng.below(5)) {
                    (Some(x), 0) if x - now > 1 => x - now - 1,
                    (Some(x), 1) | (Some(x), 2) => x - now,
                    (_, 3) => 1,
                    _ => *rng.pick(&[1u64, 29, 30, 100, 250, 1000]),
                };
                now += d;
                exec(out, &mut sut, &[s("adv"), d.to_string()], seed);
            }
            _ => {
                let st = started_open(&sut, &open);
                if st.is_empty() {
                    continue;
                }
                let cnt = 1 + rng.usize(2.min(st.len()));
                let mut parts = vec![];
                for _ in 0..cnt {
                    let i = *rng.pick(&st);
                    if !open.contains(&i) {
                        continue;
                    }
                    open.retain(|x| *x != i);
                    parts.push(format!("{}:{}", i, if rng.chance(p_ok, 10) { "ok" } else { "err" }));
                }
                if !parts.is_empty() {
                    exec(out, &mut sut, &[s("complete"), parts.join(",")], seed);
                }
            }
        }
    }
    exec(out, &mut sut, &[s("poll")], seed);
    out.end();
}

/// exhaustive: every outcome vector and every completion order (one completion + poll at a time)
fn exhaustive(out: &mut Out, idx: &mut u64, n: usize, k: usize, seed: u64) {
    fn perms(v: &mut Vec<usize>, i: usize, acc: &mut Vec<Vec<usize>>) {
        if i == v.len() {
            acc.push(v.clone());
            return;
        }
        for j in i..v.len() {
            v.swap(i, j);
            perms(v, i + 1, acc);
            v.swap(i, j);
        }
    }
    let mut orders = vec![];
    perms(&mut (1..=n).collect(), 0, &mut orders);
    let s = |x: &str| x.to_string();
    for order in &orders {
        for mask in 0..(1u32 << n) {
            out.case(*idx, &format!("exh nt={}", (n >= 2) as u8));
            *idx += 1;
            let mut sut = Sut::empty();
            exec(out, &mut sut, &[s("new"), s("c"), n.to_string(), k.to_string()], seed);
            exec(out, &mut sut, &[s("poll")], seed);
            for i in order {
                if sut.result.is_some() {
                    break;
                }
                let ok = mask >> (i - 1) & 1 == 1;
                exec(out, &mut sut, &[s("complete"), format!("{}:{}", i, if ok { "ok" } else { "err" })], seed);
                exec(out, &mut sut, &[s("poll")], seed);
            }
            out.end();
        }
    }
}

pub fn run(args: &Args, out: &mut Out) {
    crate::clock::freeze();
    if let Some(cases) = args.replay_cases() {
        // Swarm-level cases (header token `sw=1`) are replayed by the swarm harness
        if cases.iter().any(|(hdr, _)| hdr.iter().any(|t| t == "sw=1")) {
            h_swarm::core::run(args, out);
            return;
        }
        for (i, (_, ops)) in cases.iter().enumerate() {
            out.case(i as u64, "replay nt=1");
            let mut sut = Sut::empty();
            for op in ops {
                exec(out, &mut sut, op, args.seed);
            }
            out.end();
        }
        return;
    }
    let mut idx = 0u64;
    let (en, ek) = if args.thorough && args.count == 0 { (5, 5) } else { (4, 3) };
    for n in 0..=en {
        for k in 1..=ek {
            exhaustive(out, &mut idx, n, k, args.seed);
        }
    }
    // SmartDial: walk through every delay boundary of mixed-rank address lists
    {
        let mut rng = Rng::for_case(args.seed, 0x5A17);
        let lists = if args.thorough && args.count == 0 { 120 } else { 24 };
        for li in 0..lists {
            let n = 1 + (li % 6);
            let addrs = smart_addrs(n, &mut rng);
            for policy in 0..5u8 {
                smart_scenario(out, &mut idx, &addrs, if li % 3 == 0 { 7 } else { 0 }, policy, args.seed);
            }
        }
    }
    let n_cases = args.n(2500, 60_000);
    for i in 0..n_cases {
        let mut rng = Rng::for_case(args.seed, i);
        let smart = rng.chance(1, 4);
        if smart {
            gen_smart(out, idx, &mut rng, args.seed);
            idx += 1;
            continue;
        }
        let n = if rng.chance(1, 10) { rng.usize(21) } else { rng.usize(11) };
        let k = if rng.chance(1, 10) { 1 + rng.usize(255) } else { 1 + rng.usize(8) };
        gen_case(out, idx, if smart { "smart" } else { "random" }, smart, n, k, &mut rng, args.seed);
        idx += 1;
    }
    // Swarm-level part of the property (`Swarm::dial` hands every address to the transport at most once,
    // every attempted address is reported exactly once): dial-focused scripts of the swarm harness
    h_swarm::core::run(args, out);
}
