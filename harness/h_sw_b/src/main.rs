//! Harness binary `h_sw_b <PROP> --seed S --tier T [--count N] [--replay F]`.
//! One module per property (`cNN.rs`, `pub fn run(args: &hcore::Args, out: &mut hcore::Out)`).
mod c08;
mod c09;
mod c10;
mod c11;
mod util;

hcore::install_clock!();

fn main() {
    let args = hcore::Args::parse();
    hcore::quiet_panics();
    let mut out = hcore::Out::new();
    match args.prop.as_str() {
        "C08" => c08::run(&args, &mut out),
        "C09" => c09::run(&args, &mut out),
        "C10" => c10::run(&args, &mut out),
        "C11" => c11::run(&args, &mut out),
        p => {
            eprintln!("h_sw_b: unknown property {p}");
            std::process::exit(2);
        }
    }
    out.flush();
}
