//! Harness binary `h_sw_b <PROP> --seed S --tier T [--count N] [--replay F]`.
//! One module per property (`cNN.rs`, `pub fn run(args: &hcore::Args, out: &mut hcore::Out)`).
mod c08;
mod c09;
mod c10;
mod c11;
mod util;

/// Interposed monotonic clock. Default (C08): real clock + `hcore::CLOCK_OFFSET_NS`, exactly as
/// `hcore::install_clock!()`. After `clock::freeze()` (C10): FROZEN — `CLOCK_MONOTONIC` reads exactly
/// `BASE_SECS` + the offset, so `Instant::now()` (and every futures-timer deadline) is a pure function
/// of the op sequence and boundary cases (`deadline == now`) do not depend on scheduling.
pub mod clock {
    use std::sync::atomic::{AtomicBool, Ordering::SeqCst};
    pub static FROZEN: AtomicBool = AtomicBool::new(false);
    pub const BASE_SECS: i64 = 1_000_000;
    pub fn freeze() {
        FROZEN.store(true, SeqCst);
    }
    extern "C" {
        fn __clock_gettime(clk: i32, ts: *mut [i64; 2]) -> i32;
    }
    #[no_mangle]
    pub unsafe extern "C" fn clock_gettime(clk: i32, ts: *mut [i64; 2]) -> i32 {
        if clk == 1 && FROZEN.load(SeqCst) {
            let off = hcore::CLOCK_OFFSET_NS.load(SeqCst);
            let t = &mut *ts;
            t[0] = BASE_SECS + (off / 1_000_000_000) as i64;
            t[1] = (off % 1_000_000_000) as i64;
            return 0;
        }
        let r = __clock_gettime(clk, ts);
        if r == 0 && clk == 1 {
            let off = hcore::CLOCK_OFFSET_NS.load(SeqCst) as i64;
            let t = &mut *ts;
            let total = t[1] + off % 1_000_000_000;
            t[0] += off / 1_000_000_000 + total / 1_000_000_000;
            t[1] = total % 1_000_000_000;
        }
        r
    }
}

fn main() {
    let args = hcore::Args::parse();
    hcore::quiet_panics();
    let mut out = hcore::Out::new();
    match args.prop.as_str() {
        "C08" => c08::run(&args, &mut out),
        "C09" => c09::run(&args, &mut out),
        "C10" => c10::run(&args, &mut out),
        "C11" => c11::run(&args, &mut out),
        p => {
            eprintln!("h_sw_b: unknown property {p}");
            std::process::exit(2);
        }
    }
    out.flush();
}
