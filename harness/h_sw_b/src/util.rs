//! helpers shared by the property modules of this crate
use hcore::{Multiaddr, Protocol};

/// inverse of `hcore::maddr_tok` for the components the harnesses generate (replay only)
pub fn parse_tok(tok: &str) -> Multiaddr {
    let mut a = Multiaddr::empty();
    if tok == "-" {
        return a;
    }
    for c in tok.split('/') {
        let mut it = c.splitn(2, ':');
        let name = it.next().unwrap();
        let v = it.next().unwrap_or("");
        let s = |v: &str| String::from_utf8(hcore::unhex(v)).unwrap();
        a.push(match name {
            "ip4" => Protocol::Ip4(v.parse::<u32>().unwrap().into()),
            "ip6" => Protocol::Ip6(v.parse::<u128>().unwrap().into()),
            "dns" => Protocol::Dns(s(v).into()),
            "dns4" => Protocol::Dns4(s(v).into()),
            "dns6" => Protocol::Dns6(s(v).into()),
            "dnsaddr" => Protocol::Dnsaddr(s(v).into()),
            "tcp" => Protocol::Tcp(v.parse().unwrap()),
            "udp" => Protocol::Udp(v.parse().unwrap()),
            "p2p" => Protocol::P2p(libp2p_core::PeerId::from_bytes(&hcore::unhex(v)).unwrap()),
            "quic" => Protocol::Quic,
            "quic-v1" => Protocol::QuicV1,
            "p2p-circuit" => Protocol::P2pCircuit,
            "ws" => Protocol::Ws("/".into()),
            "wss" => Protocol::Wss("/".into()),
            "tls" => Protocol::Tls,
            "webtransport" => Protocol::WebTransport,
            "webrtc-direct" => Protocol::WebRTCDirect,
            "memory" => Protocol::Memory(v.parse().unwrap()),
            "ip6zone" => Protocol::Ip6zone(s(v).into()),
            other => panic!("replay: unsupported component {other}"),
        });
    }
    a
}

/// inverse of `hcore::maddr_list_tok`
pub fn parse_list_tok(tok: &str) -> Vec<Multiaddr> {
    if tok == "~" {
        vec![]
    } else {
        tok.split(';').map(parse_tok).collect()
    }
}
