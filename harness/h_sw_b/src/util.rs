//! helpers shared by the property modules of this crate
use hcore::{Multiaddr, Protocol};

/// inverse of `hcore::maddr_tok` for the components the harnesses generate (replay only)
pub fn parse_tok(tok: &str) -> Multiaddr {
    let mut a = Multiaddr::empty();
    if tok == "-" {
        return a;
    }
    for c in tok.split('/') {
        let mut it = c.splitn(2, ':');
        let name = it.next().unwrap();
        let v = it.next().unwrap_or("");
        let s = |v: &str| String::from_utf8(hcore::unhex(v)).unwrap();
        a.push(match name {
            "ip4" => Protocol::Ip4(v.parse::<u32>().unwrap().into()),
            "ip6" => Protocol::Ip6(v.parse::<u128>().unwrap().into()),
            "dns" => Protocol::Dns(s(v).into()),
            "dns4" => Protocol::Dns4(s(v).into()),
            "dns6" => Protocol::Dns6(s(v).into()),
            "dnsaddr" => Protocol::Dnsaddr(s(v).into()),
            "tcp" => Protocol::Tcp(v.parse().unwrap()),
            "udp" => Protocol::Udp(v.parse().unwrap()),
            "p2p" => Protocol::P2p(libp2p_core::PeerId::from_bytes(&hcore::unhex(v)).unwrap()),
            "quic" => Protocol::Quic,
            "quic-v1" => Protocol::QuicV1,
            "p2p-circuit" => Protocol::P2pCircuit,
            "ws" => Protocol::Ws("/".into()),
            "wss" => Protocol::Wss("/".into()),
            "tls" => Protocol::Tls,
            "webtransport" => Protocol::WebTransport,
            "webrtc-direct" => Protocol::WebRTCDirect,
            "memory" => Protocol::Memory(v.parse().unwrap()),
            "ip6zone" => Protocol::Ip6zone(s(v).into()),
            other => panic!("replay: unsupported component {other}"),
        });
    }
    a
}

/// inverse of `hcore::maddr_list_tok`
pub fn parse_list_tok(tok: &str) -> Vec<Multiaddr> {
    if tok == "~" {
        vec![]
    } else {
        tok.split(';').map(parse_tok).collect()
    }
}

/// After `hcore::warp` under the FROZEN clock: wait (bounded) until futures-timer's helper thread has
/// processed the current time. A probe `Delay` due *now*, created after every timer of the system
/// under test, must have fired; a second probe makes sure the helper's pass that fired the first one
/// is complete (timers with equal deadlines fire in one pass). Returns false if the timer is stuck.
pub fn settle_timers() -> bool {
    use futures::FutureExt;
    let w = futures::task::noop_waker();
    let mut cx = std::task::Context::from_waker(&w);
    for _ in 0..2 {
        let mut probe = futures_timer::Delay::new(std::time::Duration::ZERO);
        let mut fired = false;
        for i in 0..200_000u32 {
            if probe.poll_unpin(&mut cx).is_ready() {
                fired = true;
                break;
            }
            drop(futures_timer::Delay::new(std::time::Duration::ZERO)); // kick the helper thread
            if i < 50 {
                std::thread::yield_now();
            } else {
                std::thread::sleep(std::time::Duration::from_micros(100));
            }
        }
        if !fired {
            return false;
        }
    }
    true
}
