//! C11 — `ProtocolsChange::{from_initial_protocols, from_full_sets, add, remove}` driven the way
//! `Connection` drives them (hook `verif_c11`) vs the Lean model `C11`.
//! ops:  `init <names>` | `local <names>` | `radd <names>` | `rrem <names>`
//! impl: `<events> <retained>`  where events = `-` or `A:<names>`/`R:<names>` joined by `+`
//!       (names hex, sorted, comma-joined) and retained = sorted key set of the connection's map/set
use hcore::{Args, Out, Rng};
use libp2p_swarm::{verif_c11, StreamProtocol};
use std::collections::HashSet;

const LOCAL_NAMES: [&str; 7] = ["/a", "/b", "/c", "/dd", "x", "y/", "/"];
const REMOTE_NAMES: [&str; 5] = ["/a", "/b", "/c", "/dd", "/"];

fn names_tok(v: &[String]) -> String {
    let mut b: Vec<Vec<u8>> = v.iter().map(|s| s.as_bytes().to_vec()).collect();
    b.sort();
    if b.is_empty() {
        "-".into()
    } else {
        b.iter().map(|x| hcore::hex(x)).collect::<Vec<_>>().join(",")
    }
}
/// op argument: order and duplicates preserved
fn list_tok(v: &[String]) -> String {
    if v.is_empty() {
        "-".into()
    } else {
        v.iter().map(|x| hcore::hex(x.as_bytes())).collect::<Vec<_>>().join(",")
    }
}
fn parse_list(tok: &str) -> Vec<String> {
    if tok == "-" {
        vec![]
    } else {
        tok.split(',').map(|h| String::from_utf8(hcore::unhex(h)).unwrap()).collect()
    }
}
fn evs_tok(evs: &[(bool, Vec<String>)]) -> String {
    if evs.is_empty() {
        "-".into()
    } else {
        evs.iter()
            .map(|(a, n)| format!("{}:{}", if *a { "A" } else { "R" }, names_tok(n)))
            .collect::<Vec<_>>()
            .join("+")
    }
}

struct Sut {
    local: Option<verif_c11::Local>,
    remote: verif_c11::Remote,
}

fn exec(out: &mut Out, sut: &mut Sut, kind: &str, names: &[String]) {
    out.op(&format!("{kind} {}", list_tok(names)));
    let r = hcore::guarded(|| match kind {
        "init" => {
            let (l, ev) = verif_c11::Local::new(names.to_vec());
            let k = l.keys();
            sut.local = Some(l);
            format!("{} {}", evs_tok(&ev.into_iter().collect::<Vec<_>>()), names_tok(&k))
        }
        "local" => {
            let l = sut.local.as_mut().expect("init first");
            let evs = l.update(names.to_vec());
            format!("{} {}", evs_tok(&evs), names_tok(&l.keys()))
        }
        "radd" | "rrem" => {
            let set: HashSet<StreamProtocol> =
                names.iter().map(|n| StreamProtocol::try_from_owned(n.clone()).expect("valid")).collect();
            let ev = if kind == "radd" { sut.remote.add(set) } else { sut.remote.remove(set) };
            format!("{} {}", evs_tok(&ev.into_iter().collect::<Vec<_>>()), names_tok(&sut.remote.set()))
        }
        _ => panic!("bad op"),
    });
    match r {
        Ok(s) => out.imp(&s),
        Err(m) => out.imp(&format!("panic {m}")),
    }
}

fn rand_list(rng: &mut Rng, alpha: &[&str], prev: &[String]) -> Vec<String> {
    let mut v: Vec<String> = match rng.below(8) {
        0 => prev.to_vec(),
        1 => {
            let mut p = prev.to_vec();
            p.push(rng.pick(alpha).to_string());
            p
        }
        2 => {
            let mut p = prev.to_vec();
            if !p.is_empty() {
                let i = rng.usize(p.len());
                p.remove(i);
            }
            p
        }
        3 => {
            // shrink with duplicates: same length as the previous distinct set
            let mut d: Vec<String> = prev.to_vec();
            d.sort();
            d.dedup();
            let n = d.len();
            if n == 0 {
                vec![]
            } else {
                let keep = 1 + rng.usize(n);
                (0..n).map(|i| d[i % keep].clone()).collect()
            }
        }
        _ => {
            let n = rng.usize(6);
            (0..n).map(|_| rng.pick(alpha).to_string()).collect()
        }
    };
    if rng.chance(1, 3) {
        rng.shuffle(&mut v);
    }
    v
}

fn all_lists(alpha: &[&str], maxlen: usize) -> Vec<Vec<String>> {
    let mut out: Vec<Vec<String>> = vec![vec![]];
    let mut frontier: Vec<Vec<String>> = vec![vec![]];
    for _ in 0..maxlen {
        let mut next = vec![];
        for l in &frontier {
            for a in alpha {
                let mut n = l.clone();
                n.push(a.to_string());
                next.push(n);
            }
        }
        out.extend(next.iter().cloned());
        frontier = next;
    }
    out
}

pub fn run(args: &Args, out: &mut Out) {
    if let Some(cases) = args.replay_cases() {
        for (i, (_, ops)) in cases.iter().enumerate() {
            out.case(i as u64, "replay nt=1");
            let mut sut = Sut { local: None, remote: Default::default() };
            for op in ops {
                exec(out, &mut sut, &op[0], &parse_list(&op[1]));
            }
            out.end();
        }
        return;
    }
    let mut idx = 0u64;
    // bounded exhaustive: init L0, then L1 (and L2 in the thorough tier) over a 3-name alphabet
    // (two valid, one invalid), lists of length <= 3 (quick: <= 2 for the second step)
    let small = ["/a", "/b", "x"];
    let l3 = all_lists(&small, 3);
    let l2 = all_lists(&small, 2);
    for a in &l3 {
        for b in &l3 {
            if args.thorough && args.count == 0 {
                for c in &l2 {
                    out.case(idx, "exh3 nt=1");
                    let mut sut = Sut { local: None, remote: Default::default() };
                    exec(out, &mut sut, "init", a);
                    exec(out, &mut sut, "local", b);
                    exec(out, &mut sut, "local", c);
                    out.end();
                    idx += 1;
                }
            } else {
                out.case(idx, "exh2 nt=1");
                let mut sut = Sut { local: None, remote: Default::default() };
                exec(out, &mut sut, "init", a);
                exec(out, &mut sut, "local", b);
                out.end();
                idx += 1;
            }
        }
    }
    let n = args.n(3000, 100_000);
    for i in 0..n {
        let mut rng = Rng::for_case(args.seed, i);
        let steps = 1 + rng.usize(12);
        out.case(idx, &format!("random nt={}", (steps >= 2) as u8));
        let mut sut = Sut { local: None, remote: Default::default() };
        let mut prev = rand_list(&mut rng, &LOCAL_NAMES, &[]);
        exec(out, &mut sut, "init", &prev);
        let mut rprev: Vec<String> = vec![];
        for _ in 0..steps {
            match rng.below(4) {
                0 | 1 => {
                    let l = rand_list(&mut rng, &LOCAL_NAMES, &prev);
                    exec(out, &mut sut, "local", &l);
                    prev = l;
                }
                2 => {
                    let l = rand_list(&mut rng, &REMOTE_NAMES, &rprev);
                    exec(out, &mut sut, "radd", &l);
                    rprev = l;
                }
                _ => {
                    let l = rand_list(&mut rng, &REMOTE_NAMES, &rprev);
                    exec(out, &mut sut, "rrem", &l);
                    rprev = l;
                }
            }
        }
        out.end();
        idx += 1;
    }
}
