//! C11 — `ProtocolsChange::{from_initial_protocols, from_full_sets, add, remove}` driven the way
//! `Connection` drives them (hook `verif_c11`) vs the Lean model `C11`.
//! ops:  `init <names>` | `local <names>` | `radd <names>` | `rrem <names>`
//! impl: `<events> <retained>`  where events = `-` or `A:<names>`/`R:<names>` joined by `+`
//!       (names hex, sorted, comma-joined) and retained = sorted key set of the connection's map/set
//!
//! End-to-end ops (a REAL `Connection`, hook `verif_c10::Conn`, probe handler with a scripted
//! `listen_protocol()` set):
//!   `new <names>`            Connection::new with the handler advertising <names>
//!   `steps <s;s;…>`          script the next `ConnectionHandler::poll` calls: `P` Pending, `P=<names>` change
//!                            the advertised set then Pending, `E` / `E=<names>` (then) NotifyBehaviour,
//!                            `RA=<names>` / `RR=<names>` ReportRemoteProtocols(Added/Removed)
//!   `onev <N|S=<names>;…>`   script `on_connection_event`: at the next Local/RemoteProtocolsChange received,
//!                            do nothing / change the advertised set
//!   `beh <names>`            `Connection::on_behaviour_event`: the handler changes its advertised set
//!   `poll`                   one `Connection::poll`
//! impl: `<-|pending|event> ev=<LA:…+LR:…+RA:…+RR:…|-> em=<A:…+R:…|-> adv=<names> lk=<names> rk=<names>`
//!   ev = Local/Remote ProtocolsChange events the handler received during the op (in order), em = the
//!   remote reports the handler emitted, adv = what `listen_protocol()` advertises now, lk / rk = the
//!   connection's retained local keys / remote set.
use hcore::{Args, Out, Rng};
use libp2p_swarm::{verif_c11, StreamProtocol};
use std::collections::HashSet;

const LOCAL_NAMES: [&str; 7] = ["/a", "/b", "/c", "/dd", "x", "y/", "/"];
const REMOTE_NAMES: [&str; 5] = ["/a", "/b", "/c", "/dd", "/"];

fn names_tok(v: &[String]) -> String {
    let mut b: Vec<Vec<u8>> = v.iter().map(|s| s.as_bytes().to_vec()).collect();
    b.sort();
    if b.is_empty() {
        "-".into()
    } else {
        b.iter().map(|x| hcore::hex(x)).collect::<Vec<_>>().join(",")
    }
}
/// op argument: order and duplicates preserved
fn list_tok(v: &[String]) -> String {
    if v.is_empty() {
        "-".into()
    } else {
        v.iter().map(|x| hcore::hex(x.as_bytes())).collect::<Vec<_>>().join(",")
    }
}
fn parse_list(tok: &str) -> Vec<String> {
    if tok == "-" {
        vec![]
    } else {
        tok.split(',').map(|h| String::from_utf8(hcore::unhex(h)).unwrap()).collect()
    }
}
fn evs_tok(evs: &[(bool, Vec<String>)]) -> String {
    if evs.is_empty() {
        "-".into()
    } else {
        evs.iter()
            .map(|(a, n)| format!("{}:{}", if *a { "A" } else { "R" }, names_tok(n)))
            .collect::<Vec<_>>()
            .join("+")
    }
}

struct Sut {
    local: Option<verif_c11::Local>,
    remote: verif_c11::Remote,
}

fn exec(out: &mut Out, sut: &mut Sut, kind: &str, names: &[String]) {
    out.op(&format!("{kind} {}", list_tok(names)));
    let r = hcore::guarded(|| match kind {
        "init" => {
            let (l, ev) = verif_c11::Local::new(names.to_vec());
            let k = l.keys();
            sut.local = Some(l);
            format!("{} {}", evs_tok(&ev.into_iter().collect::<Vec<_>>()), names_tok(&k))
        }
        "local" => {
            let l = sut.local.as_mut().expect("init first");
            let evs = l.update(names.to_vec());
            format!("{} {}", evs_tok(&evs), names_tok(&l.keys()))
        }
        "radd" | "rrem" => {
            let set: HashSet<StreamProtocol> =
                names.iter().map(|n| StreamProtocol::try_from_owned(n.clone()).expect("valid")).collect();
            let ev = if kind == "radd" { sut.remote.add(set) } else { sut.remote.remove(set) };
            format!("{} {}", evs_tok(&ev.into_iter().collect::<Vec<_>>()), names_tok(&sut.remote.set()))
        }
        _ => panic!("bad op"),
    });
    match r {
        Ok(s) => out.imp(&s),
        Err(m) => out.imp(&format!("panic {m}")),
    }
}

fn rand_list(rng: &mut Rng, alpha: &[&str], prev: &[String]) -> Vec<String> {
    let mut v: Vec<String> = match rng.below(8) {
        0 => prev.to_vec(),
        1 => {
            let mut p = prev.to_vec();
            p.push(rng.pick(alpha).to_string());
            p
        }
        2 => {
            let mut p = prev.to_vec();
            if !p.is_empty() {
                let i = rng.usize(p.len());
                p.remove(i);
            }
            p
        }
        3 => {
            // shrink with duplicates: same length as the previous distinct set
            let mut d: Vec<String> = prev.to_vec();
            d.sort();
            d.dedup();
            let n = d.len();
            if n == 0 {
                vec![]
            } else {
                let keep = 1 + rng.usize(n);
                (0..n).map(|i| d[i % keep].clone()).collect()
            }
        }
        _ => {
            let n = rng.usize(6);
            (0..n).map(|_| rng.pick(alpha).to_string()).collect()
        }
    };
    if rng.chance(1, 3) {
        rng.shuffle(&mut v);
    }
    v
}

fn all_lists(alpha: &[&str], maxlen: usize) -> Vec<Vec<String>> {
    let mut out: Vec<Vec<String>> = vec![vec![]];
    let mut frontier: Vec<Vec<String>> = vec![vec![]];
    for _ in 0..maxlen {
        let mut next = vec![];
        for l in &frontier {
            for a in alpha {
                let mut n = l.clone();
                n.push(a.to_string());
                next.push(n);
            }
        }
        out.extend(next.iter().cloned());
        frontier = next;
    }
    out
}

pub fn run(args: &Args, out: &mut Out) {
    if let Some(cases) = args.replay_cases() {
        for (i, (_, ops)) in cases.iter().enumerate() {
            out.case(i as u64, "replay nt=1");
            let mut sut = Sut { local: None, remote: Default::default() };
            let mut rig = e2e::Rig::empty();
            for op in ops {
                if is_e2e(&op[0]) {
                    exec_e2e(out, &mut rig, op);
                } else {
                    exec(out, &mut sut, &op[0], &parse_list(&op[1]));
                }
            }
            out.end();
        }
        return;
    }
    let mut idx = 0u64;
    // bounded exhaustive: init L0, then L1 (and L2 in the thorough tier) over a 3-name alphabet
    // (two valid, one invalid), lists of length <= 3 (quick: <= 2 for the second step)
    let small = ["/a", "/b", "x"];
    let l3 = all_lists(&small, 3);
    let l2 = all_lists(&small, 2);
    for a in &l3 {
        for b in &l3 {
            if args.thorough && args.count == 0 {
                for c in &l2 {
                    out.case(idx, "exh3 nt=1");
                    let mut sut = Sut { local: None, remote: Default::default() };
                    exec(out, &mut sut, "init", a);
                    exec(out, &mut sut, "local", b);
                    exec(out, &mut sut, "local", c);
                    out.end();
                    idx += 1;
                }
            } else {
                out.case(idx, "exh2 nt=1");
                let mut sut = Sut { local: None, remote: Default::default() };
                exec(out, &mut sut, "init", a);
                exec(out, &mut sut, "local", b);
                out.end();
                idx += 1;
            }
        }
    }
    let n = args.n(3000, 100_000);
    for i in 0..n {
        let mut rng = Rng::for_case(args.seed, i);
        let steps = 1 + rng.usize(12);
        out.case(idx, &format!("random nt={}", (steps >= 2) as u8));
        let mut sut = Sut { local: None, remote: Default::default() };
        let mut prev = rand_list(&mut rng, &LOCAL_NAMES, &[]);
        exec(out, &mut sut, "init", &prev);
        let mut rprev: Vec<String> = vec![];
        for _ in 0..steps {
            match rng.below(4) {
                0 | 1 => {
                    let l = rand_list(&mut rng, &LOCAL_NAMES, &prev);
                    exec(out, &mut sut, "local", &l);
                    prev = l;
                }
                2 => {
                    let l = rand_list(&mut rng, &REMOTE_NAMES, &rprev);
                    exec(out, &mut sut, "radd", &l);
                    rprev = l;
                }
                _ => {
                    let l = rand_list(&mut rng, &REMOTE_NAMES, &rprev);
                    exec(out, &mut sut, "rrem", &l);
                    rprev = l;
                }
            }
        }
        out.end();
        idx += 1;
    }
    run_e2e(args, out, &mut idx);
}

// =============================================================================================
// end-to-end: the real `Connection::poll`
// =============================================================================================
mod e2e {
    use super::{list_tok, names_tok, parse_list};
    use libp2p_core::muxing::{StreamMuxer, StreamMuxerBox, StreamMuxerEvent};
    use libp2p_core::upgrade::{DeniedUpgrade, InboundUpgrade, UpgradeInfo};
    use libp2p_swarm::handler::{
        ConnectionEvent, ConnectionHandler, ConnectionHandlerEvent, ProtocolSupport, ProtocolsChange, SubstreamProtocol,
    };
    use libp2p_swarm::verif_c10::{Conn, Polled};
    use libp2p_swarm::StreamProtocol;
    use std::collections::{HashSet, VecDeque};
    use std::pin::Pin;
    use std::sync::{Arc, Mutex};
    use std::task::{Context, Poll};
    use std::time::Duration;

    struct IdleMuxer;
    impl StreamMuxer for IdleMuxer {
        type Substream = futures::io::Cursor<Vec<u8>>;
        type Error = std::io::Error;
        fn poll_inbound(self: Pin<&mut Self>, _: &mut Context<'_>) -> Poll<Result<Self::Substream, Self::Error>> {
            Poll::Pending
        }
        fn poll_outbound(self: Pin<&mut Self>, _: &mut Context<'_>) -> Poll<Result<Self::Substream, Self::Error>> {
            Poll::Pending
        }
        fn poll_close(self: Pin<&mut Self>, _: &mut Context<'_>) -> Poll<Result<(), Self::Error>> {
            Poll::Ready(Ok(()))
        }
        fn poll(self: Pin<&mut Self>, _: &mut Context<'_>) -> Poll<Result<StreamMuxerEvent, Self::Error>> {
            Poll::Pending
        }
    }

    /// inbound upgrade advertising an arbitrary list of names (duplicates / invalid names allowed)
    #[derive(Clone)]
    pub struct ListUpgrade(Vec<String>);
    impl UpgradeInfo for ListUpgrade {
        type Info = String;
        type InfoIter = std::vec::IntoIter<String>;
        fn protocol_info(&self) -> Self::InfoIter {
            self.0.clone().into_iter()
        }
    }
    impl<C> InboundUpgrade<C> for ListUpgrade {
        type Output = C;
        type Error = std::convert::Infallible;
        type Future = futures::future::Ready<Result<C, Self::Error>>;
        fn upgrade_inbound(self, c: C, _: String) -> Self::Future {
            futures::future::ready(Ok(c))
        }
    }

    pub enum Step {
        Pend(Option<Vec<String>>),
        Event(Option<Vec<String>>),
        Remote(bool, Vec<String>),
    }
    #[derive(Default)]
    pub struct HState {
        adv: Vec<String>,
        steps: VecDeque<Step>,
        on_ev: VecDeque<Option<Vec<String>>>,
        log: Vec<String>,
        emitted: Vec<String>,
        /// `ConnectionHandler::poll` calls during the current op (a `Connection::poll` that never
        /// returns is reported as a panic instead of hanging the harness)
        polls: u32,
    }
    pub struct Probe(Arc<Mutex<HState>>);
    impl ConnectionHandler for Probe {
        type FromBehaviour = Vec<String>;
        type ToBehaviour = ();
        type InboundProtocol = ListUpgrade;
        type OutboundProtocol = DeniedUpgrade;
        type InboundOpenInfo = ();
        type OutboundOpenInfo = ();
        fn listen_protocol(&self) -> SubstreamProtocol<Self::InboundProtocol> {
            SubstreamProtocol::new(ListUpgrade(self.0.lock().unwrap().adv.clone()), ())
        }
        fn connection_keep_alive(&self) -> bool {
            true
        }
        fn poll(&mut self, _: &mut Context<'_>) -> Poll<ConnectionHandlerEvent<Self::OutboundProtocol, (), ()>> {
            let mut h = self.0.lock().unwrap();
            h.polls += 1;
            if h.polls > 100_000 {
                h.polls = 0;
                drop(h);
                panic!("Connection::poll keeps looping");
            }
            match h.steps.pop_front() {
                None => Poll::Pending,
                Some(Step::Pend(set)) => {
                    if let Some(l) = set {
                        h.adv = l;
                    }
                    Poll::Pending
                }
                Some(Step::Event(set)) => {
                    if let Some(l) = set {
                        h.adv = l;
                    }
                    Poll::Ready(ConnectionHandlerEvent::NotifyBehaviour(()))
                }
                Some(Step::Remote(add, names)) => {
                    h.emitted.push(format!("{}:{}", if add { "A" } else { "R" }, list_tok(&names)));
                    let set: HashSet<StreamProtocol> =
                        names.into_iter().map(|n| StreamProtocol::try_from_owned(n).expect("valid remote name")).collect();
                    Poll::Ready(ConnectionHandlerEvent::ReportRemoteProtocols(if add {
                        ProtocolSupport::Added(set)
                    } else {
                        ProtocolSupport::Removed(set)
                    }))
                }
            }
        }
        fn on_behaviour_event(&mut self, l: Vec<String>) {
            self.0.lock().unwrap().adv = l;
        }
        fn on_connection_event(&mut self, event: ConnectionEvent<Self::InboundProtocol, Self::OutboundProtocol>) {
            let tok = |c: ProtocolsChange<'_>| -> String {
                match c {
                    ProtocolsChange::Added(a) => format!("A:{}", names_tok(&a.map(|p| p.as_ref().to_owned()).collect::<Vec<_>>())),
                    ProtocolsChange::Removed(r) => format!("R:{}", names_tok(&r.map(|p| p.as_ref().to_owned()).collect::<Vec<_>>())),
                }
            };
            let t = match event {
                ConnectionEvent::LocalProtocolsChange(c) => format!("L{}", tok(c)),
                ConnectionEvent::RemoteProtocolsChange(c) => format!("R{}", tok(c)),
                _ => return,
            };
            let mut h = self.0.lock().unwrap();
            h.log.push(t);
            if let Some(Some(l)) = h.on_ev.pop_front() {
                h.adv = l;
            }
        }
    }

    pub struct Rig {
        conn: Option<Conn<Probe>>,
        hs: Arc<Mutex<HState>>,
    }

    fn opt_list(tok: &str, prefix: &str) -> Option<Option<Vec<String>>> {
        if tok == prefix {
            Some(None)
        } else {
            tok.strip_prefix(&format!("{prefix}=")).map(|l| Some(parse_list(l)))
        }
    }

    impl Rig {
        pub fn empty() -> Rig {
            Rig { conn: None, hs: Default::default() }
        }
        fn line(&mut self, res: &str) -> String {
            let conn = self.conn.as_ref().unwrap();
            let mut h = self.hs.lock().unwrap();
            let ev = if h.log.is_empty() { "-".to_string() } else { h.log.join("+") };
            let em = if h.emitted.is_empty() { "-".to_string() } else { h.emitted.join("+") };
            h.log.clear();
            h.emitted.clear();
            h.polls = 0;
            format!(
                "{res} ev={ev} em={em} adv={} lk={} rk={}",
                list_tok(&h.adv),
                names_tok(&conn.local_protocols()),
                names_tok(&conn.remote_protocols())
            )
        }
        pub fn op(&mut self, op: &[String]) -> String {
            match op[0].as_str() {
                "new" => {
                    self.hs = Default::default();
                    self.hs.lock().unwrap().adv = parse_list(&op[1]);
                    let c = Conn::new(StreamMuxerBox::new(IdleMuxer), Probe(self.hs.clone()), 0, Duration::from_secs(1_000_000));
                    self.conn = Some(c);
                    self.line("-")
                }
                "steps" => {
                    let mut h = self.hs.lock().unwrap();
                    for t in op[1].split(';') {
                        let st = if let Some(s) = opt_list(t, "P") {
                            Step::Pend(s)
                        } else if let Some(s) = opt_list(t, "E") {
                            Step::Event(s)
                        } else if let Some(Some(l)) = opt_list(t, "RA") {
                            Step::Remote(true, l)
                        } else if let Some(Some(l)) = opt_list(t, "RR") {
                            Step::Remote(false, l)
                        } else {
                            panic!("bad step {t}")
                        };
                        h.steps.push_back(st);
                    }
                    drop(h);
                    self.line("-")
                }
                "onev" => {
                    let mut h = self.hs.lock().unwrap();
                    for t in op[1].split(';') {
                        let e = if t == "N" { None } else { opt_list(t, "S").expect("bad onev").map(Some).unwrap_or(None) };
                        h.on_ev.push_back(e);
                    }
                    drop(h);
                    self.line("-")
                }
                "beh" => {
                    self.conn.as_mut().unwrap().on_behaviour_event(parse_list(&op[1]));
                    self.line("-")
                }
                "poll" => {
                    let w = futures::task::noop_waker();
                    let mut cx = Context::from_waker(&w);
                    let r = self.conn.as_mut().unwrap().poll(&mut cx);
                    let res = match r {
                        Polled::Pending => "pending".to_string(),
                        Polled::Event => "event".into(),
                        Polled::KeepAliveTimeout => "closed".into(),
                        Polled::OtherError(e) => format!("error:{}", e.replace(' ', "_")),
                    };
                    self.line(&res)
                }
                _ => panic!("bad op"),
            }
        }
    }
}

fn is_e2e(op: &str) -> bool {
    matches!(op, "new" | "steps" | "onev" | "beh" | "poll")
}

fn exec_e2e(out: &mut Out, rig: &mut e2e::Rig, op: &[String]) {
    out.op(&op.join(" "));
    match hcore::guarded(|| rig.op(op)) {
        Ok(s) => out.imp(&s),
        Err(m) => out.imp(&format!("panic {m}")),
    }
}

fn strs(v: &[&str]) -> Vec<String> {
    v.iter().map(|x| x.to_string()).collect()
}

fn e2e_script(out: &mut Out, idx: &mut u64, class: &str, ops: &[String]) {
    out.case(*idx, &format!("{class} nt=1"));
    *idx += 1;
    let mut rig = e2e::Rig::empty();
    for o in ops {
        let t: Vec<String> = o.split_whitespace().map(|x| x.to_string()).collect();
        exec_e2e(out, &mut rig, &t);
    }
    out.end();
}

fn e2e_rand_list(rng: &mut Rng, alpha: &[&str], prev: &[String]) -> String {
    list_tok(&rand_list(rng, alpha, prev))
}

fn run_e2e(args: &Args, out: &mut Out, idx: &mut u64) {
    let a = hcore::hex(b"/a");
    let b = hcore::hex(b"/b");
    let x = hcore::hex(b"x");
    // the four places where a handler can change its advertised set, each followed by a quiet poll
    let lists = [format!("{a}"), format!("{a},{b}"), format!("{b},{b}"), format!("{x}"), "-".to_string(), format!("{a},{x},{a}")];
    for l0 in &lists {
        for l1 in &lists {
            // (a) inside `poll` returning Pending, (b) inside `poll` returning an event,
            // (c) in on_behaviour_event, (d) in on_connection_event
            e2e_script(out, idx, "place-a", &[format!("new {l0}"), "poll".into(), format!("steps P={l1}"), "poll".into(), "poll".into()]);
            e2e_script(out, idx, "place-b", &[format!("new {l0}"), "poll".into(), format!("steps E={l1}"), "poll".into(), "poll".into()]);
            e2e_script(out, idx, "place-c", &[format!("new {l0}"), "poll".into(), format!("beh {l1}"), "poll".into(), "poll".into()]);
            for l2 in &lists {
                e2e_script(
                    out,
                    idx,
                    "place-d",
                    &[format!("new {l0}"), "poll".into(), format!("onev S={l2}"), format!("steps P={l1}"), "poll".into(), "poll".into()],
                );
                e2e_script(
                    out,
                    idx,
                    "place-d-remote",
                    &[format!("new {l0}"), "poll".into(), format!("onev S={l2}"), format!("steps RA={a},{b};P={l1}"), "poll".into(), "poll".into()],
                );
            }
        }
    }
    // remote reports incl. duplicates and unknown removals
    e2e_script(
        out,
        idx,
        "remote",
        &strs(&[
            &format!("new {a}"),
            &format!("steps RA={a},{a},{b};RA={a};RR={b},{b};RR={b};RR={x_valid};RA=-;RR=-", x_valid = hcore::hex(b"/zz")),
            "poll",
            "poll",
        ]),
    );
    let n = args.n(1500, 40_000);
    for i in 0..n {
        let mut rng = Rng::for_case(args.seed ^ 0xE2E, i);
        out.case(*idx, "e2e-random nt=1");
        *idx += 1;
        let mut rig = e2e::Rig::empty();
        let mut prev = rand_list(&mut rng, &LOCAL_NAMES, &[]);
        let t: Vec<String> = vec!["new".into(), list_tok(&prev)];
        exec_e2e(out, &mut rig, &t);
        let steps = 2 + rng.usize(10);
        for _ in 0..steps {
            let o: Vec<String> = match rng.below(10) {
                0..=3 => vec!["poll".into()],
                4..=6 => {
                    let k = 1 + rng.usize(3);
                    let mut parts = vec![];
                    for _ in 0..k {
                        parts.push(match rng.below(8) {
                            0 => "P".to_string(),
                            1 | 2 => {
                                let l = rand_list(&mut rng, &LOCAL_NAMES, &prev);
                                prev = l.clone();
                                format!("P={}", list_tok(&l))
                            }
                            3 => "E".to_string(),
                            4 => {
                                let l = rand_list(&mut rng, &LOCAL_NAMES, &prev);
                                prev = l.clone();
                                format!("E={}", list_tok(&l))
                            }
                            5 | 6 => format!("RA={}", e2e_rand_list(&mut rng, &REMOTE_NAMES, &[])),
                            _ => format!("RR={}", e2e_rand_list(&mut rng, &REMOTE_NAMES, &[])),
                        });
                    }
                    vec!["steps".into(), parts.join(";")]
                }
                7 => {
                    let l = rand_list(&mut rng, &LOCAL_NAMES, &prev);
                    prev = l.clone();
                    vec!["beh".into(), list_tok(&l)]
                }
                _ => {
                    let k = 1 + rng.usize(2);
                    let parts: Vec<String> = (0..k)
                        .map(|_| {
                            if rng.chance(1, 3) {
                                "N".to_string()
                            } else {
                                let l = rand_list(&mut rng, &LOCAL_NAMES, &prev);
                                format!("S={}", list_tok(&l))
                            }
                        })
                        .collect();
                    vec!["onev".into(), parts.join(";")]
                }
            };
            exec_e2e(out, &mut rig, &o);
        }
        exec_e2e(out, &mut rig, &["poll".to_string()]);
        exec_e2e(out, &mut rig, &["poll".to_string()]);
        out.end();
    }
}
