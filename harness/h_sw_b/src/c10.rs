//! C10 — `compute_new_shutdown` and `ActiveStreamCounter` (hook `verif_c10`) vs the Lean model `C10`.
//! ops:  `compute <keep_alive 0|1> <none|asap|later> <idle_timeout_ms>`  → impl `unchanged|none|asap|later`
//!       `counter <clones> <dropped>`                                   → impl `idle=<0|1>`
//! The shutdown block of `Connection::poll` itself is modelled in Lean (`C10.pollShutdown`) and
//! proved there; this harness ties its two callees to the code.
use hcore::{Args, Out, Rng};
use libp2p_swarm::verif_c10::{self, Kind};
use std::time::Duration;

fn exec(out: &mut Out, op: &[String]) {
    out.op(&op.join(" "));
    let r = hcore::guarded(|| match op[0].as_str() {
        "compute" => {
            let ka = op[1] == "1";
            let cur = match op[2].as_str() {
                "none" => Kind::None,
                "asap" => Kind::Asap,
                _ => Kind::Later,
            };
            let t = Duration::from_millis(op[3].parse().unwrap());
            match verif_c10::compute(ka, cur, t) {
                None => "unchanged".to_string(),
                Some(Kind::None) => "none".into(),
                Some(Kind::Asap) => "asap".into(),
                Some(Kind::Later) => "later".into(),
            }
        }
        "counter" => {
            let c: usize = op[1].parse().unwrap();
            let d: usize = op[2].parse().unwrap();
            format!("idle={}", verif_c10::counter_idle(c, d) as u8)
        }
        _ => panic!("bad op"),
    });
    match r {
        Ok(s) => out.imp(&s),
        Err(m) => out.imp(&format!("panic {m}")),
    }
}

pub fn run(args: &Args, out: &mut Out) {
    let s = |x: &str| x.to_string();
    if let Some(cases) = args.replay_cases() {
        for (i, (_, ops)) in cases.iter().enumerate() {
            out.case(i as u64, "replay nt=1");
            for op in ops {
                exec(out, op);
            }
            out.end();
        }
        return;
    }
    let mut idx = 0u64;
    // the full decision table (3 x 2 x {0, 1 ms, 10 s, huge})
    for cur in ["none", "asap", "later"] {
        for ka in ["0", "1"] {
            for t in ["0", "1", "10000", "18446744073709551615"] {
                out.case(idx, "table nt=1");
                exec(out, &[s("compute"), s(ka), s(cur), s(t)]);
                out.end();
                idx += 1;
            }
        }
    }
    for c in 0..6usize {
        for d in 0..=c {
            out.case(idx, "counter nt=1");
            exec(out, &[s("counter"), c.to_string(), d.to_string()]);
            out.end();
            idx += 1;
        }
    }
    let n = args.n(300, 5000);
    for i in 0..n {
        let mut rng = Rng::for_case(args.seed, i);
        out.case(idx, "random nt=1");
        for _ in 0..(1 + rng.usize(6)) {
            if rng.bool() {
                let cur = *rng.pick(&["none", "asap", "later"]);
                let t = if rng.chance(1, 3) { 0 } else { rng.below(100_000) };
                exec(out, &[s("compute"), (rng.bool() as u8).to_string(), s(cur), t.to_string()]);
            } else {
                let c = rng.usize(40);
                let d = rng.usize(c + 1);
                exec(out, &[s("counter"), c.to_string(), d.to_string()]);
            }
        }
        out.end();
        idx += 1;
    }
}
