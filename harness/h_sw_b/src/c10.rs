//! C10 — idle shutdown. Two groups of ops:
//!
//! (A) end-to-end: a REAL `Connection` (hook `verif_c10::Conn`) over a scripted muxer and a probe
//!     handler, polled step by step with a no-op waker under a FROZEN interposed clock:
//!       `new <idle_timeout_ms|max> <max_negotiating_inbound>`   construct
//!       `ka <0|1>`      handler's `connection_keep_alive()` answer
//!       `req`           handler will request one outbound stream at its next poll
//!       `allow`         muxer will hand out one substream on `poll_outbound`
//!       `respout`       remote answers the oldest outbound negotiation (multistream-select listener)
//!       `inb`           muxer has one inbound substream ready
//!       `respin`        remote drives the oldest accepted inbound negotiation (multistream-select dialer)
//!       `drop` / `ignore` / `dropign`   handler drops a held stream / marks one
//!                       `ignore_for_keep_alive` / drops an ignored one
//!       `closew` / `closewi`   handler closes the WRITE half of the last held / last ignored stream
//!                       (`poll_close` driven to completion) and keeps holding it; `write` writes to the last held one
//!       `adv <ms>`      advance the clock and wait until futures-timer processed it
//!       `poll`          one `Connection::poll`
//!     impl: `<-|pending|event|closed|error:…> sh=<none|asap|later> ni=<negotiating_in> no=<negotiating_out>
//!            rq=<requested_substreams> act=<0|1 counter has active streams> held=<streams the handler holds, not ignored>`
//! (B) callees: `compute <ka> <none|asap|later> <timeout_ms>` → `unchanged|none|asap|later`,
//!     `counter <clones> <dropped>` → `idle=<0|1>`.
use futures::{AsyncRead, AsyncWrite, FutureExt};
use hcore::{Args, Out, Rng};
use libp2p_core::muxing::{StreamMuxer, StreamMuxerBox, StreamMuxerEvent};
use libp2p_core::upgrade::ReadyUpgrade;
use libp2p_swarm::handler::{
    ConnectionEvent, ConnectionHandler, ConnectionHandlerEvent, FullyNegotiatedInbound, FullyNegotiatedOutbound,
    SubstreamProtocol,
};
use libp2p_swarm::verif_c10::{self, Conn, Kind, Polled};
use libp2p_swarm::{Stream, StreamProtocol};
use std::collections::VecDeque;
use std::future::Future;
use std::pin::Pin;
use std::sync::{Arc, Mutex};
use std::task::{Context, Poll, Waker};
use std::time::Duration;

const PROTO: &str = "/probe/1";
/// upgrade / substream-request timeouts: far beyond any clock advance of a case
const NEVER: Duration = Duration::from_secs(1_000_000_000);

// ------------------------------------------------------------------ in-memory duplex pipe
#[derive(Default)]
struct Half {
    buf: VecDeque<u8>,
    waker: Option<Waker>,
    closed: bool,
}
struct PipeEnd {
    rd: Arc<Mutex<Half>>,
    wr: Arc<Mutex<Half>>,
}
fn pipe() -> (PipeEnd, PipeEnd) {
    let a: Arc<Mutex<Half>> = Default::default();
    let b: Arc<Mutex<Half>> = Default::default();
    (PipeEnd { rd: a.clone(), wr: b.clone() }, PipeEnd { rd: b, wr: a })
}
impl AsyncRead for PipeEnd {
    fn poll_read(self: Pin<&mut Self>, cx: &mut Context<'_>, out: &mut [u8]) -> Poll<std::io::Result<usize>> {
        let mut h = self.rd.lock().unwrap();
        if h.buf.is_empty() {
            if h.closed {
                return Poll::Ready(Ok(0));
            }
            h.waker = Some(cx.waker().clone());
            return Poll::Pending;
        }
        let n = out.len().min(h.buf.len());
        for b in out.iter_mut().take(n) {
            *b = h.buf.pop_front().unwrap();
        }
        Poll::Ready(Ok(n))
    }
}
impl AsyncWrite for PipeEnd {
    fn poll_write(self: Pin<&mut Self>, _: &mut Context<'_>, data: &[u8]) -> Poll<std::io::Result<usize>> {
        let w = {
            let mut h = self.wr.lock().unwrap();
            h.buf.extend(data.iter().copied());
            h.waker.take()
        };
        if let Some(w) = w {
            w.wake();
        }
        Poll::Ready(Ok(data.len()))
    }
    fn poll_flush(self: Pin<&mut Self>, _: &mut Context<'_>) -> Poll<std::io::Result<()>> {
        Poll::Ready(Ok(()))
    }
    fn poll_close(self: Pin<&mut Self>, _: &mut Context<'_>) -> Poll<std::io::Result<()>> {
        Poll::Ready(Ok(()))
    }
}
impl Drop for PipeEnd {
    fn drop(&mut self) {
        let w = {
            let mut h = self.wr.lock().unwrap();
            h.closed = true;
            h.waker.take()
        };
        if let Some(w) = w {
            w.wake();
        }
    }
}

// ------------------------------------------------------------------ scripted muxer: never does I/O by itself
#[derive(Default)]
struct MuxState {
    inbound: VecDeque<PipeEnd>,
    outbound: VecDeque<PipeEnd>,
}
struct ScriptedMuxer(Arc<Mutex<MuxState>>);
impl StreamMuxer for ScriptedMuxer {
    type Substream = PipeEnd;
    type Error = std::io::Error;
    fn poll_inbound(self: Pin<&mut Self>, _: &mut Context<'_>) -> Poll<Result<Self::Substream, Self::Error>> {
        match self.0.lock().unwrap().inbound.pop_front() {
            Some(s) => Poll::Ready(Ok(s)),
            None => Poll::Pending,
        }
    }
    fn poll_outbound(self: Pin<&mut Self>, _: &mut Context<'_>) -> Poll<Result<Self::Substream, Self::Error>> {
        match self.0.lock().unwrap().outbound.pop_front() {
            Some(s) => Poll::Ready(Ok(s)),
            None => Poll::Pending,
        }
    }
    fn poll_close(self: Pin<&mut Self>, _: &mut Context<'_>) -> Poll<Result<(), Self::Error>> {
        Poll::Ready(Ok(()))
    }
    fn poll(self: Pin<&mut Self>, _: &mut Context<'_>) -> Poll<Result<StreamMuxerEvent, Self::Error>> {
        Poll::Pending
    }
}

// ------------------------------------------------------------------ probe handler
#[derive(Default)]
struct HState {
    keep_alive: bool,
    want_outbound: usize,
    held: Vec<Stream>,
    ignored: Vec<Stream>,
    upgrade_errors: usize,
}
struct Probe(Arc<Mutex<HState>>);
impl ConnectionHandler for Probe {
    type FromBehaviour = std::convert::Infallible;
    type ToBehaviour = std::convert::Infallible;
    type InboundProtocol = ReadyUpgrade<StreamProtocol>;
    type OutboundProtocol = ReadyUpgrade<StreamProtocol>;
    type InboundOpenInfo = ();
    type OutboundOpenInfo = ();

    fn listen_protocol(&self) -> SubstreamProtocol<Self::InboundProtocol> {
        SubstreamProtocol::new(ReadyUpgrade::new(StreamProtocol::new(PROTO)), ()).with_timeout(NEVER)
    }
    fn connection_keep_alive(&self) -> bool {
        self.0.lock().unwrap().keep_alive
    }
    fn poll(&mut self, _: &mut Context<'_>) -> Poll<ConnectionHandlerEvent<Self::OutboundProtocol, (), Self::ToBehaviour>> {
        let mut h = self.0.lock().unwrap();
        if h.want_outbound > 0 {
            h.want_outbound -= 1;
            return Poll::Ready(ConnectionHandlerEvent::OutboundSubstreamRequest {
                protocol: SubstreamProtocol::new(ReadyUpgrade::new(StreamProtocol::new(PROTO)), ()).with_timeout(NEVER),
            });
        }
        Poll::Pending
    }
    fn on_behaviour_event(&mut self, e: Self::FromBehaviour) {
        match e {}
    }
    fn on_connection_event(&mut self, event: ConnectionEvent<Self::InboundProtocol, Self::OutboundProtocol>) {
        let mut h = self.0.lock().unwrap();
        match event {
            ConnectionEvent::FullyNegotiatedInbound(FullyNegotiatedInbound { protocol, .. }) => h.held.push(protocol),
            ConnectionEvent::FullyNegotiatedOutbound(FullyNegotiatedOutbound { protocol, .. }) => h.held.push(protocol),
            ConnectionEvent::DialUpgradeError(_) | ConnectionEvent::ListenUpgradeError(_) => h.upgrade_errors += 1,
            _ => {}
        }
    }
}

// ------------------------------------------------------------------ the rig
type RemoteFut = Pin<Box<dyn Future<Output = bool>>>;

struct Rig {
    conn: Option<Conn<Probe>>,
    mux: Arc<Mutex<MuxState>>,
    hs: Arc<Mutex<HState>>,
    /// remote ends, FIFO like the muxer queues: not yet taken by the connection / being negotiated
    out_offered: VecDeque<RemoteFut>,
    out_negotiating: VecDeque<RemoteFut>,
    in_offered: VecDeque<RemoteFut>,
    in_negotiating: VecDeque<RemoteFut>,
    /// remote dialers that wrote their proposal and wait for the connection's answer
    finishing: Vec<RemoteFut>,
    remote_failed: bool,
    timer_stuck: bool,
}

fn noop_cx<R>(f: impl FnOnce(&mut Context<'_>) -> R) -> R {
    let w = futures::task::noop_waker();
    let mut cx = Context::from_waker(&w);
    f(&mut cx)
}

/// wait until futures-timer's helper thread has processed the current (frozen) time: a probe `Delay`
/// due *now*, created after every timer of the connection, must have fired; a second probe makes sure
/// the helper's pass that fired the first one is complete (timers with equal deadlines fire in one pass).
fn settle_timers() -> bool {
    for _ in 0..2 {
        let mut probe = futures_timer::Delay::new(Duration::ZERO);
        let mut fired = false;
        for i in 0..200_000u32 {
            if noop_cx(|cx| probe.poll_unpin(cx)).is_ready() {
                fired = true;
                break;
            }
            drop(futures_timer::Delay::new(Duration::ZERO)); // kick the helper thread
            if i < 50 {
                std::thread::yield_now();
            } else {
                std::thread::sleep(Duration::from_micros(100));
            }
        }
        if !fired {
            return false;
        }
    }
    true
}

impl Rig {
    fn empty() -> Rig {
        Rig {
            conn: None,
            mux: Default::default(),
            hs: Default::default(),
            out_offered: Default::default(),
            out_negotiating: Default::default(),
            in_offered: Default::default(),
            in_negotiating: Default::default(),
            finishing: vec![],
            remote_failed: false,
            timer_stuck: false,
        }
    }
    fn new(timeout: Duration, max_in: usize) -> Rig {
        let mut r = Rig::empty();
        let muxer = StreamMuxerBox::new(ScriptedMuxer(r.mux.clone()));
        r.conn = Some(Conn::new(muxer, Probe(r.hs.clone()), max_in, timeout));
        r
    }
    fn drive_finishing(&mut self) {
        let mut keep = vec![];
        for mut f in self.finishing.drain(..) {
            match noop_cx(|cx| f.as_mut().poll(cx)) {
                Poll::Ready(ok) => {
                    if !ok {
                        self.remote_failed = true;
                    }
                }
                Poll::Pending => keep.push(f),
            }
        }
        self.finishing = keep;
    }
    fn op(&mut self, op: &[String]) -> String {
        if self.conn.is_none() {
            return "gone".into();
        }
        let mut res = "-".to_string();
        match op[0].as_str() {
            "ka" => self.hs.lock().unwrap().keep_alive = op[1] == "1",
            "req" => self.hs.lock().unwrap().want_outbound += 1,
            "allow" => {
                let (a, b) = pipe();
                self.mux.lock().unwrap().outbound.push_back(a);
                // the remote end keeps the negotiated stream alive inside the finished future's output
                let streams: Arc<Mutex<Vec<Box<dyn std::any::Any>>>> = Default::default();
                let st = streams.clone();
                self.out_offered.push_back(Box::pin(async move {
                    let _keep = streams;
                    match multistream_select::listener_select_proto(b, vec![PROTO]).await {
                        Ok((_, s)) => {
                            st.lock().unwrap().push(Box::new(s));
                            std::mem::forget(st); // never close the remote end during the case
                            true
                        }
                        Err(_) => false,
                    }
                }));
            }
            "respout" => {
                if let Some(mut f) = self.out_negotiating.pop_front() {
                    let mut done = false;
                    for _ in 0..16 {
                        if let Poll::Ready(ok) = noop_cx(|cx| f.as_mut().poll(cx)) {
                            done = ok;
                            break;
                        }
                    }
                    if !done {
                        self.remote_failed = true;
                    }
                }
            }
            "inb" => {
                let (a, b) = pipe();
                self.mux.lock().unwrap().inbound.push_back(a);
                self.in_offered.push_back(Box::pin(async move {
                    match multistream_select::dialer_select_proto(b, vec![PROTO], multistream_select::Version::V1).await {
                        Ok((_, s)) => {
                            std::mem::forget(s);
                            true
                        }
                        Err(_) => false,
                    }
                }));
            }
            "respin" => {
                if let Some(mut f) = self.in_negotiating.pop_front() {
                    match noop_cx(|cx| f.as_mut().poll(cx)) {
                        Poll::Ready(ok) => {
                            if !ok {
                                self.remote_failed = true;
                            }
                        }
                        Poll::Pending => self.finishing.push(f),
                    }
                }
            }
            "drop" => {
                let s = self.hs.lock().unwrap().held.pop();
                drop(s);
            }
            "ignore" => {
                let mut h = self.hs.lock().unwrap();
                if let Some(mut s) = h.held.pop() {
                    s.ignore_for_keep_alive();
                    h.ignored.push(s);
                }
            }
            "closew" | "closewi" | "write" => {
                let mut h = self.hs.lock().unwrap();
                let st = if op[0] == "closewi" { h.ignored.last_mut() } else { h.held.last_mut() };
                if let Some(st) = st {
                    let mut done = false;
                    for _ in 0..16 {
                        let r = noop_cx(|cx| {
                            if op[0] == "write" {
                                Pin::new(&mut *st).poll_write(cx, b"ping").map(|r| r.map(|_| ()))
                            } else {
                                Pin::new(&mut *st).poll_close(cx)
                            }
                        });
                        if r.is_ready() {
                            done = true;
                            break;
                        }
                    }
                    if !done {
                        drop(h);
                        self.remote_failed = true;
                    }
                }
            }
            "dropign" => {
                let s = self.hs.lock().unwrap().ignored.pop();
                drop(s);
            }
            "adv" => {
                let ms: u64 = op[1].parse().unwrap();
                hcore::warp(Duration::from_millis(ms));
                if !settle_timers() {
                    self.timer_stuck = true;
                }
            }
            "poll" => {
                let (o0, i0) = {
                    let m = self.mux.lock().unwrap();
                    (m.outbound.len(), m.inbound.len())
                };
                let r = noop_cx(|cx| self.conn.as_mut().unwrap().poll(cx));
                let (o1, i1) = {
                    let m = self.mux.lock().unwrap();
                    (m.outbound.len(), m.inbound.len())
                };
                for _ in o1..o0 {
                    let f = self.out_offered.pop_front().unwrap();
                    self.out_negotiating.push_back(f);
                }
                for _ in i1..i0 {
                    let f = self.in_offered.pop_front().unwrap();
                    self.in_negotiating.push_back(f);
                }
                res = match r {
                    Polled::Pending => "pending".into(),
                    Polled::Event => "event".into(),
                    Polled::KeepAliveTimeout => "closed".into(),
                    Polled::OtherError(e) => format!("error:{}", e.replace(' ', "_")),
                };
            }
            _ => panic!("bad op"),
        }
        self.drive_finishing();
        let snap = self.conn.as_ref().unwrap().snapshot();
        let extra = format!(
            "{}{}{}",
            if self.hs.lock().unwrap().upgrade_errors > 0 { " upgrade-error" } else { "" },
            if self.remote_failed { " remote-negotiation-failed" } else { "" },
            if self.timer_stuck { " timer-stuck" } else { "" }
        );
        let held = self.hs.lock().unwrap().held.len();
        let line = format!(
            "{res} sh={} ni={} no={} rq={} act={} held={held}{extra}",
            match snap.shutdown {
                Kind::None => "none",
                Kind::Asap => "asap",
                Kind::Later => "later",
            },
            snap.negotiating_in,
            snap.negotiating_out,
            snap.requested_substreams,
            snap.active_streams as u8
        );
        if res == "closed" || res.starts_with("error") {
            // the pool drops a connection whose poll returned an error
            self.conn = None;
        }
        line
    }
}

fn parse_timeout(tok: &str) -> Duration {
    if tok == "max" {
        Duration::MAX
    } else {
        Duration::from_millis(tok.parse().unwrap())
    }
}

fn exec(out: &mut Out, rig: &mut Rig, op: &[String]) {
    out.op(&op.join(" "));
    let r = hcore::guarded(|| match op[0].as_str() {
        "compute" => {
            let ka = op[1] == "1";
            let cur = match op[2].as_str() {
                "none" => Kind::None,
                "asap" => Kind::Asap,
                _ => Kind::Later,
            };
            let t = Duration::from_millis(op[3].parse().unwrap());
            match verif_c10::compute(ka, cur, t) {
                None => "unchanged".to_string(),
                Some(Kind::None) => "none".into(),
                Some(Kind::Asap) => "asap".into(),
                Some(Kind::Later) => "later".into(),
            }
        }
        "counter" => {
            let c: usize = op[1].parse().unwrap();
            let d: usize = op[2].parse().unwrap();
            format!("idle={}", verif_c10::counter_idle(c, d) as u8)
        }
        "new" => {
            *rig = Rig::new(parse_timeout(&op[1]), op[2].parse().unwrap());
            let snap = rig.conn.as_ref().unwrap().snapshot();
            format!(
                "- sh={} ni={} no={} rq={} act={} held=0",
                match snap.shutdown {
                    Kind::None => "none",
                    Kind::Asap => "asap",
                    Kind::Later => "later",
                },
                snap.negotiating_in,
                snap.negotiating_out,
                snap.requested_substreams,
                snap.active_streams as u8
            )
        }
        _ => rig.op(op),
    });
    match r {
        Ok(s) => out.imp(&s),
        Err(m) => out.imp(&format!("panic {m}")),
    }
}

fn toks(s: &str) -> Vec<String> {
    s.split_whitespace().map(|x| x.to_string()).collect()
}

fn script(out: &mut Out, idx: &mut u64, class: &str, ops: &[String]) {
    out.case(*idx, &format!("{class} nt=1"));
    *idx += 1;
    let mut rig = Rig::empty();
    for o in ops {
        exec(out, &mut rig, &toks(o));
    }
    out.end();
}

/// hand-written histories around the deadline, incl. idle -> busy past the deadline -> idle again
fn scenarios(t: u64) -> Vec<Vec<String>> {
    let s = |v: &[&str]| -> Vec<String> { v.iter().map(|x| x.to_string()).collect() };
    let adv = |d: u64| format!("adv {d}");
    let new = format!("new {t} 2");
    let mut v = vec![];
    // plain: closes exactly at the deadline, not 1 ms before
    v.push(vec![new.clone(), "poll".into(), adv(t.saturating_sub(1)), "poll".into(), adv(1), "poll".into()]);
    // outbound stream through its whole life while the old deadline passes
    v.push(
        [
            s(&[&new, "poll", "req", "poll"]),
            vec![adv(t + 1000)],
            s(&["poll", "allow", "poll", "respout", "poll", "drop", "poll"]),
            vec![adv(t.saturating_sub(1))],
            s(&["poll"]),
            vec![adv(1)],
            s(&["poll"]),
        ]
        .concat(),
    );
    // same with an inbound stream, marked ignore instead of dropped
    v.push(
        [
            s(&[&new, "poll", "inb", "poll"]),
            vec![adv(t + 5)],
            s(&["poll", "respin", "poll", "ignore", "poll"]),
            vec![adv(t / 2)],
            s(&["poll"]),
            vec![adv(t - t / 2)],
            s(&["poll", "dropign", "poll"]),
        ]
        .concat(),
    );
    // keep-alive flips
    v.push(
        [
            s(&[&new, "poll", "ka 1", "poll"]),
            vec![adv(2 * t + 7)],
            s(&["poll", "ka 0", "poll"]),
            vec![adv(t.saturating_sub(1))],
            s(&["poll"]),
            vec![adv(1)],
            s(&["poll"]),
        ]
        .concat(),
    );
    // request pending at the muxer for longer than the timeout, then served
    v.push(
        [
            s(&[&new, "req", "poll"]),
            vec![adv(3 * t)],
            s(&["poll", "allow", "poll"]),
            vec![adv(3 * t)],
            s(&["poll", "respout", "poll", "ignore", "poll"]),
            vec![adv(t)],
            s(&["poll"]),
        ]
        .concat(),
    );
    // stream dropped between polls after the old deadline: the timer must restart at the next poll
    v.push(
        [
            s(&[&new, "poll", "inb", "poll", "respin", "poll"]),
            vec![adv(t + 1)],
            s(&["drop"]),
            vec![adv(t.saturating_sub(1))],
            s(&["poll"]),
            vec![adv(t.saturating_sub(1))],
            s(&["poll"]),
            vec![adv(1)],
            s(&["poll"]),
        ]
        .concat(),
    );
    // a held stream whose WRITE half is closed still counts: open past the timeout until it is dropped,
    // then closed no earlier than a full timeout after the drop; with ignore before / after the close
    for (open, variant) in [("inb", 0u8), ("out", 0), ("inb", 1), ("inb", 2), ("out", 3)] {
        let mut sc = s(&[&new, "poll"]);
        if open == "inb" {
            sc.extend(s(&["inb", "poll", "respin", "poll"]));
        } else {
            sc.extend(s(&["req", "poll", "allow", "poll", "respout", "poll"]));
        }
        match variant {
            1 => sc.extend(s(&["ignore", "closewi", "poll"])), // ignored first: does not count, closes after t
            2 => sc.extend(s(&["closew", "poll", "ignore", "poll"])), // closed, then ignored
            3 => sc.extend(s(&["write", "closew", "write", "poll"])),
            _ => sc.extend(s(&["closew", "poll"])),
        }
        sc.push(adv(t + 3));
        sc.extend(s(&["poll"]));
        sc.push(adv(2 * t));
        sc.extend(s(&["poll", "drop", "dropign", "poll"]));
        sc.push(adv(t.saturating_sub(1)));
        sc.extend(s(&["poll"]));
        sc.push(adv(1));
        sc.extend(s(&["poll"]));
        v.push(sc);
    }
    v
}

const ALPHA: [&str; 14] =
    ["poll", "ka 1", "ka 0", "req", "allow", "respout", "inb", "respin", "drop", "ignore", "dropign", "closew", "closewi", "write"];

pub fn run(args: &Args, out: &mut Out) {
    crate::clock::freeze();
    if let Some(cases) = args.replay_cases() {
        for (i, (_, ops)) in cases.iter().enumerate() {
            out.case(i as u64, "replay nt=1");
            let mut rig = Rig::empty();
            for op in ops {
                exec(out, &mut rig, op);
            }
            out.end();
        }
        return;
    }
    let s = |x: &str| x.to_string();
    let mut idx = 0u64;
    // (B) the callees: full decision table and counter configurations
    for cur in ["none", "asap", "later"] {
        for ka in ["0", "1"] {
            for t in ["0", "1", "10000", "18446744073709551615"] {
                script(out, &mut idx, "table", &[format!("compute {ka} {cur} {t}")]);
            }
        }
    }
    for c in 0..6usize {
        for d in 0..=c {
            script(out, &mut idx, "counter", &[format!("counter {c} {d}")]);
        }
    }
    // (A) scripted histories
    for t in [1u64, 2, 1000, 60_000] {
        for sc in scenarios(t) {
            script(out, &mut idx, "scenario", &sc);
        }
    }
    for tm in ["0", "max", "9223372036854775", "18446744073709551"] {
        let mut sc = vec![format!("new {tm} 2")];
        for o in ["poll", "adv 100000", "poll", "req", "poll", "allow", "poll", "respout", "poll", "drop", "poll", "adv 1", "poll", "ka 1", "poll", "ka 0", "poll", "adv 1000000000", "poll"] {
            sc.push(s(o));
        }
        script(out, &mut idx, "extreme", &sc);
    }
    // bounded exhaustive over short op sequences (timeout 10 ms; `adv 5` / `adv 10`)
    let mut alpha: Vec<String> = ALPHA.iter().map(|x| s(x)).collect();
    alpha.push(s("adv 5"));
    alpha.push(s("adv 10"));
    let depth = if args.thorough && args.count == 0 { 4 } else { 3 };
    let mut seqs: Vec<Vec<String>> = vec![vec![]];
    for _ in 0..depth {
        let mut next = vec![];
        for q in &seqs {
            for a in &alpha {
                let mut n = q.clone();
                n.push(a.clone());
                next.push(n);
            }
        }
        seqs = next;
    }
    for q in &seqs {
        // every sequence runs from an idle, armed connection and ends with the deadline passing
        let mut sc = vec![s("new 10 2"), s("poll")];
        sc.extend(q.iter().cloned());
        sc.extend([s("poll"), s("adv 10"), s("poll")]);
        script(out, &mut idx, "exh", &sc);
    }
    // random histories
    let n = args.n(1500, 30_000);
    for i in 0..n {
        let mut rng = Rng::for_case(args.seed, i);
        let t: u64 = *rng.pick(&[0u64, 1, 10, 10, 100, 1000, 1000, 60_000]);
        let tm = if rng.chance(1, 25) { s("max") } else { t.to_string() };
        let max_in = 1 + rng.usize(3);
        out.case(idx, "random nt=1");
        idx += 1;
        let mut rig = Rig::empty();
        exec(out, &mut rig, &toks(&format!("new {tm} {max_in}")));
        let steps = 4 + rng.usize(36);
        for _ in 0..steps {
            if rig.conn.is_none() {
                break;
            }
            let o = match rng.below(20) {
                0..=6 => s("poll"),
                7..=9 => {
                    let tt = t.max(2);
                    let d = *rng.pick(&[1, tt / 2, tt - 1, tt, tt + 1, 2 * tt, 1]);
                    format!("adv {}", d.max(1))
                }
                10 => format!("ka {}", rng.below(2)),
                _ => s(ALPHA[3 + rng.usize(ALPHA.len() - 3)]),
            };
            exec(out, &mut rig, &toks(&o));
        }
        if rig.conn.is_some() {
            exec(out, &mut rig, &toks("poll"));
        }
        out.end();
    }
}
