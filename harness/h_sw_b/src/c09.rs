//! C09 — `rank_dials` (via the `verif_c09::rank` hook) vs the Lean model `C09.rank`.
//! op   `rank <addr-list>`
//! impl `<delays-ms comma list> <addr-list>`   (ranked order)
use crate::util::parse_list_tok;
use hcore::{maddr_list_tok, Args, Multiaddr, Out, Protocol, Rng};
use std::net::{Ipv4Addr, Ipv6Addr};

fn one(out: &mut Out, addrs: &[Multiaddr]) {
    out.op(&format!("rank {}", maddr_list_tok(addrs)));
    let v = addrs.to_vec();
    match hcore::guarded(move || libp2p_swarm::verif_c09::rank(v)) {
        Ok(r) => {
            let delays: Vec<String> = r
                .iter()
                .map(|(d, _)| {
                    if d.subsec_nanos() % 1_000_000 == 0 {
                        format!("{}", d.as_millis())
                    } else {
                        format!("ns{}", d.as_nanos())
                    }
                })
                .collect();
            let al: Vec<Multiaddr> = r.into_iter().map(|(_, a)| a).collect();
            out.imp(&format!("{} {}", hcore::list(&delays), maddr_list_tok(&al)));
        }
        Err(m) => out.imp(&format!("panic {m}")),
    }
}

fn v4s() -> Vec<Ipv4Addr> {
    [
        "10.0.0.1", "10.255.255.255", "9.255.255.255", "11.0.0.0", "172.16.0.1", "172.31.255.255", "172.32.0.0",
        "172.15.255.255", "192.168.1.1", "192.169.0.0", "192.167.255.255", "127.0.0.1", "128.0.0.0", "126.255.255.255",
        "169.254.1.1", "169.253.255.255", "169.255.0.0", "100.64.0.1", "100.127.255.255", "100.128.0.0", "100.63.255.255",
        "192.0.0.9", "192.0.0.10", "192.0.0.8", "192.0.0.11", "192.0.0.255", "192.0.1.0", "191.255.255.255", "8.8.8.8",
        "1.2.3.4", "1.2.3.5", "240.0.0.1", "239.255.255.255", "255.255.255.255", "255.255.255.254", "0.1.2.3",
        "0.0.0.0", "1.0.0.0", "192.0.2.1", "192.0.3.0", "198.51.100.7", "198.51.101.0", "203.0.113.9", "203.0.114.0",
        "198.18.0.1", "224.0.0.1",
    ]
    .iter()
    .map(|s| s.parse().unwrap())
    .collect()
}

fn v6s() -> Vec<Ipv6Addr> {
    [
        "::", "::1", "::2", "fe80::1", "febf::1", "fec0::1", "fe7f::1", "fc00::1", "fdff::1", "fe00::1", "fbff::1",
        "2001:db8::1", "2001:db9::1", "2001:db7::1", "2606:4700::1", "1::2", "1::3", "2001:1::1", "2001:1::2", "2001:1::3",
        "2001:3::1", "2001:4:112::1", "2001:4:113::1", "2001:20::1", "2001:2f::1", "2001:30::1", "2001:1f::1",
        "2001:1ff::1", "2001:200::1", "2001::1", "::ffff:1.2.3.4", "::fffe:1.2.3.4", "64:ff9b:1::1", "64:ff9b:2::1",
        "64:ff9b::1", "100::1", "100:0:0:1::1", "2002::1", "ff02::1",
    ]
    .iter()
    .map(|s| s.parse().unwrap())
    .collect()
}

#[derive(Clone)]
enum Host {
    V4(Ipv4Addr),
    V6(Ipv6Addr),
    Zone6(Ipv6Addr),
    ZoneOnly,
    Dns(u8, &'static str),
    Dnsaddr,
    None,
}

fn push_host(a: &mut Multiaddr, h: &Host) {
    match h {
        Host::V4(x) => a.push(Protocol::Ip4(*x)),
        Host::V6(x) => a.push(Protocol::Ip6(*x)),
        Host::Zone6(x) => {
            a.push(Protocol::Ip6zone("eth0".into()));
            a.push(Protocol::Ip6(*x));
        }
        Host::ZoneOnly => a.push(Protocol::Ip6zone("wlan0".into())),
        Host::Dns(0, n) => a.push(Protocol::Dns((*n).into())),
        Host::Dns(1, n) => a.push(Protocol::Dns4((*n).into())),
        Host::Dns(_, n) => a.push(Protocol::Dns6((*n).into())),
        Host::Dnsaddr => a.push(Protocol::Dnsaddr("bootstrap.libp2p.io".into())),
        Host::None => {}
    }
}

/// transport suffixes, parameterised by port
fn push_transport(a: &mut Multiaddr, t: u8, port: u16) {
    match t {
        0 => a.push(Protocol::Tcp(port)),
        1 => {
            a.push(Protocol::Udp(port));
            a.push(Protocol::QuicV1)
        }
        2 => {
            a.push(Protocol::Udp(port));
            a.push(Protocol::Quic)
        }
        3 => {
            a.push(Protocol::Udp(port));
            a.push(Protocol::QuicV1);
            a.push(Protocol::WebTransport)
        }
        4 => {
            a.push(Protocol::Udp(port));
            a.push(Protocol::WebRTCDirect)
        }
        5 => {
            a.push(Protocol::Tcp(port));
            a.push(Protocol::Ws("/".into()))
        }
        6 => {
            a.push(Protocol::Tcp(port));
            a.push(Protocol::Tls);
            a.push(Protocol::Ws("/".into()))
        }
        7 => a.push(Protocol::Udp(port)),
        8 => a.push(Protocol::Memory(port as u64)),
        // outside the property's alphabet: webtransport without quic, tcp + quic together
        9 => {
            a.push(Protocol::Tcp(port));
            a.push(Protocol::WebTransport)
        }
        10 => {
            a.push(Protocol::Tcp(port));
            a.push(Protocol::Udp(port.wrapping_add(1)));
            a.push(Protocol::QuicV1)
        }
        _ => {}
    }
}

fn mk(h: &Host, t: u8, port: u16, relay: bool) -> Multiaddr {
    let mut a = Multiaddr::empty();
    push_host(&mut a, h);
    push_transport(&mut a, t, port);
    if relay {
        a.push(Protocol::P2p(hcore::peer(9)));
        a.push(Protocol::P2pCircuit);
    }
    a
}

const NAMES: [&str; 6] = ["localhost", "x.localhost", "example.com", "localhost.example.com", "notlocalhost", ".localhost"];

/// the curated alphabet used for the bounded-exhaustive part
fn alphabet() -> Vec<Multiaddr> {
    let p4: Ipv4Addr = "192.168.1.1".parse().unwrap();
    let g4: Ipv4Addr = "1.2.3.4".parse().unwrap();
    let p6: Ipv6Addr = "fe80::1".parse().unwrap();
    let g6: Ipv6Addr = "2606:4700::1".parse().unwrap();
    let mut v = vec![];
    for h in [Host::V4(g4), Host::V6(g6), Host::V4(p4), Host::V6(p6)] {
        for t in [0u8, 1, 4] {
            v.push(mk(&h, t, 1, false));
        }
    }
    v.push(mk(&Host::V4(g4), 1, 2, false));
    v.push(mk(&Host::V6(g6), 1, 2, false));
    v.push(mk(&Host::V4(g4), 0, 2, false));
    v.push(mk(&Host::V6(g6), 0, 2, false));
    v.push(mk(&Host::V4(g4), 2, 1, false));
    v.push(mk(&Host::V4(g4), 3, 443, false));
    v.push(mk(&Host::V6(p6), 1, 2, false));
    v.push(mk(&Host::V4(p4), 0, 2, false));
    v.push(mk(&Host::Zone6(p6), 0, 1, false));
    v.push(mk(&Host::Dns(0, "example.com"), 0, 443, false));
    v.push(mk(&Host::Dns(1, "example.com"), 1, 443, false));
    v.push(mk(&Host::Dns(0, "localhost"), 0, 1, false));
    v.push(mk(&Host::Dns(2, "x.localhost"), 1, 1, false));
    v.push(mk(&Host::V4(g4), 0, 1, true));
    v.push(mk(&Host::V4(g4), 1, 1, true));
    v.push(mk(&Host::V6(p6), 0, 1, true));
    v.push(mk(&Host::Dns(0, "example.com"), 0, 1, true));
    v.push(mk(&Host::V4(g4), 5, 80, false));
    v
}

fn rand_addr(rng: &mut Rng, v4: &[Ipv4Addr], v6: &[Ipv6Addr]) -> Multiaddr {
    let h = match rng.below(20) {
        0..=5 => Host::V4(*rng.pick(v4)),
        6..=10 => Host::V6(*rng.pick(v6)),
        11 => Host::Zone6(*rng.pick(v6)),
        12 => Host::ZoneOnly,
        13..=17 => Host::Dns(rng.below(3) as u8, NAMES[rng.usize(NAMES.len())]),
        18 => Host::Dnsaddr,
        _ => Host::None,
    };
    let t = match rng.below(24) {
        0..=6 => 0,
        7..=12 => 1,
        13..=14 => 2,
        15..=16 => 3,
        17..=18 => 4,
        19 => 5,
        20 => 6,
        21 => 7,
        22 => 8 + rng.below(3) as u8,
        _ => 11,
    };
    let port = *rng.pick(&[1u16, 1, 2, 2, 3, 443, 4001, 0, 65535]);
    mk(&h, t, port, rng.chance(1, 6))
}

fn nt(addrs: &[Multiaddr]) -> u8 {
    (addrs.len() >= 2) as u8
}

pub fn run(args: &Args, out: &mut Out) {
    if let Some(cases) = args.replay_cases() {
        for (i, (_, ops)) in cases.iter().enumerate() {
            out.case(i as u64, "replay nt=1");
            for op in ops {
                one(out, &parse_list_tok(&op[1]));
            }
            out.end();
        }
        return;
    }
    let v4 = v4s();
    let v6 = v6s();
    let al = alphabet();
    let mut idx = 0u64;
    let mut emit = |out: &mut Out, class: &str, addrs: &[Multiaddr]| {
        out.case(idx, &format!("{class} nt={}", nt(addrs)));
        one(out, addrs);
        out.end();
        idx += 1;
    };
    emit(out, "empty", &[]);
    // globality sweep: the relay address is delayed by RELAY_DELAY iff the probe is classified public,
    // and the DNS-only address is pushed behind everything
    let relay = mk(&Host::V4("1.2.3.4".parse().unwrap()), 0, 1, true);
    let dns = mk(&Host::Dns(0, "example.com"), 0, 443, false);
    for x in &v4 {
        emit(out, "sweep4", &[mk(&Host::V4(*x), 0, 1, false), relay.clone(), dns.clone()]);
    }
    for x in &v6 {
        emit(out, "sweep6", &[mk(&Host::V6(*x), 1, 1, false), relay.clone(), dns.clone()]);
    }
    for k in 0..3u8 {
        for n in NAMES {
            emit(out, "sweepdns", &[mk(&Host::Dns(k, n), 0, 1, false), mk(&Host::V4("8.8.8.8".parse().unwrap()), 4, 1, false), relay.clone()]);
        }
    }
    // bounded exhaustive over the curated alphabet
    for a in &al {
        emit(out, "single", &[a.clone()]);
    }
    for a in &al {
        for b in &al {
            emit(out, "pairs", &[a.clone(), b.clone()]);
        }
    }
    if args.thorough && args.count == 0 {
        for a in &al {
            for b in &al {
                for c in &al {
                    emit(out, "triples", &[a.clone(), b.clone(), c.clone()]);
                }
            }
        }
    }
    let n = args.n(4000, 150_000);
    for i in 0..n {
        let mut rng = Rng::for_case(args.seed, i);
        let len = if rng.chance(1, 8) { rng.usize(17) } else { rng.usize(10) };
        let mut addrs: Vec<Multiaddr> = vec![];
        let from_alpha = rng.chance(1, 3);
        for _ in 0..len {
            if from_alpha || rng.chance(1, 4) {
                addrs.push(rng.pick(&al).clone());
            } else if !addrs.is_empty() && rng.chance(1, 10) {
                let d = rng.pick(&addrs).clone();
                addrs.push(d);
            } else {
                addrs.push(rand_addr(&mut rng, &v4, &v6));
            }
        }
        emit(out, "random", &addrs);
    }
}
