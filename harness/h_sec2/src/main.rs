//! Harness binary `h_sec2 <PROP> --seed S --tier T [--count N] [--replay F]`.
//! One module per property (`cNN.rs`, `pub fn run(args: &hcore::Args, out: &mut hcore::Out)`).

mod c18;
mod c19;

fn main() {
    let args = hcore::Args::parse();
    hcore::quiet_panics();
    let mut out = hcore::Out::new();
    match args.prop.as_str() {
        "C18" => c18::run(&args, &mut out),
        "C19" => c19::run(&args, &mut out),
        p => {
            let _ = &mut out;
            eprintln!("h_sec2: unknown property {p}");
            std::process::exit(2);
        }
    }
    #[allow(unreachable_code)]
    out.flush();
}
