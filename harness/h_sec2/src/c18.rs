//! C18 — `libp2p_tls::certificate::parse` vs the Lean model `C18.accept`.
//!
//! For every certificate the harness extracts, independently of certificate.rs (x509-parser, yasna,
//! ring and libp2p-identity called directly), the facts the model consumes, and prints them next to
//! the DER (`der=` is ignored by the model; it makes the op replayable) and the real verdict.
use hcore::{hex, unhex, Args, Out, Rng};
use libp2p_identity::{Keypair, PublicKey};
use ring::signature as rs;
use x509_parser::prelude::*;
use x509_parser::signature_algorithm::SignatureAlgorithm;

const P2P_OID_BYTES: &[u8] = &[0x2b, 0x06, 0x01, 0x04, 0x01, 0x83, 0xa2, 0x5a, 0x01, 0x01];
const P2P_OID_ARCS: [u64; 9] = [1, 3, 6, 1, 4, 1, 53594, 1, 1];
const PREFIX: &[u8] = b"libp2p-tls-handshake:";

fn now_secs() -> i64 {
    std::time::SystemTime::now().duration_since(std::time::UNIX_EPOCH).unwrap().as_secs() as i64
}

/// facts tokens, or `None` when a validity bound is within a few seconds of the clock (the verdict
/// would depend on timing; such a case is skipped)
fn facts(der: &[u8]) -> Option<String> {
    let Ok((_rest, x)) = X509Certificate::from_der(der) else {
        return Some("parse=0 valid=0 spki=other sig=other rv=00000000000 exts=~".into());
    };
    // validity, from the two timestamps
    let now = now_secs();
    let nb = x.validity().not_before.timestamp();
    let na = x.validity().not_after.timestamp();
    if (nb - now).abs() < 5 || (na - now).abs() < 5 {
        return None;
    }
    let valid = nb <= now && now <= na;
    // subject public key algorithm
    let alg = &x.tbs_certificate.subject_pki.algorithm;
    // OIDs are compared by their DER content bytes (a lenient textual rendering would accept
    // malformed arcs the code's bytewise comparison rejects)
    let spki = match alg.algorithm.as_bytes() {
        [0x2a, 0x86, 0x48, 0x86, 0xf7, 0x0d, 0x01, 0x01, 0x01] => "rsa".to_string(),
        [0x2a, 0x86, 0x48, 0xce, 0x3d, 0x02, 0x01] => match &alg.parameters {
            None => "ec:missing".into(),
            Some(p) => match p.as_oid() {
                Err(_) => "ec:notoid".into(),
                Ok(o) => match o.as_bytes() {
                    [0x2a, 0x86, 0x48, 0xce, 0x3d, 0x03, 0x01, 0x07] => "ec:p256".into(),
                    [0x2b, 0x81, 0x04, 0x00, 0x22] => "ec:p384".into(),
                    [0x2b, 0x81, 0x04, 0x00, 0x23] => "ec:p521".into(),
                    _ => "ec:other".into(),
                },
            },
        },
        _ => "other".into(),
    };
    // certificate signature algorithm (the outer one)
    let sig = match x.signature_algorithm.algorithm.as_bytes() {
        [0x2a, 0x86, 0x48, 0x86, 0xf7, 0x0d, 0x01, 0x01, 0x0b] => "sha256Rsa".to_string(),
        [0x2a, 0x86, 0x48, 0x86, 0xf7, 0x0d, 0x01, 0x01, 0x0c] => "sha384Rsa".into(),
        [0x2a, 0x86, 0x48, 0x86, 0xf7, 0x0d, 0x01, 0x01, 0x0d] => "sha512Rsa".into(),
        [0x2a, 0x86, 0x48, 0x86, 0xf7, 0x0d, 0x01, 0x01, 0x0a] => {
            let h = match SignatureAlgorithm::try_from(&x.signature_algorithm) {
                Ok(SignatureAlgorithm::RSASSA_PSS(p)) => match p.hash_algorithm_oid().as_bytes() {
                    [0x60, 0x86, 0x48, 0x01, 0x65, 0x03, 0x04, 0x02, 0x01] => "sha256",
                    [0x60, 0x86, 0x48, 0x01, 0x65, 0x03, 0x04, 0x02, 0x02] => "sha384",
                    [0x60, 0x86, 0x48, 0x01, 0x65, 0x03, 0x04, 0x02, 0x03] => "sha512",
                    _ => "other",
                },
                _ => "other",
            };
            format!("pss:{h}")
        }
        [0x2a, 0x86, 0x48, 0xce, 0x3d, 0x04, 0x03, 0x02] => "ecdsaSha256".into(),
        [0x2a, 0x86, 0x48, 0xce, 0x3d, 0x04, 0x03, 0x03] => "ecdsaSha384".into(),
        [0x2a, 0x86, 0x48, 0xce, 0x3d, 0x04, 0x03, 0x04] => "ecdsaSha512".into(),
        [0x2b, 0x65, 0x70] => "ed25519".into(),
        [0x2b, 0x65, 0x71] => "ed448".into(),
        _ => "other".into(),
    };
    // ring verification of the self-signature under each scheme's algorithm
    let key = x.tbs_certificate.subject_pki.subject_public_key.as_ref();
    let tbs = x.tbs_certificate.as_ref();
    let sv = x.signature_value.as_ref();
    let algs: [Option<&dyn rs::VerificationAlgorithm>; 11] = [
        Some(&rs::RSA_PKCS1_2048_8192_SHA256),
        Some(&rs::RSA_PKCS1_2048_8192_SHA384),
        Some(&rs::RSA_PKCS1_2048_8192_SHA512),
        Some(&rs::RSA_PSS_2048_8192_SHA256),
        Some(&rs::RSA_PSS_2048_8192_SHA384),
        Some(&rs::RSA_PSS_2048_8192_SHA512),
        Some(&rs::ECDSA_P256_SHA256_ASN1),
        Some(&rs::ECDSA_P384_SHA384_ASN1),
        None,
        Some(&rs::ED25519),
        None,
    ];
    let rv: String = algs
        .iter()
        .map(|a| match a {
            Some(a) => {
                if rs::UnparsedPublicKey::new(*a, key).verify(tbs, sv).is_ok() {
                    '1'
                } else {
                    '0'
                }
            }
            None => '0',
        })
        .collect();
    // extensions
    let mut msg = PREFIX.to_vec();
    msg.extend_from_slice(x.public_key().raw);
    let mut exts = vec![];
    for e in x.extensions() {
        let p = e.oid.as_bytes() == P2P_OID_BYTES;
        let flags = format!("{}{}", if p { 'p' } else { 'u' }, if e.critical { 'c' } else { 'n' });
        if !p {
            exts.push(format!("{flags}:a"));
            continue;
        }
        let decoded = yasna::parse_der(e.value, |r| {
            r.read_sequence(|r| {
                let a = r.next().read_bytes()?;
                let b = r.next().read_bytes()?;
                Ok((a, b))
            })
        });
        match decoded {
            Err(_) => exts.push(format!("{flags}:a")),
            Ok((k, s)) => match PublicKey::try_decode_protobuf(&k) {
                Err(_) => exts.push(format!("{flags}:k")),
                Ok(pk) => exts.push(format!("{flags}:g:{}:{}", hex(&pk.to_peer_id().to_bytes()), pk.verify(&msg, &s) as u8)),
            },
        }
    }
    let exts = if exts.is_empty() { "~".into() } else { exts.join(";") };
    Some(format!("parse=1 valid={} spki={spki} sig={sig} rv={rv} exts={exts}", valid as u8))
}

fn verdict(der: &[u8]) -> String {
    let cert = rustls_pki_types::CertificateDer::from(der.to_vec());
    match hcore::guarded(|| libp2p_tls::certificate::parse(&cert).map(|c| c.peer_id())) {
        Err(m) => format!("panic {m}"),
        Ok(Ok(p)) => format!("ok {}", hex(&p.to_bytes())),
        Ok(Err(e)) => {
            let s = e.to_string();
            let id: String = s.chars().take_while(|c| c.is_ascii_alphanumeric()).collect();
            format!("err:{id}")
        }
    }
}

fn one(out: &mut Out, idx: &mut u64, cls: &str, nt: bool, der: &[u8], orig: Option<&[u8]>) {
    let Some(f) = facts(der) else { return };
    out.case(*idx, &format!("{cls} nt={}", nt as u8));
    out.op(&format!("cert der={} orig={} {f}", hex(der), orig.map(hex).unwrap_or_else(|| "-".into())));
    out.imp(&verdict(der));
    out.end();
    *idx += 1;
}

/// the libp2p extension as `certificate::generate` builds it (rcgen + yasna), with knobs
fn p2p_ext(host: &Keypair, signed_spki: &[u8], announced: &PublicKey, critical: bool) -> rcgen::CustomExtension {
    let mut msg = PREFIX.to_vec();
    msg.extend_from_slice(signed_spki);
    let sig = host.sign(&msg).unwrap();
    let content = yasna::encode_der(&(announced.encode_protobuf(), sig));
    let mut ext = rcgen::CustomExtension::from_oid_content(&P2P_OID_ARCS, content);
    ext.set_criticality(critical);
    ext
}

fn host_keys() -> Vec<(&'static str, Keypair)> {
    let secp: Keypair =
        libp2p_identity::secp256k1::Keypair::from(libp2p_identity::secp256k1::SecretKey::try_from_bytes(&mut [0x11u8; 32]).unwrap()).into();
    let ecdsa: Keypair = libp2p_identity::ecdsa::Keypair::from(libp2p_identity::ecdsa::SecretKey::try_from_bytes(&[0x22u8; 32]).unwrap()).into();
    let mut pk8 = include_bytes!("/repo/identity/src/test/rsa-2048.pk8").to_vec();
    let rsa = Keypair::rsa_from_pkcs8(&mut pk8).unwrap();
    vec![("ed25519", hcore::keypair(3)), ("secp256k1", secp), ("ecdsa", ecdsa), ("rsa", rsa)]
}

fn structural(out: &mut Out, idx: &mut u64) {
    let host = hcore::keypair(3);
    let other = hcore::keypair(4);
    let pid = host.public().to_peer_id().to_bytes();
    let opid = other.public().to_peer_id().to_bytes();
    for (aname, alg) in [("p256", &rcgen::PKCS_ECDSA_P256_SHA256), ("p384", &rcgen::PKCS_ECDSA_P384_SHA384), ("ed25519", &rcgen::PKCS_ED25519)] {
        let ck = rcgen::KeyPair::generate_for(alg).unwrap();
        let ck2 = rcgen::KeyPair::generate_for(alg).unwrap();
        let spki = ck.public_key_der();
        let base = || {
            let mut p = rcgen::CertificateParams::default();
            p.distinguished_name = rcgen::DistinguishedName::new();
            p
        };
        let unknown = |crit: bool| {
            let mut e = rcgen::CustomExtension::from_oid_content(&[1, 3, 6, 1, 4, 1, 53594, 9, 9], vec![0x05, 0x00]);
            e.set_criticality(crit);
            e
        };
        let raw = |content: Vec<u8>| {
            let mut e = rcgen::CustomExtension::from_oid_content(&P2P_OID_ARCS, content);
            e.set_criticality(true);
            e
        };
        let good = p2p_ext(&host, &spki, &host.public(), true);
        let mut emit = |name: &str, p: rcgen::CertificateParams, signer: Option<&rcgen::KeyPair>, orig: &[u8]| {
            let cert = match signer {
                None => p.self_signed(&ck),
                Some(issuer_key) => {
                    let issuer = base().self_signed(issuer_key).unwrap();
                    p.signed_by(&ck, &issuer, issuer_key)
                }
            };
            if let Ok(c) = cert {
                one(out, idx, &format!("struct-{aname}-{name}"), true, c.der(), Some(orig));
            }
        };
        let mut p = base();
        p.custom_extensions.push(good.clone());
        emit("plain", p, None, &pid);
        let mut p = base();
        p.custom_extensions.push(p2p_ext(&host, &spki, &host.public(), false));
        emit("noncritical-p2p", p, None, &pid);
        emit("no-p2p-ext", base(), None, &pid);
        let mut p = base();
        p.custom_extensions.push(good.clone());
        p.custom_extensions.push(good.clone());
        emit("duplicate-p2p", p, None, &pid);
        let mut p = base();
        p.custom_extensions.push(good.clone());
        p.custom_extensions.push(p2p_ext(&other, &spki, &other.public(), true));
        emit("two-different-p2p", p, None, &pid);
        let mut p = base();
        p.custom_extensions.push(unknown(true));
        p.custom_extensions.push(good.clone());
        emit("unknown-critical-first", p, None, &pid);
        let mut p = base();
        p.custom_extensions.push(good.clone());
        p.custom_extensions.push(unknown(true));
        emit("unknown-critical-last", p, None, &pid);
        let mut p = base();
        p.custom_extensions.push(unknown(false));
        p.custom_extensions.push(good.clone());
        p.custom_extensions.push(unknown(false));
        emit("unknown-noncritical", p, None, &pid);
        let mut p = base();
        p.custom_extensions.push(good.clone());
        p.not_before = rcgen::date_time_ymd(1970, 1, 1);
        p.not_after = rcgen::date_time_ymd(1975, 1, 1);
        emit("expired", p, None, &pid);
        let mut p = base();
        p.custom_extensions.push(good.clone());
        p.not_before = rcgen::date_time_ymd(3000, 1, 1);
        p.not_after = rcgen::date_time_ymd(3001, 1, 1);
        emit("not-yet-valid", p, None, &pid);
        let mut p = base();
        p.custom_extensions.push(good.clone());
        emit("other-signer", p, Some(&ck2), &pid);
        // extension signed by another host key than the one announced
        let mut p = base();
        p.custom_extensions.push(p2p_ext(&other, &spki, &host.public(), true));
        emit("ext-signed-by-other", p, None, &pid);
        // a valid extension for ANOTHER certificate key transplanted into this certificate
        let mut p = base();
        p.custom_extensions.push(p2p_ext(&host, &ck2.public_key_der(), &host.public(), true));
        emit("ext-for-other-cert-key", p, None, &pid);
        // an honest certificate of the other identity (accepted, with the other id)
        let mut p = base();
        p.custom_extensions.push(p2p_ext(&other, &spki, &other.public(), true));
        emit("other-identity", p, None, &opid);
        let mut p = base();
        p.custom_extensions.push(raw(vec![0x04, 0x02, 0x01, 0x02]));
        emit("ext-not-sequence", p, None, &pid);
        let mut p = base();
        p.custom_extensions.push(raw(yasna::encode_der(&(vec![1u8, 2, 3], vec![4u8, 5]))));
        emit("ext-bad-key", p, None, &pid);
        let mut p = base();
        p.custom_extensions.push(raw(yasna::encode_der(&(host.public().encode_protobuf(), Vec::<u8>::new()))));
        emit("ext-empty-sig", p, None, &pid);
        let mut p = base();
        p.custom_extensions.push(raw(vec![]));
        emit("ext-empty-value", p, None, &pid);
    }
}

const ASSETS: &[(&str, &[u8])] = &[
    ("ed448", include_bytes!("/repo/transports/tls/src/test_assets/ed448.der")),
    ("ed25519", include_bytes!("/repo/transports/tls/src/test_assets/ed25519.der")),
    ("rsa_pkcs1_sha256", include_bytes!("/repo/transports/tls/src/test_assets/rsa_pkcs1_sha256.der")),
    ("rsa_pkcs1_sha384", include_bytes!("/repo/transports/tls/src/test_assets/rsa_pkcs1_sha384.der")),
    ("rsa_pkcs1_sha512", include_bytes!("/repo/transports/tls/src/test_assets/rsa_pkcs1_sha512.der")),
    ("nistp256_sha256", include_bytes!("/repo/transports/tls/src/test_assets/nistp256_sha256.der")),
    ("nistp384_sha384", include_bytes!("/repo/transports/tls/src/test_assets/nistp384_sha384.der")),
    ("nistp521_sha512", include_bytes!("/repo/transports/tls/src/test_assets/nistp521_sha512.der")),
    ("nistp384_sha256", include_bytes!("/repo/transports/tls/src/test_assets/nistp384_sha256.der")),
    ("rsa_pss_sha384", include_bytes!("/repo/transports/tls/src/test_assets/rsa_pss_sha384.der")),
];

fn mutations(out: &mut Out, idx: &mut u64, cls: &str, der: &[u8], orig: Option<&[u8]>, args: &Args, salt: u64) {
    let (stride, masks): (usize, &[u8]) = if args.thorough { (1, &[0x01, 0x02, 0x04, 0x08, 0x10, 0x20, 0x40, 0x80, 0xff]) } else { (1, &[0x01, 0x80, 0xff, 0x04, 0x20]) };
    let mut rng = Rng::for_case(args.seed, 0xC18_0000 + salt);
    let start = rng.usize(stride);
    let mut pos = start;
    while pos < der.len() {
        for (j, m) in masks.iter().enumerate() {
            // quick tier: rotate the masks over the positions instead of taking all of them
            if !args.thorough && (pos / stride + j) % masks.len() != 0 {
                continue;
            }
            let mut d = der.to_vec();
            d[pos] ^= m;
            one(out, idx, &format!("mut-{cls}"), true, &d, orig);
        }
        pos += stride;
    }
    // a few truncations / extensions
    for cut in [0usize, 1, 4, der.len() / 2, der.len() - 1] {
        one(out, idx, &format!("trunc-{cls}"), false, &der[..cut.min(der.len())], orig);
    }
    let mut d = der.to_vec();
    d.extend_from_slice(&[0, 1, 2, 3]);
    one(out, idx, &format!("trailing-{cls}"), true, &d, orig);
}

pub fn run(args: &Args, out: &mut Out) {
    if let Some(cases) = args.replay_cases() {
        let mut idx = 0u64;
        for (_, ops) in cases {
            for op in ops {
                let der = op.iter().find_map(|t| t.strip_prefix("der=")).map(unhex).unwrap_or_default();
                let orig = op.iter().find_map(|t| t.strip_prefix("orig=")).filter(|o| *o != "-").map(unhex);
                one(out, &mut idx, "replay", true, &der, orig.as_deref());
            }
        }
        return;
    }
    let mut idx = 0u64;
    // generated certificates for every host key type, and their byte mutations
    for (i, (name, kp)) in host_keys().iter().enumerate() {
        let pid = kp.public().to_peer_id().to_bytes();
        let n = if args.thorough { 2 } else { 1 };
        for j in 0..n {
            let (cert, _) = libp2p_tls::certificate::generate(kp).unwrap();
            one(out, &mut idx, &format!("generated-{name}"), true, cert.as_ref(), Some(&pid));
            if j == 0 {
                mutations(out, &mut idx, name, cert.as_ref(), Some(&pid), args, i as u64);
            }
        }
    }
    structural(out, &mut idx);
    for (i, (name, der)) in ASSETS.iter().enumerate() {
        one(out, &mut idx, &format!("asset-{name}"), true, der, None);
        if *name == "rsa_pss_sha384" || *name == "ed25519" || args.thorough {
            mutations(out, &mut idx, &format!("asset-{name}"), der, None, args, 100 + i as u64);
        }
    }
}
