//! C19 — plaintext handshake hand-over, pnet CryptWriter buffering, pnet key file parsing.
//!
//! Three case classes, one driver (`drv_C19`):
//!   keyfile-*   `op parse <utf8-hex>` / `op roundtrip <key-hex>`  — `PreSharedKey::{from_str, to_string}`
//!   plaintext-* `op hs local=.. chunks=.. K=.. I=..` then `op rd <n>` — the real `Config::upgrade_inbound`
//!               over a scripted in-memory socket, then `Output::poll_read`
//!   pnet-*      `op hs`, `op w <data> <script>`, `op f|c <script>`, `op r <n> <m>` — two real
//!               `PnetConfig::handshake` endpoints; A's inner writer answers from the script.
use std::collections::VecDeque;
use std::pin::Pin;
use std::sync::{Arc, Mutex};
use std::task::{Context, Poll};

use futures::io::{AsyncRead, AsyncWrite};
use futures::task::noop_waker;
use futures::Future;
use hcore::{hex, unhex, Args, Out, Rng};
use libp2p_core::upgrade::InboundConnectionUpgrade;
use libp2p_identity::{Keypair, PeerId, PublicKey};
use libp2p_pnet::{KeyParseError, PnetConfig, PreSharedKey};
use salsa20::cipher::{KeyIvInit, StreamCipher};

// ------------------------------------------------------------------------------------ key file

fn key_hex(k: &PreSharedKey) -> String {
    // PreSharedKey has no byte accessor: read the hex line of its own rendering and cross-check it
    let text = k.to_key_file();
    let line = text.lines().nth(2).unwrap_or("");
    if line.len() == 64 && line.is_ascii() {
        let bytes = unhex(line);
        let mut arr = [0u8; 32];
        arr.copy_from_slice(&bytes);
        if PreSharedKey::new(arr) == *k {
            return hex(&bytes);
        }
    }
    "inconsistent".into()
}

fn key_res(text: &str) -> String {
    match hcore::guarded(|| text.parse::<PreSharedKey>()) {
        Err(_) => "panic".into(),
        Ok(Ok(k)) => format!("ok {}", key_hex(&k)),
        Ok(Err(e)) => match e {
            KeyParseError::InvalidKeyFile => "err:InvalidKeyFile".into(),
            KeyParseError::InvalidKeyType => "err:InvalidKeyType".into(),
            KeyParseError::InvalidKeyEncoding => "err:InvalidKeyEncoding".into(),
            KeyParseError::InvalidKeyLength => "err:InvalidKeyLength".into(),
            KeyParseError::InvalidKeyChar(pe) => format!("err:InvalidKeyChar:{:?}", pe.kind()),
        },
    }
}

fn op_parse(out: &mut Out, text: &str) {
    out.op(&format!("parse {}", hex(text.as_bytes())));
    out.imp(&key_res(text));
}

fn op_roundtrip(out: &mut Out, key: [u8; 32]) {
    out.op(&format!("roundtrip {}", hex(&key)));
    let r = hcore::guarded(|| {
        let text = PreSharedKey::new(key).to_string();
        (hex(text.as_bytes()), key_res(&text))
    });
    match r {
        Ok((t, r)) => out.imp(&format!("{t} {r}")),
        Err(_) => out.imp("panic"),
    }
}

const HEAD: &str = "/key/swarm/psk/1.0.0/\n/base16/\n";

/// characters the random key lines are drawn from: hex digits dominate; the rest are the
/// boundary cases of `from_str_radix` (`+`, `-`, upper case, non-hex), white space that
/// `trim_end`/`lines` treat specially, and 2/3/4-byte characters.
const ODD_CHARS: &[&str] = &[
    "g", "G", "+", "-", " ", "\t", "\r", "x", "/", ":", "@", "`", "\u{e9}", "\u{a0}", "\u{85}", "\u{20ac}", "\u{2003}",
    "\u{3000}", "\u{1680}", "\u{2028}", "\u{205f}", "\u{202f}", "\u{200b}", "\u{fffd}", "\u{1f600}", "\u{10000}", "\u{80}", "\u{7ff}",
    "\u{800}", "\u{0}", "\u{7f}", "\u{c}", "\u{b}",
];
const HEXCH: &[u8] = b"0123456789abcdefABCDEF";

fn rand_hex(rng: &mut Rng, n: usize) -> String {
    (0..n).map(|_| *rng.pick(HEXCH) as char).collect()
}

/// a key line of exactly `target` bytes (when reachable) mixing hex digits and odd characters
fn rand_key_line(rng: &mut Rng, target: usize, odd_pct: u64) -> String {
    let mut s = String::new();
    while s.len() < target {
        if rng.chance(odd_pct, 100) {
            let c = rng.pick(ODD_CHARS);
            if s.len() + c.len() <= target {
                s.push_str(c);
                continue;
            }
        }
        s.push(*rng.pick(HEXCH) as char);
    }
    s
}

fn keyfile_cases(args: &Args, out: &mut Out, idx: &mut u64) {
    let mut case = |out: &mut Out, cls: &str, nt: bool, f: &mut dyn FnMut(&mut Out)| {
        out.case(*idx, &format!("keyfile-{cls} nt={}", nt as u8));
        f(out);
        out.end();
        *idx += 1;
    };
    // round trips: boundary keys + random keys
    let mut keys: Vec<[u8; 32]> = vec![[0u8; 32], [0xff; 32], [0x0a; 32], [0x2b; 32], core::array::from_fn(|i| i as u8), core::array::from_fn(|i| (255 - i * 8) as u8)];
    let mut rng = Rng::for_case(args.seed, 0xC19_0000);
    for _ in 0..args.n(60, 3000) {
        let b = rng.bytes(32);
        keys.push(core::array::from_fn(|i| b[i]));
    }
    for k in &keys {
        case(out, "roundtrip", true, &mut |o| op_roundtrip(o, *k));
    }
    // a multi-byte character at EVERY byte offset of an otherwise valid 64-byte key line
    for ch in ["\u{e9}", "\u{20ac}", "\u{1f600}", "\u{a0}", "\u{3000}"] {
        for pos in 0..=(64 - ch.len()) {
            let mut line = "0123456789abcdef".repeat(4);
            line.replace_range(pos..pos + ch.len(), ch);
            let text = format!("{HEAD}{line}\n");
            case(out, "mbchar-sweep", true, &mut |o| op_parse(o, &text));
        }
    }
    // fixed structural cases
    let good = "6189c5cf0b87fb800c1a9feeda73c6ab5e998db48fb9e6a978575c770ceef683";
    let fixed: Vec<String> = vec![
        "".into(),
        "\n".into(),
        "\n\n\n".into(),
        "a\nb\nc".into(),
        "a\nb".into(),
        "/key/swarm/psk/1.0.0/\nx\ny".into(),
        "/key/swarm/psk/1.0.0/\n/base16/\ny".into(),
        "/key/swarm/psk/1.0.0/\n/base16/".into(),
        "/key/swarm/psk/1.0.0/\n/base16/\n".into(),
        format!("{HEAD}{good}"),
        format!("{HEAD}{good}\n"),
        format!("{HEAD}{good}\r\n"),
        format!("{HEAD}{good}\r"),
        format!("{HEAD}{good}\r\r\n"),
        format!("/key/swarm/psk/1.0.0/\r\n/base16/\r\n{good}\r\n"),
        format!("/key/swarm/psk/1.0.0/\r\r\n/base16/\n{good}\n"),
        format!("/key/swarm/psk/1.0.0/\r/base16/\n{good}\n"),
        format!("{HEAD}{good}   \t \n"),
        format!("{HEAD}{good}\u{a0}\u{3000}\u{2003}\u{85}\u{1680}\u{2028}\u{2029}\u{202f}\u{205f}\n"),
        format!("{HEAD}{good}\u{200b}\n"),
        format!("{HEAD}{good}\u{e9}\n"),
        format!("{HEAD} {good}\n"),
        format!("{HEAD}{good}\nextra line\nmore\n"),
        format!("{HEAD}\n{good}\n"),
        format!("\n{HEAD}{good}\n"),
        format!("{HEAD}{}\n", good.to_uppercase()),
        format!("{HEAD}{}\n", "+a".repeat(32)),
        format!("{HEAD}{}\n", "-a".repeat(32)),
        format!("{HEAD}{}\n", "+-".repeat(32)),
        format!("{HEAD}{}\n", "++".repeat(32)),
        format!("{HEAD}{}+\n", &good[..63]),
        format!("{HEAD}{}\n", &good[..63]),
        format!("{HEAD}{}0\n", good),
        format!("{HEAD}{}\n", "g".repeat(64)),
        format!("{HEAD}{}\n", "\u{e9}".repeat(32)),
        format!("{HEAD}a{}\n", "\u{e9}".repeat(31) + "0"),
        format!("{HEAD}a\u{e9}{}\n", "0".repeat(61)),
        format!("{HEAD}{}\u{20ac}\n", "0".repeat(61)),
        format!("{HEAD}{}\u{20ac}\n", "0".repeat(60)),
        format!("{HEAD}{}\u{3000}\n", "0".repeat(61)),
        format!("{HEAD}{}\u{3000}0\n", "0".repeat(60)),
        format!("/key/swarm/psk/1.0.0/ \n/base16/\n{good}\n"),
        format!("/key/swarm/psk/1.0.0/\n/base16/ \n{good}\n"),
        format!("/key/swarm/psk/1.0.0\n/base16/\n{good}\n"),
        format!("/key/swarm/psk/1.0.0/\n/base64/\n{good}\n"),
    ];
    for t in &fixed {
        case(out, "fixed", true, &mut |o| op_parse(o, t));
    }
    // every truncation of a valid file
    let full = format!("{HEAD}{good}\n");
    for n in 0..=full.len() {
        case(out, "truncation", n > HEAD.len(), &mut |o| op_parse(o, &full[..n]));
    }
    // random key lines biased to exactly 64 bytes
    let n = args.n(1500, 150_000);
    for i in 0..n {
        let mut rng = Rng::for_case(args.seed, 0xC19_1000 + i);
        let target = match rng.below(10) {
            0 => 63,
            1 => 65,
            2 => rng.usize(130),
            _ => 64,
        };
        let odd = *rng.pick(&[1u64, 2, 3, 5, 10, 30, 80]);
        let mut line = rand_key_line(&mut rng, target, odd);
        if rng.chance(1, 4) {
            // trailing white space that trim_end removes (or not)
            for _ in 0..rng.range(1, 3) {
                line.push_str(*rng.pick(&[" ", "\t", "\r", "\u{a0}", "\u{3000}", "\u{2003}", "\u{85}", "\u{200b}", "\u{c}"]));
            }
        }
        let term = *rng.pick(&["\n", "\n", "\r\n", "", "\r", "\nx\n"]);
        let head = if rng.chance(1, 12) { *rng.pick(&["/key/swarm/psk/1.0.0/\r\n/base16/\r\n", "/key/swarm/psk/1.0.0/\n/base16\n", "/key/swarm/psk/1.0.1/\n/base16/\n", "\n/base16/\n", "/key/swarm/psk/1.0.0/\n"]) } else { HEAD };
        let text = format!("{head}{line}{term}");
        case(out, "random-line", true, &mut |o| op_parse(o, &text));
    }
    // random whole files
    for i in 0..args.n(300, 30_000) {
        let mut rng = Rng::for_case(args.seed, 0xC19_2000 + i);
        let mut text = String::new();
        for _ in 0..rng.usize(8) {
            match rng.below(6) {
                0 => text.push_str("/key/swarm/psk/1.0.0/"),
                1 => text.push_str("/base16/"),
                2 => text.push_str(&rand_hex(&mut rng, 64)),
                3 => {
                    let t = rng.usize(70);
                    text.push_str(&rand_key_line(&mut rng, t, 30))
                }
                4 => text.push('\n'),
                _ => text.push_str(*rng.pick(&["\r\n", "\r", " ", "\n\n", "\u{2028}", "\u{85}"])),
            }
            if rng.chance(2, 3) {
                text.push('\n');
            }
        }
        case(out, "random-file", false, &mut |o| op_parse(o, &text));
    }
}

// ------------------------------------------------------------------------------------ plaintext

/// scripted socket: every `poll_read` yields (at most) the next chunk; after the last chunk EOF.
/// Writes are accepted whole and recorded.
struct ChunkSock {
    chunks: VecDeque<Vec<u8>>,
    written: Arc<Mutex<Vec<u8>>>,
}

impl AsyncRead for ChunkSock {
    fn poll_read(mut self: Pin<&mut Self>, _: &mut Context<'_>, buf: &mut [u8]) -> Poll<std::io::Result<usize>> {
        loop {
            match self.chunks.front_mut() {
                None => return Poll::Ready(Ok(0)),
                Some(c) if c.is_empty() => {
                    self.chunks.pop_front();
                }
                Some(c) => {
                    if buf.len() >= c.len() {
                        let n = c.len();
                        buf[..n].copy_from_slice(c);
                        self.chunks.pop_front();
                        return Poll::Ready(Ok(n));
                    } else {
                        let n = buf.len();
                        buf.copy_from_slice(&c[..n]);
                        c.drain(..n);
                        return Poll::Ready(Ok(n));
                    }
                }
            }
        }
    }
}

impl AsyncWrite for ChunkSock {
    fn poll_write(self: Pin<&mut Self>, _: &mut Context<'_>, buf: &[u8]) -> Poll<std::io::Result<usize>> {
        self.written.lock().unwrap().extend_from_slice(buf);
        Poll::Ready(Ok(buf.len()))
    }
    fn poll_flush(self: Pin<&mut Self>, _: &mut Context<'_>) -> Poll<std::io::Result<()>> {
        Poll::Ready(Ok(()))
    }
    fn poll_close(self: Pin<&mut Self>, _: &mut Context<'_>) -> Poll<std::io::Result<()>> {
        Poll::Ready(Ok(()))
    }
}

fn drive<F: Future + Unpin>(mut f: F) -> Option<F::Output> {
    let w = noop_waker();
    let mut cx = Context::from_waker(&w);
    for _ in 0..10_000 {
        if let Poll::Ready(v) = Pin::new(&mut f).poll(&mut cx) {
            return Some(v);
        }
    }
    None
}

fn table(entries: &[Vec<u8>], f: impl Fn(&[u8]) -> Option<Vec<u8>>) -> String {
    let mut seen: Vec<&Vec<u8>> = vec![];
    let mut parts = vec![];
    for e in entries {
        if seen.contains(&e) {
            continue;
        }
        seen.push(e);
        parts.push(format!("{}:{}", hex(e), f(e).map(|v| hex(&v)).unwrap_or_else(|| "err".into())));
    }
    if parts.is_empty() {
        "~".into()
    } else {
        parts.join(";")
    }
}

fn oracle_key(b: &[u8]) -> Option<Vec<u8>> {
    hcore::guarded(|| PublicKey::try_decode_protobuf(b).ok().map(|k| k.to_peer_id().to_bytes())).unwrap_or(None)
}
fn oracle_pid(b: &[u8]) -> Option<Vec<u8>> {
    hcore::guarded(|| PeerId::from_bytes(b).ok().map(|p| p.to_bytes())).unwrap_or(None)
}

fn leb(mut n: u64) -> Vec<u8> {
    let mut v = vec![];
    loop {
        let b = (n & 0x7f) as u8;
        n >>= 7;
        if n == 0 {
            v.push(b);
            return v;
        }
        v.push(b | 0x80);
    }
}

fn read_leb(b: &[u8]) -> Option<(u64, usize)> {
    let mut n = 0u64;
    for (i, x) in b.iter().enumerate().take(10) {
        n |= ((x & 0x7f) as u64).wrapping_shl(7 * i as u32);
        if x & 0x80 == 0 {
            return Some((n, i + 1));
        }
    }
    None
}

/// independent, tolerant walk over a protobuf body: every length-delimited value of field 1 / 2
/// (candidates for the oracle tables only — the model does its own decoding)
fn walk_fields(body: &[u8], cands: &mut Vec<Vec<u8>>) {
    let mut p = 0usize;
    while p < body.len() {
        let Some((key, l)) = read_leb(&body[p..]) else { return };
        p += l;
        match key & 7 {
            0 => {
                let Some((_, l)) = read_leb(&body[p..]) else { return };
                p += l;
            }
            1 => p += 8,
            5 => p += 4,
            2 => {
                let Some((len, l)) = read_leb(&body[p..]) else { return };
                p += l;
                let end = p.saturating_add(len as usize);
                if end > body.len() {
                    return;
                }
                if key >> 3 == 1 || key >> 3 == 2 {
                    cands.push(body[p..end].to_vec());
                }
                p = end;
            }
            _ => return,
        }
    }
}

fn stream_candidates(stream: &[u8]) -> Vec<Vec<u8>> {
    let mut c = vec![vec![]];
    if let Some((len, l)) = read_leb(stream) {
        let end = l.saturating_add(len as usize).min(stream.len());
        if l <= end {
            walk_fields(&stream[l..end], &mut c);
        }
    }
    c
}

fn field(tag: u8, v: &[u8]) -> Vec<u8> {
    let mut o = vec![(tag << 3) | 2];
    o.extend(leb(v.len() as u64));
    o.extend_from_slice(v);
    o
}

fn frame(body: &[u8]) -> Vec<u8> {
    let mut o = leb(body.len() as u64);
    o.extend_from_slice(body);
    o
}

fn split_random(rng: &mut Rng, s: &[u8]) -> Vec<Vec<u8>> {
    let mut out = vec![];
    let mut p = 0;
    while p < s.len() {
        let n = match rng.below(4) {
            0 => 1,
            1 => rng.range(1, 4) as usize,
            2 => rng.range(1, 40) as usize,
            _ => s.len(),
        }
        .min(s.len() - p);
        out.push(s[p..p + n].to_vec());
        p += n;
    }
    out
}

fn chunks_tok(chunks: &[Vec<u8>]) -> String {
    let v: Vec<String> = chunks.iter().filter(|c| !c.is_empty()).map(|c| hex(c)).collect();
    if v.is_empty() {
        "~".into()
    } else {
        v.join(",")
    }
}

fn local_keypair() -> Keypair {
    hcore::keypair(1)
}

/// run the real upgrade on `chunks`, then the reads; prints the op/impl lines
fn plaintext_run(out: &mut Out, chunks: &[Vec<u8>], cands: &[Vec<u8>], reads: &[usize]) {
    let local = local_keypair();
    let lpk = local.public();
    let stream: Vec<u8> = chunks.concat();
    let mut all = cands.to_vec();
    all.extend(stream_candidates(&stream));
    out.op(&format!(
        "hs local={}:{} chunks={} K={} I={}",
        hex(&lpk.to_peer_id().to_bytes()),
        hex(&lpk.encode_protobuf()),
        chunks_tok(chunks),
        table(&all, oracle_key),
        table(&all, oracle_pid)
    ));
    let written = Arc::new(Mutex::new(vec![]));
    let sock = ChunkSock { chunks: chunks.iter().cloned().collect(), written: written.clone() };
    let cfg = libp2p_plaintext::Config::new(&local);
    let res = hcore::guarded(|| drive(cfg.upgrade_inbound(sock, "/plaintext/2.0.0")));
    let sent = hex(&written.lock().unwrap());
    let mut conn = None;
    match res {
        Err(_) => out.imp("panic"),
        Ok(None) => out.imp("stuck"),
        Ok(Some(Ok((peer, output)))) => {
            out.imp(&format!("ok {} {}", hex(&peer.to_bytes()), sent));
            conn = Some(output);
        }
        Ok(Some(Err(e))) => {
            let s = e.to_string();
            let cls = if s.starts_with("I/O error") {
                "Io"
            } else if s == "Failed to decode protobuf" {
                "InvalidPayload"
            } else if s == "Failed to decode public key" {
                "InvalidPublicKey"
            } else if s == "Failed to decode PeerId" {
                "InvalidPeerId"
            } else if s.starts_with("The peer id of the exchange") {
                "PeerIdMismatch"
            } else {
                "Other"
            };
            out.imp(&format!("err:{cls} {sent}"));
        }
    }
    if let Some(mut o) = conn {
        let w = noop_waker();
        let mut cx = Context::from_waker(&w);
        for &n in reads {
            out.op(&format!("rd {n}"));
            let mut buf = vec![0u8; n];
            match hcore::guarded(|| Pin::new(&mut o).poll_read(&mut cx, &mut buf)) {
                Ok(Poll::Ready(Ok(k))) => out.imp(&hex(&buf[..k])),
                Ok(Poll::Ready(Err(e))) => out.imp(&format!("err:{:?}", e.kind())),
                Ok(Poll::Pending) => out.imp("pending"),
                Err(_) => out.imp("panic"),
            }
        }
    }
}

fn read_plan(rng: &mut Rng, total: usize) -> Vec<usize> {
    // enough reads to drain `total` bytes and observe EOF twice
    let mut v = vec![];
    let mut budget = 0usize;
    let style = rng.below(4);
    while budget < total + 2 {
        let n = match style {
            0 => 1,
            1 => rng.range(1, 5) as usize,
            2 => rng.range(1, 64) as usize,
            _ => 4096,
        };
        v.push(n);
        budget += 1; // every read delivers at least one byte while something is pending
    }
    if rng.chance(1, 5) {
        v.insert(rng.usize(v.len()), 0);
    }
    v
}

fn plaintext_cases(args: &Args, out: &mut Out, idx: &mut u64) {
    let kp_a = hcore::keypair(7);
    let kp_b = hcore::keypair(8);
    let mut rng0 = Rng::for_case(args.seed, 0xC19_3000);
    let secp: Keypair = libp2p_identity::secp256k1::Keypair::from(
        libp2p_identity::secp256k1::SecretKey::try_from_bytes(&mut [0x11u8; 32]).unwrap(),
    )
    .into();
    let ecdsa: Keypair = libp2p_identity::ecdsa::Keypair::from(
        libp2p_identity::ecdsa::SecretKey::try_from_bytes(&[0x22u8; 32]).unwrap(),
    )
    .into();
    let _ = &mut rng0;
    let pk = |k: &Keypair| k.public().encode_protobuf();
    let id = |k: &Keypair| k.public().to_peer_id().to_bytes();

    // ---- exhaustive two-chunk split of honest / mismatched exchange ++ data (every split point)
    for (cls, idb, pkb) in [("honest", id(&kp_a), pk(&kp_a)), ("mismatch", id(&kp_b), pk(&kp_a)), ("honest-secp", id(&secp), pk(&secp))] {
        let mut body = field(1, &idb);
        body.extend(field(2, &pkb));
        let mut stream = frame(&body);
        let data: Vec<u8> = (0..23u8).map(|i| i.wrapping_mul(37).wrapping_add(5)).collect();
        stream.extend_from_slice(&data);
        for cut in 0..=stream.len() {
            let chunks = vec![stream[..cut].to_vec(), stream[cut..].to_vec()];
            out.case(*idx, &format!("plaintext-split2-{cls} nt=1"));
            let mut rng = Rng::for_case(args.seed, 0xC19_4000 + *idx);
            plaintext_run(out, &chunks, &[idb.clone(), pkb.clone()], &read_plan(&mut rng, data.len()));
            out.end();
            *idx += 1;
        }
    }

    // ---- random crafted exchanges
    let n = args.n(700, 60_000);
    for i in 0..n {
        let mut rng = Rng::for_case(args.seed, 0xC19_5000 + i);
        let keys = [&kp_a, &kp_b, &secp, &ecdsa];
        let k1 = *rng.pick(&keys);
        let k2 = *rng.pick(&keys);
        let mut cands: Vec<Vec<u8>> = vec![];
        let cls;
        let mut body: Vec<u8>;
        let mut raw_stream: Option<Vec<u8>> = None;
        match rng.below(16) {
            0 | 1 | 2 => {
                cls = "honest";
                body = field(1, &id(k1));
                body.extend(field(2, &pk(k1)));
            }
            3 | 4 => {
                cls = "mismatch";
                body = field(1, &id(k2));
                body.extend(field(2, &pk(k1)));
            }
            5 => {
                cls = "swapped-order";
                body = field(2, &pk(k1));
                body.extend(field(1, &id(if rng.bool() { k1 } else { k2 })));
            }
            6 => {
                cls = "missing-field";
                body = vec![];
                if rng.bool() {
                    body.extend(field(1, &id(k1)));
                } else if rng.bool() {
                    body.extend(field(2, &pk(k1)));
                }
            }
            7 => {
                cls = "duplicate-field";
                // the LAST occurrence wins
                body = field(1, &id(k2));
                body.extend(field(2, &pk(&kp_a)));
                body.extend(field(1, &id(&kp_a)));
                if rng.bool() {
                    body.extend(field(2, &pk(&kp_b)));
                }
            }
            8 => {
                cls = "garbage-field";
                let mut g1 = id(&kp_a);
                let mut g2 = pk(&kp_a);
                match rng.below(4) {
                    0 => g1[rng.usize(38)] ^= 1 << rng.below(8),
                    1 => g2[rng.usize(36)] ^= 1 << rng.below(8),
                    2 => g1 = rng.bytes(rng.clone().usize(12)),
                    _ => g2 = rng.bytes(rng.clone().usize(12)),
                }
                body = field(1, &g1);
                body.extend(field(2, &g2));
            }
            9 => {
                cls = "unknown-fields";
                body = vec![];
                let mut parts: Vec<Vec<u8>> = vec![field(1, &id(&kp_a)), field(2, &pk(if rng.bool() { &kp_a } else { &kp_b }))];
                for _ in 0..rng.range(1, 3) {
                    let tag = rng.range(3, 20);
                    let p = match rng.below(4) {
                        0 => {
                            let mut v = leb(tag << 3);
                            v.extend(leb(rng.next_u64() >> rng.below(64)));
                            v
                        }
                        1 => {
                            let mut v = leb((tag << 3) | 1);
                            v.extend(rng.bytes(8));
                            v
                        }
                        2 => {
                            let mut v = leb((tag << 3) | 5);
                            v.extend(rng.bytes(4));
                            v
                        }
                        _ => {
                            let mut v = leb((tag << 3) | 2);
                            let b = rng.bytes(rng.clone().usize(6));
                            v.extend(leb(b.len() as u64));
                            v.extend(b);
                            v
                        }
                    };
                    parts.insert(rng.usize(parts.len() + 1), p);
                }
                for p in parts {
                    body.extend(p);
                }
            }
            10 => {
                cls = "bad-wire";
                // field 1/2 with a non-length-delimited wire type, invalid wire types, tag 0, groups
                body = vec![];
                match rng.below(7) {
                    0 => body.extend([0x08, 0x05]),
                    1 => body.extend([0x15, 1, 2, 3, 4]),
                    2 => body.extend([0x1e]),
                    3 => body.extend([0x1f]),
                    4 => body.extend([0x02, 0x00]),
                    5 => body.extend([0x1c]),
                    _ => body.extend([0x1b, 0x1c]),
                }
                if rng.bool() {
                    let mut b2 = field(1, &id(&kp_a));
                    b2.extend(field(2, &pk(&kp_a)));
                    b2.extend(body.clone());
                    body = b2;
                }
            }
            11 => {
                cls = "length-edge";
                // protobuf body sizes around the 100-byte limit, padded by an unknown field
                let mut b = field(1, &id(&kp_a));
                b.extend(field(2, &pk(&kp_a)));
                let want = *rng.pick(&[99usize, 100, 101, 102, 127, 128, 130]);
                let pad = want.saturating_sub(b.len() + 2);
                b.extend(field(5, &vec![0xAA; pad]));
                body = b;
            }
            12 => {
                cls = "uvi-prefix";
                // non-canonical / overflowing / wrapping length prefixes
                let mut b = field(1, &id(&kp_a));
                b.extend(field(2, &pk(&kp_a)));
                let l = b.len() as u8;
                let prefix: Vec<u8> = match rng.below(6) {
                    0 => vec![l | 0x80, 0x00],
                    1 => vec![l | 0x80, 0x80, 0x00],
                    2 => vec![l | 0x80, 0x80, 0x80, 0x80, 0x80, 0x80, 0x80, 0x80, 0x80, 0x02],
                    3 => vec![0x80; 11],
                    4 => vec![l | 0x80, 0x80, 0x80, 0x80, 0x80, 0x80, 0x80, 0x80, 0x80, 0x7e],
                    _ => vec![0xff, 0xff, 0xff, 0xff, 0xff, 0xff, 0xff, 0xff, 0xff, 0x01],
                };
                let mut s = prefix;
                s.extend(b.clone());
                raw_stream = Some(s);
                body = b;
            }
            13 => {
                cls = "truncated";
                let mut b = field(1, &id(k1));
                b.extend(field(2, &pk(k1)));
                let f = frame(&b);
                let cut = rng.usize(f.len());
                raw_stream = Some(f[..cut].to_vec());
                body = b;
            }
            14 => {
                cls = "random-bytes";
                let len = rng.usize(40);
                raw_stream = Some(rng.bytes(len));
                body = vec![];
            }
            _ => {
                cls = "mutated-honest";
                let mut b = field(1, &id(&kp_a));
                b.extend(field(2, &pk(&kp_a)));
                let mut f = frame(&b);
                let p = rng.usize(f.len());
                f[p] ^= 1 << rng.below(8);
                raw_stream = Some(f);
                body = b;
            }
        }
        cands.push(id(k1));
        cands.push(id(k2));
        cands.push(pk(k1));
        cands.push(id(&kp_a));
        cands.push(pk(&kp_a));
        cands.push(id(&kp_b));
        cands.push(pk(&kp_b));
        let with_data = !matches!(cls, "truncated") && rng.chance(4, 5);
        let data = if with_data { rng.bytes(rng.clone().usize(48)) } else { vec![] };
        let mut stream = raw_stream.unwrap_or_else(|| frame(&body));
        stream.extend_from_slice(&data);
        let chunks = split_random(&mut rng, &stream);
        out.case(*idx, &format!("plaintext-{cls} nt=1"));
        plaintext_run(out, &chunks, &cands, &read_plan(&mut rng, data.len()));
        out.end();
        *idx += 1;
    }
}

// ------------------------------------------------------------------------------------ pnet

#[derive(Clone, Copy, Debug)]
enum Resp {
    Acc(usize),
    Pend,
    Err,
    Intr,
}

#[derive(Default)]
struct Wire {
    a2b: Vec<u8>,
    b2a: Vec<u8>,
    a_rd: usize,
    b_rd: usize,
    /// `None` = accept everything (handshake phase)
    script: Option<VecDeque<Resp>>,
    b_limit: usize,
}

struct SockA(Arc<Mutex<Wire>>);
struct SockB(Arc<Mutex<Wire>>);

impl AsyncRead for SockA {
    fn poll_read(self: Pin<&mut Self>, _: &mut Context<'_>, buf: &mut [u8]) -> Poll<std::io::Result<usize>> {
        let mut w = self.0.lock().unwrap();
        let n = buf.len().min(w.b2a.len() - w.a_rd);
        if n == 0 {
            return Poll::Pending;
        }
        let s = w.a_rd;
        buf[..n].copy_from_slice(&w.b2a[s..s + n]);
        w.a_rd += n;
        Poll::Ready(Ok(n))
    }
}
impl AsyncWrite for SockA {
    fn poll_write(self: Pin<&mut Self>, _: &mut Context<'_>, buf: &[u8]) -> Poll<std::io::Result<usize>> {
        let mut w = self.0.lock().unwrap();
        let r = match &mut w.script {
            None => Resp::Acc(usize::MAX),
            Some(s) => s.pop_front().unwrap_or(Resp::Pend),
        };
        match r {
            Resp::Acc(k) => {
                let n = k.min(buf.len());
                w.a2b.extend_from_slice(&buf[..n]);
                Poll::Ready(Ok(n))
            }
            Resp::Pend => {
                // put nothing back: an exhausted script keeps answering Pending
                Poll::Pending
            }
            Resp::Err => Poll::Ready(Err(std::io::Error::other("scripted"))),
            Resp::Intr => Poll::Ready(Err(std::io::Error::new(std::io::ErrorKind::Interrupted, "scripted"))),
        }
    }
    fn poll_flush(self: Pin<&mut Self>, _: &mut Context<'_>) -> Poll<std::io::Result<()>> {
        Poll::Ready(Ok(()))
    }
    fn poll_close(self: Pin<&mut Self>, _: &mut Context<'_>) -> Poll<std::io::Result<()>> {
        Poll::Ready(Ok(()))
    }
}
impl AsyncRead for SockB {
    fn poll_read(self: Pin<&mut Self>, _: &mut Context<'_>, buf: &mut [u8]) -> Poll<std::io::Result<usize>> {
        let mut w = self.0.lock().unwrap();
        let n = buf.len().min(w.a2b.len() - w.b_rd).min(w.b_limit);
        if n == 0 {
            return Poll::Pending;
        }
        let s = w.b_rd;
        buf[..n].copy_from_slice(&w.a2b[s..s + n]);
        w.b_rd += n;
        Poll::Ready(Ok(n))
    }
}
impl AsyncWrite for SockB {
    fn poll_write(self: Pin<&mut Self>, _: &mut Context<'_>, buf: &[u8]) -> Poll<std::io::Result<usize>> {
        self.0.lock().unwrap().b2a.extend_from_slice(buf);
        Poll::Ready(Ok(buf.len()))
    }
    fn poll_flush(self: Pin<&mut Self>, _: &mut Context<'_>) -> Poll<std::io::Result<()>> {
        Poll::Ready(Ok(()))
    }
    fn poll_close(self: Pin<&mut Self>, _: &mut Context<'_>) -> Poll<std::io::Result<()>> {
        Poll::Ready(Ok(()))
    }
}

#[derive(Clone, Debug)]
enum POp {
    W(Vec<u8>, Vec<Resp>),
    F(Vec<Resp>),
    C(Vec<Resp>),
    R(usize, usize),
}

fn script_tok(s: &[Resp]) -> String {
    if s.is_empty() {
        return "-".into();
    }
    s.iter()
        .map(|r| match r {
            Resp::Acc(k) => format!("a{k}"),
            Resp::Pend => "p".into(),
            Resp::Err => "e".into(),
            Resp::Intr => "i".into(),
        })
        .collect::<Vec<_>>()
        .join(",")
}

fn parse_script(t: &str) -> Vec<Resp> {
    if t == "-" {
        return vec![];
    }
    t.split(',')
        .map(|x| match x {
            "p" => Resp::Pend,
            "e" => Resp::Err,
            "i" => Resp::Intr,
            a => Resp::Acc(a[1..].parse().unwrap()),
        })
        .collect()
}

fn io_res_tok<T>(r: &Poll<std::io::Result<T>>, f: impl Fn(&T) -> usize) -> String {
    match r {
        Poll::Pending => "pending".into(),
        Poll::Ready(Ok(v)) => format!("ok:{}", f(v)),
        Poll::Ready(Err(e)) if e.kind() == std::io::ErrorKind::WriteZero => "err:WriteZero".into(),
        Poll::Ready(Err(_)) => "err:Inner".into(),
    }
}

fn pnet_run(out: &mut Out, idx: u64, cls: &str, key: [u8; 32], ops: &[POp]) {
    let wire = Arc::new(Mutex::new(Wire { b_limit: usize::MAX, ..Default::default() }));
    let psk = PreSharedKey::new(key);
    let mut fa = Box::pin(PnetConfig::new(psk).handshake(SockA(wire.clone())));
    let mut fb = Box::pin(PnetConfig::new(psk).handshake(SockB(wire.clone())));
    let w = noop_waker();
    let mut cx = Context::from_waker(&w);
    let (mut ra, mut rb) = (None, None);
    for _ in 0..100 {
        if ra.is_none() {
            if let Poll::Ready(v) = fa.as_mut().poll(&mut cx) {
                ra = Some(v);
            }
        }
        if rb.is_none() {
            if let Poll::Ready(v) = fb.as_mut().poll(&mut cx) {
                rb = Some(v);
            }
        }
        if ra.is_some() && rb.is_some() {
            break;
        }
    }
    let total: usize = ops.iter().map(|o| if let POp::W(d, _) = o { d.len() } else { 0 }).sum();
    let (nonce_a, la, lb) = {
        let w = wire.lock().unwrap();
        let mut n = [0u8; 24];
        if w.a2b.len() >= 24 {
            n.copy_from_slice(&w.a2b[..24]);
        }
        (n, w.a2b.len(), w.b2a.len())
    };
    // the keystream A's writer (and B's reader) uses, computed independently of libp2p-pnet
    let mut ks = vec![0u8; total.max(1)];
    salsa20::XSalsa20::new(&key.into(), &nonce_a.into()).apply_keystream(&mut ks);
    out.case(idx, &format!("pnet-{cls} nt=1 ks={}", hex(&ks)));
    out.op("hs");
    let (mut a, mut b) = match (ra, rb) {
        (Some(Ok(a)), Some(Ok(b))) => {
            out.imp(&format!("ok {la} {lb}"));
            (a, b)
        }
        _ => {
            out.imp("failed");
            out.end();
            return;
        }
    };
    wire.lock().unwrap().script = Some(VecDeque::new());
    for op in ops {
        let before = wire.lock().unwrap().a2b.len();
        let set = |s: &Vec<Resp>| wire.lock().unwrap().script = Some(s.iter().cloned().collect());
        let fin = |r: String| {
            let w = wire.lock().unwrap();
            format!("{r} {} {}", w.script.as_ref().map(|s| s.len()).unwrap_or(0), hex(&w.a2b[before..]))
        };
        match op {
            POp::W(d, s) => {
                out.op(&format!("w {} {}", hex(d), script_tok(s)));
                set(s);
                match hcore::guarded(|| Pin::new(&mut a).poll_write(&mut cx, d)) {
                    Ok(r) => out.imp(&fin(io_res_tok(&r, |n| *n))),
                    Err(m) => out.imp(&format!("panic {m}")),
                }
            }
            POp::F(s) => {
                out.op(&format!("f {}", script_tok(s)));
                set(s);
                match hcore::guarded(|| Pin::new(&mut a).poll_flush(&mut cx)) {
                    Ok(r) => out.imp(&fin(io_res_tok(&r, |_| 0))),
                    Err(m) => out.imp(&format!("panic {m}")),
                }
            }
            POp::C(s) => {
                out.op(&format!("c {}", script_tok(s)));
                set(s);
                match hcore::guarded(|| Pin::new(&mut a).poll_close(&mut cx)) {
                    Ok(r) => out.imp(&fin(io_res_tok(&r, |_| 0))),
                    Err(m) => out.imp(&format!("panic {m}")),
                }
            }
            POp::R(n, m) => {
                out.op(&format!("r {n} {m}"));
                wire.lock().unwrap().b_limit = *m;
                let mut buf = vec![0u8; *n];
                match hcore::guarded(|| Pin::new(&mut b).poll_read(&mut cx, &mut buf)) {
                    Ok(Poll::Ready(Ok(k))) => out.imp(&format!("some {}", hex(&buf[..k]))),
                    Ok(Poll::Ready(Err(e))) => out.imp(&format!("err:{:?}", e.kind())),
                    Ok(Poll::Pending) => out.imp("pending"),
                    Err(m) => out.imp(&format!("panic {m}")),
                }
            }
        }
    }
    out.end();
}

fn rand_script(rng: &mut Rng, len_hint: usize) -> Vec<Resp> {
    let mut s = vec![];
    let style = rng.below(6);
    for _ in 0..rng.usize(7) {
        let r = match style {
            0 => Resp::Acc(usize::MAX >> 1),
            1 => Resp::Acc(1),
            _ => match rng.below(20) {
                0 => Resp::Err,
                1 => Resp::Acc(0),
                2 | 3 => Resp::Intr,
                4 | 5 | 6 => Resp::Pend,
                7 | 8 => Resp::Acc(usize::MAX >> 1),
                9 | 10 => Resp::Acc(len_hint / 2),
                11 => Resp::Acc(len_hint),
                12 => Resp::Acc(len_hint.saturating_sub(1)),
                _ => Resp::Acc(rng.range(1, 9) as usize),
            },
        };
        s.push(r);
    }
    s
}

fn pnet_cases(args: &Args, out: &mut Out, idx: &mut u64) {
    let n = args.n(250, 20_000);
    for i in 0..n {
        let mut rng = Rng::for_case(args.seed, 0xC19_6000 + i);
        let kb = rng.bytes(32);
        let key: [u8; 32] = core::array::from_fn(|j| kb[j]);
        let mut ops = vec![];
        let mut buffered_hint = 0usize;
        let benign = rng.chance(1, 2); // no error answers: the stream stays alive to the end
        for _ in 0..rng.range(2, 14) {
            match rng.below(10) {
                0..=4 => {
                    let len = match rng.below(10) {
                        0 => 0,
                        1 => 1,
                        2 => 2,
                        3 => *rng.pick(&[1023usize, 1024, 1025]),
                        4 => rng.range(1025, 2500) as usize,
                        _ => rng.range(1, 80) as usize,
                    };
                    let d = rng.bytes(len);
                    let mut s = rand_script(&mut rng, len.max(buffered_hint));
                    if benign {
                        s.retain(|r| !matches!(r, Resp::Err | Resp::Acc(0)));
                    }
                    buffered_hint = len;
                    ops.push(POp::W(d, s));
                }
                5 | 6 => {
                    let mut s = rand_script(&mut rng, buffered_hint);
                    if benign {
                        s.retain(|r| !matches!(r, Resp::Err | Resp::Acc(0)));
                    }
                    ops.push(if rng.chance(1, 6) { POp::C(s) } else { POp::F(s) });
                }
                _ => ops.push(POp::R(rng.range(1, 64) as usize, *rng.pick(&[1usize, 2, 7, 64, 100_000]))),
            }
        }
        // flush everything, then read it all back
        ops.push(POp::F(vec![Resp::Intr, Resp::Acc(3), Resp::Acc(usize::MAX >> 1)]));
        ops.push(POp::F(vec![Resp::Acc(usize::MAX >> 1)]));
        let total: usize = ops.iter().map(|o| if let POp::W(d, _) = o { d.len() } else { 0 }).sum();
        let step = *rng.pick(&[1usize, 13, 64, 1000, 100_000]);
        let mut got = 0;
        while got <= total && ops.len() < 120 {
            let m = *rng.pick(&[1usize, 5, 100_000, 100_000]);
            ops.push(POp::R(step, m));
            got += step.min(m);
        }
        ops.push(POp::R(100_000, 100_000));
        ops.push(POp::R(1, 1));
        pnet_run(out, *idx, if benign { "benign" } else { "faulty" }, key, &ops);
        *idx += 1;
    }
}

// ------------------------------------------------------------------------------------ replay

fn kv<'a>(toks: &'a [String], k: &str) -> Option<&'a str> {
    toks.iter().find_map(|t| t.strip_prefix(k).and_then(|r| r.strip_prefix('=')))
}

fn replay(cases: Vec<(Vec<String>, Vec<Vec<String>>)>, out: &mut Out) {
    for (i, (hdr, ops)) in cases.iter().enumerate() {
        let cls = hdr.get(1).map(|s| s.as_str()).unwrap_or("");
        if cls.starts_with("pnet") {
            let mut pops = vec![];
            for op in ops {
                match op[0].as_str() {
                    "w" => pops.push(POp::W(unhex(&op[1]), parse_script(&op[2]))),
                    "f" => pops.push(POp::F(parse_script(&op[1]))),
                    "c" => pops.push(POp::C(parse_script(&op[1]))),
                    "r" => pops.push(POp::R(op[1].parse().unwrap(), op[2].parse().unwrap())),
                    _ => {}
                }
            }
            pnet_run(out, i as u64, "replay", [0x42; 32], &pops);
            continue;
        }
        if cls.starts_with("plaintext") {
            out.case(i as u64, "plaintext-replay nt=1");
            if let Some(hs) = ops.iter().find(|o| o[0] == "hs") {
                let chunks: Vec<Vec<u8>> = match kv(hs, "chunks") {
                    Some("~") | None => vec![],
                    Some(c) => c.split(',').map(unhex).collect(),
                };
                let mut cands = vec![];
                for t in ["K", "I"] {
                    if let Some(tab) = kv(hs, t) {
                        if tab != "~" {
                            for e in tab.split(';') {
                                cands.push(unhex(e.split(':').next().unwrap()));
                            }
                        }
                    }
                }
                let reads: Vec<usize> = ops.iter().filter(|o| o[0] == "rd").map(|o| o[1].parse().unwrap()).collect();
                plaintext_run(out, &chunks, &cands, &reads);
            }
            out.end();
            continue;
        }
        out.case(i as u64, "keyfile-replay nt=1");
        for op in ops {
            match op[0].as_str() {
                "parse" => match String::from_utf8(unhex(&op[1])) {
                    Ok(t) => op_parse(out, &t),
                    Err(_) => {
                        out.op(&format!("parse {}", op[1]));
                        out.imp("not-utf8");
                    }
                },
                "roundtrip" => {
                    let b = unhex(&op[1]);
                    if b.len() == 32 {
                        op_roundtrip(out, core::array::from_fn(|j| b[j]));
                    }
                }
                _ => {}
            }
        }
        out.end();
    }
}

pub fn run(args: &Args, out: &mut Out) {
    if let Some(cases) = args.replay_cases() {
        replay(cases, out);
        return;
    }
    let mut idx = 0u64;
    let only = args.extra.first().map(|s| s.as_str());
    if only.is_none() || only == Some("keyfile") {
        keyfile_cases(args, out, &mut idx);
    }
    if only.is_none() || only == Some("plaintext") {
        plaintext_cases(args, out, &mut idx);
    }
    if only.is_none() || only == Some("pnet") {
        pnet_cases(args, out, &mut idx);
    }
}
