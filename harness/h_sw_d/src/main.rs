//! Harness binary `h_sw_d <PROP> --seed S --tier T [--count N] [--replay F]`.
//! Reuses the deterministic Swarm rig of h_swarm (scripted transport / muxer / probe behaviour).
#[path = "../../h_swarm/src/sim.rs"]
mod sim;
mod c52;
mod c53;
mod runner;

fn main() {
    let args = hcore::Args::parse();
    hcore::quiet_panics();
    let mut out = hcore::Out::new();
    match args.prop.as_str() {
        "C52" => c52::run(&args, &mut out),
        "C53" => c53::run(&args, &mut out),
        p => {
            eprintln!("h_sw_d: unknown property {p}");
            std::process::exit(2);
        }
    }
    out.flush();
}
