//! C52 — connection limits are never exceeded: a real `Swarm<{limits, probe}>` over the scripted
//! transport, one move at a time.  The real `connection_limits::Behaviour` decides the denials; the
//! impl line carries the Swarm's events/counters plus a snapshot of the behaviour's five id sets
//! (hook `verif_c52::snapshot`) and of `is_bypassed` for every peer.
use crate::runner::*;
use crate::sim::Probe;
use hcore::{Args, Multiaddr, Out, Protocol, Rng};
use libp2p_connection_limits::{Behaviour as Limits, ConnectionLimits};
use libp2p_swarm::NetworkBehaviour;

#[derive(NetworkBehaviour)]
#[behaviour(prelude = "libp2p_swarm::derive_prelude")]
pub struct B {
    limits: Limits,
    probe: Probe,
}

type Lims = [Option<u32>; 6];

fn mk_limits(l: &Lims) -> ConnectionLimits {
    ConnectionLimits::default()
        .with_max_pending_incoming(l[0])
        .with_max_pending_outgoing(l[1])
        .with_max_established_incoming(l[2])
        .with_max_established_outgoing(l[3])
        .with_max_established_per_peer(l[4])
        .with_max_established(l[5])
}

fn lims_tok(l: &Lims) -> String {
    l.iter().map(|x| x.map(|v| v.to_string()).unwrap_or("n".into())).collect::<Vec<_>>().join(",")
}

fn parse_lims(s: &str) -> Lims {
    let v: Vec<Option<u32>> = s.split(',').map(|x| if x == "n" { None } else { Some(x.parse().unwrap()) }).collect();
    [v[0], v[1], v[2], v[3], v[4], v[5]]
}

#[derive(Clone, Debug)]
enum COp {
    Sw(Op),
    Bypass(usize),
    Unbypass(usize),
    SetLimits(Lims),
}

impl COp {
    fn render(&self) -> String {
        match self {
            COp::Sw(op) => op.render(),
            COp::Bypass(p) => format!("bypass {p}"),
            COp::Unbypass(p) => format!("unbypass {p}"),
            COp::SetLimits(l) => format!("setlimits {}", lims_tok(l)),
        }
    }
    fn parse(t: &[String]) -> COp {
        match t[0].as_str() {
            "bypass" => COp::Bypass(t[1].parse().unwrap()),
            "unbypass" => COp::Unbypass(t[1].parse().unwrap()),
            "setlimits" => COp::SetLimits(parse_lims(&t[1])),
            _ => COp::Sw(Op::parse(t).unwrap_or_else(|| panic!("replay: unknown op {}", t[0]))),
        }
    }
}

fn ids_tok(r: &Runner<B>, ids: &[libp2p_swarm::ConnectionId]) -> String {
    let mut v: Vec<usize> = ids.iter().map(|id| r.conn_name(id).unwrap_or(999_999)).collect();
    v.sort();
    hcore::list(&v)
}

/// `lim=<pendIn>/<pendOut>/<estIn>/<estOut>/<peer:ids;…> byp=<peers>`
fn snapshot_tok(r: &mut Runner<B>) -> String {
    let s = libp2p_connection_limits::verif_c52::snapshot(&r.sim.swarm.behaviour().limits);
    let mut pp: Vec<(usize, String)> = s.established_per_peer.iter().map(|(p, ids)| (r.peer_name(p), ids_tok(r, ids))).collect();
    pp.sort();
    let pp: Vec<String> = pp.into_iter().map(|(p, ids)| format!("{p}:{ids}")).collect();
    let byp: Vec<usize> = (0..r.peers.len()).filter(|i| r.sim.swarm.behaviour().limits.is_bypassed(&r.peers[*i])).collect();
    format!(
        "lim={}/{}/{}/{}/{} byp={}",
        ids_tok(r, &s.pending_inbound),
        ids_tok(r, &s.pending_outbound),
        ids_tok(r, &s.established_inbound),
        ids_tok(r, &s.established_outbound),
        if pp.is_empty() { "-".to_string() } else { pp.join(";") },
        hcore::list(&byp)
    )
}

fn new_runner(l: &Lims) -> Runner<B> {
    let lims = mk_limits(l);
    Runner::new(move |probe| B { limits: Limits::new(lims), probe })
}

fn step(r: &mut Runner<B>, op: &COp, out: &mut Out) {
    let res = hcore::guarded(|| match op {
        COp::Sw(o) => r.exec(o),
        COp::Bypass(p) => {
            let id = r.peers[*p];
            r.sim.swarm.behaviour_mut().limits.bypass_peer_id(&id);
            ("res=-".to_string(), r.settle())
        }
        COp::Unbypass(p) => {
            let id = r.peers[*p];
            r.sim.swarm.behaviour_mut().limits.remove_peer_id(&id);
            ("res=-".to_string(), r.settle())
        }
        COp::SetLimits(l) => {
            *r.sim.swarm.behaviour_mut().limits.limits_mut() = mk_limits(l);
            ("res=-".to_string(), r.settle())
        }
    });
    r.emit(&op.render(), res, &snapshot_tok, out);
}

struct Gen {
    addrs: Vec<Multiaddr>,
    /// expected peer of the k-th transport dial
    dial_peer: Vec<Option<usize>>,
    /// share (in quarters) of the dials made with `DialOpts::override_role()`
    ov4: u64,
}

impl Gen {
    fn limit(rng: &mut Rng) -> Option<u32> {
        match rng.below(10) {
            0..=2 => None,
            3 => Some(0),
            4..=6 => Some(1),
            7 | 8 => Some(2),
            _ => Some(3),
        }
    }
    fn lims(rng: &mut Rng) -> Lims {
        // one class keeps most limits off so that the remaining ones are actually reached
        let sparse = rng.chance(1, 2);
        let mut l: Lims = [None; 6];
        for x in l.iter_mut() {
            if !sparse || rng.chance(1, 3) {
                *x = Self::limit(rng);
            }
        }
        l
    }
    fn open_dials(r: &Runner<B>) -> Vec<usize> {
        r.sim.tstate.lock().unwrap().dials.iter().enumerate().filter(|(_, d)| d.1.is_some()).map(|(i, _)| i).collect()
    }
    fn open_incoming(r: &Runner<B>) -> Vec<usize> {
        r.sim.tstate.lock().unwrap().incoming.iter().enumerate().filter(|(_, d)| d.is_some()).map(|(i, _)| i).collect()
    }
    fn remote(rng: &mut Rng) -> usize {
        // three busy peers, one rare
        match rng.below(12) {
            0 => 4,
            x => 1 + (x as usize % 3),
        }
    }
    fn next(&mut self, rng: &mut Rng, r: &Runner<B>, peers: &[libp2p_core::PeerId]) -> COp {
        let n_dials = r.sim.tstate.lock().unwrap().dials.len();
        let n_conns = r.sim.world.lock().unwrap().conn_names.len();
        let some_conn = |rng: &mut Rng| if n_conns == 0 { 0 } else { rng.usize(n_conns + 1) };
        COp::Sw(match rng.below(100) {
            0..=21 => {
                let peer = if rng.chance(1, 6) { None } else { Some(Self::remote(rng)) };
                let mut addrs: Vec<Multiaddr> = (0..1 + rng.usize(2)).map(|_| rng.pick(&self.addrs).clone()).collect();
                if peer.is_none() {
                    addrs.truncate(1);
                    // an address-only dial may still name its peer
                    if rng.chance(1, 2) {
                        addrs[0].push(Protocol::P2p(peers[Self::remote(rng)]));
                    }
                } else if rng.chance(1, 8) {
                    addrs.clear();
                }
                let refuse = if rng.chance(1, 6) { vec![rng.pick(&self.addrs).clone()] } else { vec![] };
                Op::Dial {
                    via_beh: rng.chance(1, 6),
                    cond: if peer.is_none() || rng.chance(3, 4) { 0 } else { rng.below(4) as u8 },
                    peer,
                    addrs,
                    extend: false,
                    beh_addrs: vec![],
                    deny: rng.chance(1, 14),
                    refuse,
                    ov: self.ov4 > 0 && rng.chance(self.ov4, 4),
                }
            }
            22..=43 => {
                let open = Self::open_dials(r);
                let k = if !open.is_empty() && rng.chance(9, 10) { *rng.pick(&open) } else { rng.usize(n_dials + 1) };
                let expected = self.dial_peer.get(k).copied().flatten();
                let peer = match (expected, rng.below(12)) {
                    (_, 0) => 0,
                    (Some(p), 1..=10) => p,
                    _ => Self::remote(rng),
                };
                Op::Resolve { k, peer, deny: rng.chance(1, 14) }
            }
            44..=48 => {
                let open = Self::open_dials(r);
                Op::Fail { k: if !open.is_empty() && rng.chance(4, 5) { *rng.pick(&open) } else { rng.usize(n_dials + 1) } }
            }
            49..=62 => Op::Incoming { deny: rng.chance(1, 14) },
            63..=76 => {
                let open = Self::open_incoming(r);
                let k = if !open.is_empty() && rng.chance(9, 10) { *rng.pick(&open) } else { rng.usize(r.n_incoming + 1) };
                Op::ResolveIn { k, peer: if rng.chance(1, 14) { 0 } else { Self::remote(rng) }, deny: rng.chance(1, 14) }
            }
            77..=79 => {
                let open = Self::open_incoming(r);
                Op::FailIn { k: if !open.is_empty() && rng.chance(4, 5) { *rng.pick(&open) } else { rng.usize(r.n_incoming + 1) } }
            }
            80..=84 => Op::Close { c: some_conn(rng) },
            85..=86 => Op::Disconnect { peer: Self::remote(rng) },
            87..=89 => Op::RemoteClose { c: some_conn(rng) },
            90..=91 => Op::BehClose { peer: Self::remote(rng), one: if rng.bool() { Some(some_conn(rng)) } else { None } },
            92..=95 => return COp::Bypass(Self::remote(rng)),
            96..=98 => return COp::Unbypass(Self::remote(rng)),
            _ => return COp::SetLimits(Self::lims(rng)),
        })
    }
    /// remember which peer the transport dials created by this op were for
    fn after(&mut self, op: &COp, r: &Runner<B>) {
        let n = r.sim.tstate.lock().unwrap().dials.len();
        let p = match op {
            COp::Sw(Op::Dial { peer, .. }) => *peer,
            _ => None,
        };
        while self.dial_peer.len() < n {
            self.dial_peer.push(p);
        }
    }
}

pub fn run(args: &Args, out: &mut Out) {
    if let Some(cases) = args.replay_cases() {
        for (i, (hdr, ops)) in cases.iter().enumerate() {
            let l = hdr.iter().find_map(|t| t.strip_prefix("lim=")).map(parse_lims).unwrap_or([None; 6]);
            out.case(i as u64, &format!("replay nt=1 lim={} peers={}", lims_tok(&l), peers_tok()));
            let mut r = new_runner(&l);
            for t in ops {
                if t[0] == "order" {
                    continue;
                }
                step(&mut r, &COp::parse(&strip_oracles(t)), out);
            }
            out.end();
        }
        return;
    }
    let n = args.n(400, 20_000);
    for i in 0..n {
        let mut rng = Rng::for_case(args.seed, i);
        let mut l = Gen::lims(&mut rng);
        // role-override (hole punching) dials: none / a quarter / three quarters of the dials; the
        // last class keeps the outgoing limits tight so that override dials run into them
        let ov4 = [0u64, 1, 1, 3][rng.usize(4)];
        if ov4 == 3 {
            l[3] = Some(1 + rng.below(2) as u32);
            if rng.bool() {
                l[1] = Some(1 + rng.below(2) as u32);
            }
            if rng.chance(1, 3) {
                l[4] = Some(1);
            }
            if rng.chance(1, 3) {
                l[5] = Some(2 + rng.below(2) as u32);
            }
        }
        let len = 8 + rng.usize(50);
        let class = ["script", "override", "override", "holepunch"][match ov4 { 0 => 0, 1 => 1, _ => 3 }];
        out.case(i, &format!("{class} nt=1 len={len} lim={} peers={}", lims_tok(&l), peers_tok()));
        let mut r = new_runner(&l);
        let mut g = Gen { addrs: base_addrs(), dial_peer: vec![], ov4 };
        let ps = r.peers.clone();
        for _ in 0..len {
            let op = g.next(&mut rng, &r, &ps);
            step(&mut r, &op, out);
            g.after(&op, &r);
        }
        out.end();
    }
}
