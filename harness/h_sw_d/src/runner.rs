//! Script runner over the shared deterministic Swarm rig (`sim.rs`), generic in the behaviour:
//! the behaviour must contain a `sim::Probe` whose `script`/`queue` handles are given to `Runner::new`.
//! Same op vocabulary and line layout as `h_swarm/src/core.rs` (two op/impl pairs per move:
//! canonical sorted log + raw ordered log), plus a property-specific suffix on the impl line.
#![allow(dead_code)]
use crate::sim::*;
use hcore::{maddr_list_tok, Multiaddr, Out, Protocol};
use libp2p_core::transport::ListenerId;
use libp2p_core::PeerId;
use libp2p_swarm::dial_opts::{DialOpts, PeerCondition};
use libp2p_swarm::{CloseConnection, ConnectionId, NetworkBehaviour, ToSwarm};
use std::collections::{HashMap, VecDeque};
use std::sync::{Arc, Mutex};

#[derive(Clone, Debug)]
pub enum Op {
    Dial { via_beh: bool, cond: u8, peer: Option<usize>, addrs: Vec<Multiaddr>, extend: bool, beh_addrs: Vec<Multiaddr>, deny: bool, refuse: Vec<Multiaddr>, ov: bool },
    Resolve { k: usize, peer: usize, deny: bool },
    Fail { k: usize },
    Incoming { deny: bool },
    ResolveIn { k: usize, peer: usize, deny: bool },
    FailIn { k: usize },
    Close { c: usize },
    Disconnect { peer: usize },
    RemoteClose { c: usize },
    BehClose { peer: usize, one: Option<usize> },
}

pub fn peers() -> Vec<PeerId> {
    (0..5u8).map(hcore::peer).collect()
}

pub fn peers_tok() -> String {
    peers().iter().map(|p| hcore::hex(&p.to_bytes())).collect::<Vec<_>>().join(";")
}

pub fn base_addrs() -> Vec<Multiaddr> {
    (0..6u8)
        .map(|i| {
            let mut a = Multiaddr::empty();
            a.push(Protocol::Ip4([10, 0, 0, i + 1].into()));
            a.push(Protocol::Tcp(1000 + i as u16));
            a
        })
        .collect()
}

fn cond_name(c: u8) -> &'static str {
    ["always", "disc", "notdialing", "dnd"][c as usize]
}

pub fn parse_maddr(tok: &str) -> Multiaddr {
    let mut a = Multiaddr::empty();
    if tok == "-" {
        return a;
    }
    for c in tok.split('/') {
        let mut it = c.splitn(2, ':');
        let name = it.next().unwrap();
        let v = it.next().unwrap_or("");
        a.push(match name {
            "ip4" => Protocol::Ip4(v.parse::<u32>().unwrap().into()),
            "tcp" => Protocol::Tcp(v.parse().unwrap()),
            "p2p" => Protocol::P2p(PeerId::from_bytes(&hcore::unhex(v)).unwrap()),
            "p2p-circuit" => Protocol::P2pCircuit,
            other => panic!("replay: unsupported component {other}"),
        });
    }
    a
}

fn parse_list(tok: &str) -> Vec<Multiaddr> {
    if tok == "~" {
        vec![]
    } else {
        tok.split(';').map(parse_maddr).collect()
    }
}

impl Op {
    pub fn render(&self) -> String {
        match self {
            Op::Dial { via_beh, cond, peer, addrs, extend, beh_addrs, deny, refuse, ov } => format!(
                "dial {} {} {} {} {} {} {} {} ov={}",
                if *via_beh { "beh" } else { "api" },
                cond_name(*cond),
                peer.map(|p| p.to_string()).unwrap_or("none".into()),
                maddr_list_tok(addrs),
                *extend as u8,
                maddr_list_tok(beh_addrs),
                *deny as u8,
                maddr_list_tok(refuse),
                *ov as u8
            ),
            Op::Resolve { k, peer, deny } => format!("resolve {k} {peer} {}", *deny as u8),
            Op::Fail { k } => format!("fail {k}"),
            Op::Incoming { deny } => format!("incoming {}", *deny as u8),
            Op::ResolveIn { k, peer, deny } => format!("resolveIn {k} {peer} {}", *deny as u8),
            Op::FailIn { k } => format!("failIn {k}"),
            Op::Close { c } => format!("close {c}"),
            Op::Disconnect { peer } => format!("disconnect {peer}"),
            Op::RemoteClose { c } => format!("remoteClose {c}"),
            Op::BehClose { peer, one } => format!("behClose {peer} {}", one.map(|c| c.to_string()).unwrap_or("all".into())),
        }
    }
    /// `None` = not a Swarm op (the property module has its own ops)
    pub fn parse(t: &[String]) -> Option<Op> {
        let n = |i: usize| t[i].parse::<usize>().unwrap();
        Some(match t[0].as_str() {
            "dial" => Op::Dial {
                via_beh: t[1] == "beh",
                cond: ["always", "disc", "notdialing", "dnd"].iter().position(|c| *c == t[2]).unwrap() as u8,
                peer: if t[3] == "none" { None } else { Some(n(3)) },
                addrs: parse_list(&t[4]),
                extend: t[5] == "1",
                beh_addrs: parse_list(&t[6]),
                deny: t[7] == "1",
                refuse: parse_list(&t[8]),
                ov: t.iter().any(|x| x == "ov=1"),
            },
            "resolve" => Op::Resolve { k: n(1), peer: n(2), deny: t[3] == "1" },
            "fail" => Op::Fail { k: n(1) },
            "incoming" => Op::Incoming { deny: t[1] == "1" },
            "resolveIn" => Op::ResolveIn { k: n(1), peer: n(2), deny: t[3] == "1" },
            "failIn" => Op::FailIn { k: n(1) },
            "close" => Op::Close { c: n(1) },
            "disconnect" => Op::Disconnect { peer: n(1) },
            "remoteClose" => Op::RemoteClose { c: n(1) },
            "behClose" => Op::BehClose { peer: n(1), one: if t[2] == "all" { None } else { Some(n(2)) } },
            _ => return None,
        })
    }
}

/// strip the oracle tokens of a replayed op line (they are recomputed)
pub fn strip_oracles(t: &[String]) -> Vec<String> {
    t.iter().filter(|x| !x.starts_with("order=") && !x.starts_with("aborts=")).cloned().collect()
}

pub type ProbeScript = Arc<Mutex<Script>>;
pub type ProbeQueue = Arc<Mutex<VecDeque<ToSwarm<u32, u32>>>>;

pub struct Runner<B: NetworkBehaviour> {
    pub sim: Sim<B>,
    pub peers: Vec<PeerId>,
    pub listener: ListenerId,
    pub script: ProbeScript,
    pub queue: ProbeQueue,
    pub mux_of_conn: HashMap<usize, Arc<Mutex<MuxState>>>,
    pub n_incoming: usize,
    /// the ONE waker every poll of this Swarm is given (so a behaviour's stored waker is observable)
    pub flag: Arc<Flag>,
}

impl<B: NetworkBehaviour> Runner<B>
where
    B::ToSwarm: std::fmt::Debug,
{
    /// `make` builds the behaviour around the given probe
    pub fn new(make: impl FnOnce(Probe) -> B) -> Self {
        let peers = peers();
        let mut script = None;
        let mut queue = None;
        let mut sim = Sim::new(
            |w| {
                let p = Probe::new("a", w);
                script = Some(p.script.clone());
                queue = Some(p.queue.clone());
                make(p)
            },
            peers[0],
            libp2p_swarm::Config::without_executor(),
        );
        {
            let mut w = sim.world.lock().unwrap();
            for p in &peers {
                w.peer(p);
            }
        }
        let listener = sim.swarm.listen_on("/ip4/10.9.9.9/tcp/9".parse().unwrap()).unwrap();
        sim.settle();
        sim.take_log();
        let mut r = Runner {
            sim,
            peers,
            listener,
            script: script.unwrap(),
            queue: queue.unwrap(),
            mux_of_conn: HashMap::new(),
            n_incoming: 0,
            flag: Arc::new(Flag(std::sync::atomic::AtomicBool::new(false))),
        };
        // one more round with the persistent waker, so that every stored waker is `flag`
        r.settle();
        r
    }

    /// `sim::settle` with the persistent waker: poll until two consecutive idle `Pending`s
    fn settle_flag(&mut self) {
        use futures::StreamExt;
        use std::sync::atomic::Ordering;
        use std::task::{Context, Poll, Waker};
        let waker = Waker::from(self.flag.clone());
        let mut cx = Context::from_waker(&waker);
        let mut idle = 0;
        let mut guard = 0;
        while idle < 2 {
            guard += 1;
            assert!(guard < 100_000, "swarm does not settle");
            self.flag.0.store(false, Ordering::SeqCst);
            match self.sim.swarm.poll_next_unpin(&mut cx) {
                Poll::Ready(Some(ev)) => {
                    let mut w = self.sim.world.lock().unwrap();
                    let s = render_event(ev, &mut w);
                    w.push(s);
                    idle = 0;
                }
                Poll::Ready(None) => unreachable!(),
                Poll::Pending => {
                    if self.flag.0.load(Ordering::SeqCst) {
                        idle = 0;
                    } else {
                        idle += 1;
                    }
                }
            }
        }
    }

    /// poll the Swarm exactly once with the persistent waker (a finished connection task queues its
    /// report; the Swarm does not get to process it), then clear the wake flag
    pub fn poll_once(&mut self) {
        use futures::StreamExt;
        use std::task::{Context, Poll, Waker};
        let waker = Waker::from(self.flag.clone());
        let mut cx = Context::from_waker(&waker);
        if let Poll::Ready(Some(ev)) = self.sim.swarm.poll_next_unpin(&mut cx) {
            let mut w = self.sim.world.lock().unwrap();
            let s = render_event(ev, &mut w);
            w.push(s);
        }
        self.flag.0.store(false, std::sync::atomic::Ordering::SeqCst);
    }

    /// was the persistent waker woken since the last `settle`/`clear_woken`?
    pub fn woken(&self) -> bool {
        self.flag.0.load(std::sync::atomic::Ordering::SeqCst)
    }

    pub fn real_conn(&self, c: usize) -> Option<ConnectionId> {
        self.sim.world.lock().unwrap().conn_names.iter().find(|(_, n)| **n == c).map(|(id, _)| *id)
    }

    pub fn conn_name(&self, id: &ConnectionId) -> Option<usize> {
        self.sim.world.lock().unwrap().conn_names.get(id).copied()
    }

    pub fn peer_name(&self, p: &PeerId) -> usize {
        self.sim.world.lock().unwrap().peer(p).parse().unwrap()
    }

    pub fn bind_mux(&mut self, st: Option<Arc<Mutex<MuxState>>>, log: &[String]) {
        if let Some(st) = st {
            for l in log {
                let f: Vec<&str> = l.split(',').collect();
                if f.len() > 2 && f[0] == "s" && f[1] == "Established" {
                    self.mux_of_conn.insert(f[2].parse().unwrap(), st.clone());
                }
            }
        }
    }

    /// poll to quiescence, reset the probe's deny flags, return the raw ordered log
    pub fn settle(&mut self) -> Vec<String> {
        self.settle_flag();
        {
            let mut s = self.script.lock().unwrap();
            s.deny_pending_in = false;
            s.deny_pending_out = false;
            s.deny_est_in = false;
            s.deny_est_out = false;
        }
        self.sim.take_log()
    }

    /// execute one Swarm op; returns (result token, raw ordered log)
    pub fn exec(&mut self, op: &Op) -> (String, Vec<String>) {
        let mut res = "res=-".to_string();
        let mut new_mux = None;
        match op {
            Op::Dial { via_beh, cond, peer, addrs, extend, beh_addrs, deny, refuse, ov } => {
                {
                    let mut s = self.script.lock().unwrap();
                    s.deny_pending_out = *deny;
                    s.beh_addrs = beh_addrs.clone();
                }
                self.sim.tstate.lock().unwrap().refuse = refuse.clone();
                let pc = match cond {
                    0 => PeerCondition::Always,
                    1 => PeerCondition::Disconnected,
                    2 => PeerCondition::NotDialing,
                    _ => PeerCondition::DisconnectedAndNotDialing,
                };
                // `ov`: `DialOpts::override_role()` (hole punching: dial as the listener of the upgrade)
                let opts: DialOpts = match peer {
                    Some(p) => {
                        let mut b = DialOpts::peer_id(self.peers[*p]).condition(pc).addresses(addrs.clone());
                        if *ov {
                            b = b.override_role();
                        }
                        if *extend {
                            b.extend_addresses_through_behaviour().build()
                        } else {
                            b.build()
                        }
                    }
                    None => {
                        let b = DialOpts::unknown_peer_id().address(addrs.first().cloned().unwrap_or_else(Multiaddr::empty));
                        if *ov {
                            b.override_role().build()
                        } else {
                            b.build()
                        }
                    }
                };
                let id = self.sim.world.lock().unwrap().conn(opts.connection_id());
                if *via_beh {
                    self.queue.lock().unwrap().push_back(ToSwarm::Dial { opts });
                    res = format!("res=queued id={id}");
                } else {
                    let r = self.sim.swarm.dial(opts);
                    res = match r {
                        Ok(()) => format!("res=ok id={id}"),
                        Err(e) => {
                            let mut w = self.sim.world.lock().unwrap();
                            format!("res=err:{} id={id}", dial_err_kind(&e, &mut w))
                        }
                    };
                }
            }
            Op::Resolve { k, peer, deny } => {
                self.script.lock().unwrap().deny_est_out = *deny;
                new_mux = self.sim.resolve_dial(*k, Ok(self.peers[*peer]));
            }
            Op::Fail { k } => {
                self.sim.resolve_dial(*k, Err(()));
            }
            Op::Incoming { deny } => {
                self.script.lock().unwrap().deny_pending_in = *deny;
                let l = self.listener;
                self.sim.push_incoming(l, "/ip4/10.9.9.9/tcp/9".parse().unwrap(), format!("/ip4/10.7.7.7/tcp/{}", 2000 + self.n_incoming).parse().unwrap());
                self.n_incoming += 1;
            }
            Op::ResolveIn { k, peer, deny } => {
                self.script.lock().unwrap().deny_est_in = *deny;
                new_mux = self.sim.resolve_incoming(*k, Ok(self.peers[*peer]));
            }
            Op::FailIn { k } => {
                self.sim.resolve_incoming(*k, Err(()));
            }
            Op::Close { c } => {
                let r = match self.real_conn(*c) {
                    Some(id) => self.sim.swarm.close_connection(id),
                    None => false,
                };
                res = format!("res={}", r);
            }
            Op::Disconnect { peer } => {
                let r = self.sim.swarm.disconnect_peer_id(self.peers[*peer]);
                res = format!("res={}", if r.is_ok() { "ok" } else { "err" });
            }
            Op::RemoteClose { c } => {
                if let Some(m) = self.mux_of_conn.get(c) {
                    Sim::<B>::fail_muxer(m);
                }
            }
            Op::BehClose { peer, one } => {
                let connection = match one {
                    Some(c) => match self.real_conn(*c) {
                        Some(id) => CloseConnection::One(id),
                        None => CloseConnection::One(ConnectionId::new_unchecked(usize::MAX - 7)),
                    },
                    None => CloseConnection::All,
                };
                self.queue.lock().unwrap().push_back(ToSwarm::CloseConnection { peer_id: self.peers[*peer], connection });
            }
        }
        let log = self.settle();
        self.bind_mux(new_mux, &log);
        (res, log)
    }

    /// print the two op/impl pairs of one move: `op_text order=… aborts=…` / `res log=… obs suffix`,
    /// then `order` / raw ordered log
    pub fn emit(&mut self, op_text: &str, r: Result<(String, Vec<String>), String>, suffix: &dyn Fn(&mut Self) -> String, out: &mut Out) {
        match r {
            Ok((res, raw)) => {
                let ids = |pred: &dyn Fn(&[&str]) -> bool| -> Vec<String> {
                    raw.iter()
                        .filter_map(|l| {
                            let f: Vec<&str> = l.split(',').collect();
                            pred(&f).then(|| f[2].to_string())
                        })
                        .collect()
                };
                let closed = ids(&|f| f[0] == "s" && f[1] == "Closed");
                let aborted = ids(&|f| f[0] == "s" && f[1] == "OutgoingError" && f.last() == Some(&"Aborted"));
                out.op(&format!("{} order={} aborts={}", op_text, hcore::list(&closed), hcore::list(&aborted)));
                let mut sorted = raw.clone();
                sorted.sort();
                let obs = self.sim.observe();
                let sfx = suffix(self);
                out.imp(&format!("{} log={} {} {}", res, if sorted.is_empty() { "-".into() } else { sorted.join("|") }, obs, sfx));
                out.op("order");
                let mut ordered: Vec<String> = raw.iter().filter(|l| !l.starts_with("mux,")).cloned().collect();
                // detached close tasks are polled in no particular order: the `mux,closed` entries are sorted
                let mut muxes: Vec<String> = raw.iter().filter(|l| l.starts_with("mux,")).cloned().collect();
                muxes.sort();
                ordered.extend(muxes);
                out.imp(&if ordered.is_empty() { "-".to_string() } else { ordered.join("|") });
            }
            Err(m) => {
                out.op(&format!("{} order=- aborts=-", op_text));
                out.imp(&format!("panic {m}"));
            }
        }
    }
}
