//! C53 — allow and block lists are enforced: a real `Swarm<{list, probe}>` with
//! `allow_block_list::Behaviour<BlockedPeers>` resp. `<AllowedPeers>` over the scripted transport.
//! List ops (`deny p` = block_peer / disallow_peer, `permit p` = unblock_peer / allow_peer) are
//! interleaved with dials in both directions; after every op the Swarm is polled to quiescence.
//! The impl line carries the Swarm's events/counters/connected peers, the API return value, whether
//! the behaviour woke its stored waker, and the list itself.
use crate::runner::*;
use crate::sim::Probe;
use hcore::{Args, Multiaddr, Out, Protocol, Rng};
use libp2p_allow_block_list::{AllowedPeers, Behaviour as List, BlockedPeers};
use libp2p_core::PeerId;
use libp2p_swarm::NetworkBehaviour;

#[derive(NetworkBehaviour)]
#[behaviour(prelude = "libp2p_swarm::derive_prelude")]
pub struct BBlock {
    list: List<BlockedPeers>,
    probe: Probe,
}

#[derive(NetworkBehaviour)]
#[behaviour(prelude = "libp2p_swarm::derive_prelude")]
pub struct BAllow {
    list: List<AllowedPeers>,
    probe: Probe,
}

pub trait ListOps: NetworkBehaviour {
    fn mk(probe: Probe) -> Self;
    fn deny(&mut self, p: PeerId) -> bool;
    fn permit(&mut self, p: PeerId) -> bool;
    fn listed(&self) -> Vec<PeerId>;
}

impl ListOps for BBlock {
    fn mk(probe: Probe) -> Self {
        BBlock { list: Default::default(), probe }
    }
    fn deny(&mut self, p: PeerId) -> bool {
        self.list.block_peer(p)
    }
    fn permit(&mut self, p: PeerId) -> bool {
        self.list.unblock_peer(p)
    }
    fn listed(&self) -> Vec<PeerId> {
        self.list.blocked_peers().iter().copied().collect()
    }
}

impl ListOps for BAllow {
    fn mk(probe: Probe) -> Self {
        BAllow { list: Default::default(), probe }
    }
    fn deny(&mut self, p: PeerId) -> bool {
        self.list.disallow_peer(p)
    }
    fn permit(&mut self, p: PeerId) -> bool {
        self.list.allow_peer(p)
    }
    fn listed(&self) -> Vec<PeerId> {
        self.list.allowed_peers().iter().copied().collect()
    }
}

#[derive(Clone, Debug)]
enum COp {
    Sw(Op),
    Deny(usize),
    Permit(usize),
    /// resolve transport dial `k` as `peer`, poll the Swarm ONCE (the task queues its Established
    /// report), make `q` denied, poll to quiescence
    RaceDeny { k: usize, peer: usize, deny: bool, q: usize },
}

impl COp {
    fn render(&self) -> String {
        match self {
            COp::Sw(op) => op.render(),
            COp::Deny(p) => format!("deny {p}"),
            COp::Permit(p) => format!("permit {p}"),
            COp::RaceDeny { k, peer, deny, q } => format!("raceDeny {k} {peer} {} {q}", *deny as u8),
        }
    }
    fn parse(t: &[String]) -> COp {
        match t[0].as_str() {
            "deny" => COp::Deny(t[1].parse().unwrap()),
            "permit" => COp::Permit(t[1].parse().unwrap()),
            "raceDeny" => COp::RaceDeny { k: t[1].parse().unwrap(), peer: t[2].parse().unwrap(), deny: t[3] == "1", q: t[4].parse().unwrap() },
            _ => COp::Sw(Op::parse(t).unwrap_or_else(|| panic!("replay: unknown op {}", t[0]))),
        }
    }
}

fn step<B: ListOps>(r: &mut Runner<B>, op: &COp, out: &mut Out)
where
    B::ToSwarm: std::fmt::Debug,
{
    let mut api = "ret=- woken=0".to_string();
    let res = hcore::guarded(|| match op {
        COp::Sw(o) => r.exec(o),
        COp::Deny(p) | COp::Permit(p) => {
            let id = r.peers[*p];
            // nothing else runs between the end of the last settle and the API call: a set flag
            // can only come from the behaviour's stored waker
            let ret = match op {
                COp::Deny(_) => r.sim.swarm.behaviour_mut().deny(id),
                _ => r.sim.swarm.behaviour_mut().permit(id),
            };
            api = format!("ret={} woken={}", ret, r.woken() as u8);
            ("res=-".to_string(), r.settle())
        }
        COp::RaceDeny { k, peer, deny, q } => {
            r.script.lock().unwrap().deny_est_out = *deny;
            let new_mux = r.sim.resolve_dial(*k, Ok(r.peers[*peer]));
            r.poll_once();
            let id = r.peers[*q];
            let ret = r.sim.swarm.behaviour_mut().deny(id);
            api = format!("ret={} woken={}", ret, r.woken() as u8);
            let log = r.settle();
            r.bind_mux(new_mux, &log);
            ("res=-".to_string(), log)
        }
    });
    let sfx = move |r: &mut Runner<B>| {
        let mut l: Vec<usize> = r.sim.swarm.behaviour().listed().iter().map(|p| r.peer_name(p)).collect();
        l.sort();
        format!("{} list={}", api, hcore::list(&l))
    };
    r.emit(&op.render(), res, &sfx, out);
}

struct Gen {
    addrs: Vec<Multiaddr>,
    dial_peer: Vec<Option<usize>>,
}

impl Gen {
    fn open_dials<B: NetworkBehaviour>(r: &Runner<B>) -> Vec<usize> {
        r.sim.tstate.lock().unwrap().dials.iter().enumerate().filter(|(_, d)| d.1.is_some()).map(|(i, _)| i).collect()
    }
    fn open_incoming<B: NetworkBehaviour>(r: &Runner<B>) -> Vec<usize> {
        r.sim.tstate.lock().unwrap().incoming.iter().enumerate().filter(|(_, d)| d.is_some()).map(|(i, _)| i).collect()
    }
    fn remote(rng: &mut Rng) -> usize {
        match rng.below(12) {
            0 => 4,
            x => 1 + (x as usize % 3),
        }
    }
    fn next<B: NetworkBehaviour>(&mut self, rng: &mut Rng, r: &Runner<B>, peers: &[PeerId]) -> COp {
        let n_dials = r.sim.tstate.lock().unwrap().dials.len();
        let n_conns = r.sim.world.lock().unwrap().conn_names.len();
        let some_conn = |rng: &mut Rng| if n_conns == 0 { 0 } else { rng.usize(n_conns + 1) };
        COp::Sw(match rng.below(100) {
            0..=19 => {
                let peer = if rng.chance(1, 5) { None } else { Some(Self::remote(rng)) };
                let mut addrs: Vec<Multiaddr> = (0..1 + rng.usize(2)).map(|_| rng.pick(&self.addrs).clone()).collect();
                if peer.is_none() {
                    addrs.truncate(1);
                    if rng.chance(1, 2) {
                        addrs[0].push(Protocol::P2p(peers[Self::remote(rng)]));
                    }
                }
                let refuse = if rng.chance(1, 8) { vec![rng.pick(&self.addrs).clone()] } else { vec![] };
                Op::Dial {
                    via_beh: rng.chance(1, 6),
                    cond: if peer.is_none() || rng.chance(3, 4) { 0 } else { rng.below(4) as u8 },
                    peer,
                    addrs,
                    extend: false,
                    beh_addrs: vec![],
                    deny: rng.chance(1, 16),
                    refuse,
                    ov: false,
                }
            }
            20..=37 => {
                let open = Self::open_dials(r);
                let k = if !open.is_empty() && rng.chance(9, 10) { *rng.pick(&open) } else { rng.usize(n_dials + 1) };
                let expected = self.dial_peer.get(k).copied().flatten();
                let peer = match (expected, rng.below(12)) {
                    (_, 0) => 0,
                    (Some(p), 1..=10) => p,
                    _ => Self::remote(rng),
                };
                Op::Resolve { k, peer, deny: rng.chance(1, 16) }
            }
            38..=41 => {
                let open = Self::open_dials(r);
                Op::Fail { k: if !open.is_empty() && rng.chance(4, 5) { *rng.pick(&open) } else { rng.usize(n_dials + 1) } }
            }
            42..=53 => Op::Incoming { deny: rng.chance(1, 16) },
            54..=66 => {
                let open = Self::open_incoming(r);
                let k = if !open.is_empty() && rng.chance(9, 10) { *rng.pick(&open) } else { rng.usize(r.n_incoming + 1) };
                Op::ResolveIn { k, peer: if rng.chance(1, 14) { 0 } else { Self::remote(rng) }, deny: rng.chance(1, 16) }
            }
            67..=68 => {
                let open = Self::open_incoming(r);
                Op::FailIn { k: if !open.is_empty() && rng.chance(4, 5) { *rng.pick(&open) } else { rng.usize(r.n_incoming + 1) } }
            }
            69..=71 => Op::Close { c: some_conn(rng) },
            72..=73 => Op::Disconnect { peer: Self::remote(rng) },
            74..=75 => Op::RemoteClose { c: some_conn(rng) },
            76..=77 => Op::BehClose { peer: Self::remote(rng), one: if rng.bool() { Some(some_conn(rng)) } else { None } },
            78..=80 => {
                // the list change races with a finished known-peer dial
                let open: Vec<usize> = Self::open_dials(r).into_iter().filter(|k| self.dial_peer.get(*k).copied().flatten().is_some()).collect();
                if open.is_empty() {
                    return COp::Deny(Self::remote(rng));
                }
                let k = *rng.pick(&open);
                let p = self.dial_peer[k].unwrap();
                return COp::RaceDeny { k, peer: p, deny: rng.chance(1, 16), q: if rng.chance(9, 10) { p } else { Self::remote(rng) } };
            }
            81..=88 => return COp::Deny(Self::remote(rng)),
            _ => return COp::Permit(Self::remote(rng)),
        })
    }
    fn after<B: NetworkBehaviour>(&mut self, op: &COp, r: &Runner<B>) {
        let n = r.sim.tstate.lock().unwrap().dials.len();
        let p = match op {
            COp::Sw(Op::Dial { peer, .. }) => *peer,
            _ => None,
        };
        while self.dial_peer.len() < n {
            self.dial_peer.push(p);
        }
    }
}

fn run_script<B: ListOps>(rng: &mut Rng, len: usize, allow: bool, race: bool, out: &mut Out)
where
    B::ToSwarm: std::fmt::Debug,
{
    let mut r: Runner<B> = Runner::new(B::mk);
    let mut g = Gen { addrs: base_addrs(), dial_peer: vec![] };
    let ps = r.peers.clone();
    // an allow list starts empty: permit a few peers first, most of the time
    if allow && rng.chance(5, 6) {
        for p in 1..=3 {
            if rng.chance(3, 4) {
                step(&mut r, &COp::Permit(p), out);
            }
        }
    }
    if race {
        // a pending known-peer dial to `p` (often with an established connection to `p` as well),
        // then the list change lands between the end of the upgrade and the Swarm's next poll
        let p = Gen::remote(rng);
        let mut pre: Vec<COp> = vec![];
        if allow {
            pre.push(COp::Permit(p));
        }
        if rng.bool() {
            pre.push(COp::Sw(Op::Incoming { deny: false }));
            pre.push(COp::Sw(Op::ResolveIn { k: 0, peer: p, deny: false }));
        }
        pre.push(COp::Sw(Op::Dial { via_beh: false, cond: 0, peer: Some(p), addrs: vec![g.addrs[0].clone()], extend: false, beh_addrs: vec![], deny: false, refuse: vec![], ov: false }));
        for op in pre {
            step(&mut r, &op, out);
            g.after(&op, &r);
        }
        let open = Gen::open_dials(&r);
        if let Some(k) = open.last() {
            let op = COp::RaceDeny { k: *k, peer: p, deny: false, q: p };
            step(&mut r, &op, out);
        }
    }
    for _ in 0..len {
        let op = g.next(rng, &r, &ps);
        step(&mut r, &op, out);
        g.after(&op, &r);
    }
}

fn run_replay<B: ListOps>(ops: &[Vec<String>], out: &mut Out)
where
    B::ToSwarm: std::fmt::Debug,
{
    let mut r: Runner<B> = Runner::new(B::mk);
    for t in ops {
        if t[0] == "order" {
            continue;
        }
        step(&mut r, &COp::parse(&strip_oracles(t)), out);
    }
}

pub fn run(args: &Args, out: &mut Out) {
    if let Some(cases) = args.replay_cases() {
        for (i, (hdr, ops)) in cases.iter().enumerate() {
            let allow = hdr.iter().any(|t| t == "mode=allow");
            out.case(i as u64, &format!("replay nt=1 mode={} peers={}", if allow { "allow" } else { "block" }, peers_tok()));
            if allow {
                run_replay::<BAllow>(ops, out);
            } else {
                run_replay::<BBlock>(ops, out);
            }
            out.end();
        }
        return;
    }
    let n = args.n(400, 20_000);
    for i in 0..n {
        let mut rng = Rng::for_case(args.seed, i);
        let allow = rng.bool();
        let len = 8 + rng.usize(50);
        let race = rng.chance(1, 3);
        out.case(i, &format!("{} nt=1 len={len} mode={} peers={}", if race { "race" } else { "script" }, if allow { "allow" } else { "block" }, peers_tok()));
        if allow {
            run_script::<BAllow>(&mut rng, len, true, race, out);
        } else {
            run_script::<BBlock>(&mut rng, len, false, race, out);
        }
        out.end();
    }
}
