//! C54 — `libp2p_peer_store::memory_store::MemoryStore` (public API + synthesized `FromSwarm`
//! events) vs the Lean model `C54.step`.
//!
//! cfg tokens: `pc=<peer_capacity> rc=<record_capacity> rm=<remove_addr_on_dial_error>`
//! op tokens (peers / addresses are small integers, see `peer`/`addr`):
//!   `add p a` `rm p a` `ext p a` `conn p remote <failed,…|-> <dialer 0|1>`
//!   `dfail <p|-> W <obtained> <addr>` | `dfail <p|-> T <addr,…|->` | `dfail <p|-> O <kind>`
//!   `other <kind>` `ic p d` `tc p` `gcm p` `gc p` `addrs p` `poll`
//! impl: `<ret> <dump>` — ret `b0|b1|u|d-|d<n>|l~|l<list>|epending|eA:p:a:perm|eR:p:a`,
//!   dump = `record_iter()` order, `p:<addresses() order>:<custom|->` joined by `;` (`~` = empty).
use std::num::NonZeroUsize;
use std::task::{Context, Poll};

use hcore::{Args, Multiaddr, Out, Rng};
use libp2p_core::{transport::ListenerId, transport::PortUse, transport::TransportError, ConnectedPoint, Endpoint, PeerId};
use libp2p_peer_store::{
    memory_store::{Config, Event, MemoryStore},
    Store,
};
use libp2p_swarm::{
    behaviour::{ConnectionEstablished, DialFailure, ExternalAddrConfirmed, ExternalAddrExpired, NewExternalAddrOfPeer, NewListenAddr},
    dial_opts::PeerCondition,
    ConnectionId, DialError, FromSwarm,
};

const NPEERS: usize = 8;
const NADDRS: usize = 10;

struct World {
    peers: Vec<PeerId>,
    addrs: Vec<Multiaddr>,
}

impl World {
    fn new() -> World {
        World {
            peers: (0..NPEERS as u8).map(hcore::peer).collect(),
            addrs: (0..NADDRS).map(|i| format!("/ip4/10.0.0.{}/tcp/{}", i + 1, 4000 + i).parse().unwrap()).collect(),
        }
    }
    fn p(&self, id: &PeerId) -> usize {
        self.peers.iter().position(|x| x == id).expect("known peer")
    }
    fn a(&self, a: &Multiaddr) -> usize {
        self.addrs.iter().position(|x| x == a).expect("known addr")
    }
}

fn dump(w: &World, s: &MemoryStore<u32>) -> String {
    let v: Vec<String> = s
        .record_iter()
        .map(|(p, r)| {
            let l: Vec<usize> = r.addresses().map(|a| w.a(a)).collect();
            let c = r.get_custom_data().map(|c| c.to_string()).unwrap_or_else(|| "-".into());
            format!("{}:{}:{}", w.p(p), hcore::list(&l), c)
        })
        .collect();
    if v.is_empty() {
        "~".into()
    } else {
        v.join(";")
    }
}

fn n(t: &str) -> usize {
    t.parse().unwrap()
}
fn nlist(t: &str) -> Vec<usize> {
    if t == "-" {
        vec![]
    } else {
        t.split(',').map(n).collect()
    }
}

/// execute one op on the real store, return the `ret` token
fn exec(w: &World, s: &mut MemoryStore<u32>, op: &[String]) -> String {
    let t: Vec<&str> = op.iter().map(|x| x.as_str()).collect();
    let b = |x: bool| if x { "b1".to_string() } else { "b0".to_string() };
    let d = |x: Option<u32>| x.map(|v| format!("d{v}")).unwrap_or_else(|| "d-".into());
    match t.as_slice() {
        ["add", p, a] => b(s.add_address(&w.peers[n(p)], &w.addrs[n(a)])),
        ["rm", p, a] => b(s.remove_address(&w.peers[n(p)], &w.addrs[n(a)])),
        ["ext", p, a] => {
            s.on_swarm_event(&FromSwarm::NewExternalAddrOfPeer(NewExternalAddrOfPeer { peer_id: w.peers[n(p)], addr: &w.addrs[n(a)] }));
            "u".into()
        }
        ["conn", p, r, f, dialer] => {
            let failed: Vec<Multiaddr> = nlist(f).into_iter().map(|i| w.addrs[i].clone()).collect();
            let ep = if *dialer == "1" {
                ConnectedPoint::Dialer { address: w.addrs[n(r)].clone(), role_override: Endpoint::Dialer, port_use: PortUse::Reuse }
            } else {
                ConnectedPoint::Listener { local_addr: w.addrs[0].clone(), send_back_addr: w.addrs[n(r)].clone() }
            };
            s.on_swarm_event(&FromSwarm::ConnectionEstablished(ConnectionEstablished {
                peer_id: w.peers[n(p)],
                connection_id: ConnectionId::new_unchecked(1),
                endpoint: &ep,
                failed_addresses: &failed,
                other_established: 0,
            }));
            "u".into()
        }
        ["dfail", p, rest @ ..] => {
            let peer = if *p == "-" { None } else { Some(w.peers[n(p)]) };
            let err = match rest {
                ["W", o, a] => DialError::WrongPeerId { obtained: w.peers[n(o)], address: w.addrs[n(a)].clone() },
                ["T", l] => DialError::Transport(
                    nlist(l)
                        .into_iter()
                        .map(|i| (w.addrs[i].clone(), TransportError::Other(std::io::Error::other("x"))))
                        .collect(),
                ),
                ["O", k] => match n(k) % 4 {
                    0 => DialError::NoAddresses,
                    1 => DialError::Aborted,
                    2 => DialError::LocalPeerId { address: w.addrs[n(k) % NADDRS].clone() },
                    _ => DialError::DialPeerConditionFalse(PeerCondition::Disconnected),
                },
                _ => panic!("bad dfail op"),
            };
            s.on_swarm_event(&FromSwarm::DialFailure(DialFailure { peer_id: peer, error: &err, connection_id: ConnectionId::new_unchecked(2) }));
            "u".into()
        }
        ["other", k] => {
            let a = &w.addrs[n(k) % NADDRS];
            let ev = match n(k) % 3 {
                0 => FromSwarm::ExternalAddrConfirmed(ExternalAddrConfirmed { addr: a }),
                1 => FromSwarm::ExternalAddrExpired(ExternalAddrExpired { addr: a }),
                _ => FromSwarm::NewListenAddr(NewListenAddr { listener_id: ListenerId::next(), addr: a }),
            };
            s.on_swarm_event(&ev);
            "u".into()
        }
        ["ic", p, v] => {
            s.insert_custom_data(&w.peers[n(p)], n(v) as u32);
            "u".into()
        }
        ["tc", p] => d(s.take_custom_data(&w.peers[n(p)])),
        ["gcm", p] => d(s.get_custom_data_mut(&w.peers[n(p)]).map(|x| *x)),
        ["gc", p] => d(s.get_custom_data(&w.peers[n(p)]).copied()),
        ["addrs", p] => match s.addresses_of_peer(&w.peers[n(p)]) {
            None => "l~".into(),
            Some(it) => format!("l{}", hcore::list(&it.map(|a| w.a(a)).collect::<Vec<_>>())),
        },
        ["poll"] => {
            let waker = futures::task::noop_waker();
            let mut cx = Context::from_waker(&waker);
            match s.poll(&mut cx) {
                Poll::Pending => "epending".into(),
                Poll::Ready(Event::PeerAddressAdded { peer_id, address, is_permanent }) => {
                    format!("eA:{}:{}:{}", w.p(&peer_id), w.a(&address), is_permanent as u8)
                }
                Poll::Ready(Event::PeerAddressRemoved { peer_id, address }) => format!("eR:{}:{}", w.p(&peer_id), w.a(&address)),
            }
        }
        _ => panic!("bad op {t:?}"),
    }
}

fn cfg_of(tokens: &[String]) -> (usize, usize, bool) {
    let get = |k: &str, d: usize| tokens.iter().find_map(|t| t.strip_prefix(k).and_then(|v| v.parse().ok())).unwrap_or(d);
    (get("pc=", 1), get("rc=", 1), get("rm=", 1) == 1)
}

fn run_case(w: &World, out: &mut Out, idx: u64, class: &str, nt: bool, cfg: (usize, usize, bool), ops: &[Vec<String>], drain: bool) {
    out.case(idx, &format!("{class} nt={} pc={} rc={} rm={}", nt as u8, cfg.0, cfg.1, cfg.2 as u8));
    let config = Config::default()
        .set_peer_capacity(NonZeroUsize::new(cfg.0.max(1)).unwrap())
        .set_record_capacity(NonZeroUsize::new(cfg.1.max(1)).unwrap())
        .set_remove_addr_on_dial_error(cfg.2);
    let mut store: MemoryStore<u32> = MemoryStore::new(config);
    for op in ops {
        out.op(&op.join(" "));
        match hcore::guarded(|| exec(w, &mut store, op)) {
            Ok(ret) => out.imp(&format!("{ret} {}", dump(w, &store))),
            Err(m) => {
                out.imp(&format!("panic {m}"));
                out.end();
                return;
            }
        }
    }
    if drain {
        // poll until `Pending` so that every queued event is judged (replays list these polls explicitly)
        let poll = toks("poll".into());
        for _ in 0..100_000 {
            out.op("poll");
            let ret = exec(w, &mut store, &poll);
            out.imp(&format!("{ret} {}", dump(w, &store)));
            if ret == "epending" {
                break;
            }
        }
    }
    out.end();
}

fn toks(s: String) -> Vec<String> {
    s.split(' ').map(|x| x.to_string()).collect()
}

fn sublist(rng: &mut Rng, na: usize, max: usize) -> String {
    let k = rng.usize(max + 1);
    let l: Vec<usize> = (0..k).map(|_| rng.usize(na)).collect();
    hcore::list(&l)
}

/// one random op over `np` peers × `na` addresses; `w_*` steer the mix
fn random_op(rng: &mut Rng, np: usize, na: usize) -> Vec<String> {
    let p = rng.usize(np);
    let a = rng.usize(na);
    toks(match rng.usize(100) {
        0..=21 => format!("add {p} {a}"),
        22..=31 => format!("rm {p} {a}"),
        32..=43 => format!("ext {p} {a}"),
        44..=55 => format!("conn {p} {a} {} {}", sublist(rng, na, 3), if rng.chance(5, 6) { 1 } else { 0 }),
        56..=63 => format!("dfail {} W {} {a}", if rng.chance(1, 8) { "-".to_string() } else { p.to_string() }, rng.usize(np)),
        64..=75 => format!("dfail {} T {}", if rng.chance(1, 8) { "-".to_string() } else { p.to_string() }, sublist(rng, na, 3)),
        76..=77 => format!("dfail {p} O {}", rng.usize(8)),
        78..=79 => format!("other {}", rng.usize(9)),
        80..=84 => format!("ic {p} {}", rng.usize(50)),
        85..=88 => format!("tc {p}"),
        89..=91 => format!("gcm {p}"),
        92..=93 => format!("gc {p}"),
        94..=96 => format!("addrs {p}"),
        _ => "poll".to_string(),
    })
}

fn is_auto(op: &[String]) -> bool {
    matches!(op[0].as_str(), "conn" | "dfail")
}

/// the small op alphabet of the bounded-exhaustive enumeration
fn alphabet(np: usize, na: usize) -> Vec<Vec<String>> {
    let mut v = vec![];
    for p in 0..np {
        for a in 0..na {
            v.push(toks(format!("add {p} {a}")));
            v.push(toks(format!("ext {p} {a}")));
            v.push(toks(format!("dfail {p} T {a}")));
        }
        v.push(toks(format!("rm {p} 0")));
        v.push(toks(format!("conn {p} 1 0 1")));
        v.push(toks(format!("dfail {p} W {} 0", (p + 1) % np)));
        v.push(toks(format!("ic {p} 7")));
        v.push(toks(format!("tc {p}")));
    }
    v
}

pub fn run(args: &Args, out: &mut Out) {
    let w = World::new();
    if let Some(cases) = args.replay_cases() {
        for (i, (hdr, ops)) in cases.iter().enumerate() {
            run_case(&w, out, i as u64, "replay", true, cfg_of(hdr), ops, false);
        }
        return;
    }
    let mut idx = 0u64;

    // 1. bounded-exhaustive: every op sequence of length ≤ 3 over the 33-op alphabet (3 peers × 2
    //    addresses, peer_capacity 2, record_capacity 1); thorough adds every sequence of length 4
    //    over the 22-op alphabet (2 peers × 2 addresses, peer_capacity 1). Each followed by a drain.
    let mut plans: Vec<(Vec<Vec<String>>, usize, usize, (usize, usize, bool))> = vec![];
    plans.push((alphabet(3, 2), 1, if args.count > 0 { 2 } else { 3 }, (2, 1, true)));
    if args.thorough && args.count == 0 {
        plans.push((alphabet(2, 2), 4, 4, (1, 1, true)));
    }
    for (alpha, min_len, depth, cfg) in &plans {
        let mut stack: Vec<usize> = vec![];
        'outer: loop {
            if stack.len() >= *min_len {
                let ops: Vec<Vec<String>> = stack.iter().map(|&i| alpha[i].clone()).collect();
                let nt = ops.iter().any(|o| o[0] == "add") && ops.iter().any(|o| is_auto(o));
                run_case(&w, out, idx, "exhaustive", nt, *cfg, &ops, true);
                idx += 1;
            }
            if stack.len() < *depth {
                stack.push(0);
                continue;
            }
            loop {
                match stack.pop() {
                    None => break 'outer,
                    Some(i) if i + 1 < alpha.len() => {
                        stack.push(i + 1);
                        break;
                    }
                    Some(_) => {}
                }
            }
        }
    }

    // 2. capacity boundary: fill beyond both capacities, then random traffic
    let nrand = args.n(1500, 8_000);
    for i in 0..nrand {
        let mut rng = Rng::for_case(args.seed, i);
        let class = match i % 4 {
            0 => "fill",
            1 => "permanent",
            _ => "mixed",
        };
        let pc = 1 + rng.usize(3);
        let rc = 1 + rng.usize(3);
        let rm = rng.chance(7, 8);
        let np = (pc + 1 + rng.usize(2)).min(NPEERS);
        let na = (rc + 1 + rng.usize(3)).min(NADDRS);
        let mut ops: Vec<Vec<String>> = vec![];
        match class {
            "fill" => {
                // pc + 2 distinct peers, each with rc + 1 addresses, through the three add paths
                for p in 0..(pc + 2).min(NPEERS) {
                    for a in 0..(rc + 1).min(NADDRS) {
                        ops.push(toks(match rng.usize(3) {
                            0 => format!("add {p} {a}"),
                            1 => format!("ext {p} {a}"),
                            _ => format!("conn {p} {a} - 1"),
                        }));
                    }
                    if rng.chance(1, 3) {
                        ops.push(toks("poll".into()));
                    }
                }
            }
            "permanent" => {
                // explicit adds, then automatic removals aimed at exactly those addresses
                let p = rng.usize(np);
                let k = 1 + rng.usize(rc);
                for a in 0..k {
                    ops.push(toks(format!("add {p} {a}")));
                }
                ops.push(toks(format!("ext {p} {}", k % na)));
                ops.push(toks(format!("dfail {p} T {}", hcore::list(&(0..k.min(3)).collect::<Vec<_>>()))));
                ops.push(toks(format!("dfail {p} W {} 0", (p + 1) % np)));
                ops.push(toks(format!("conn {p} {} 0,{} 1", rng.usize(na), k % na)));
                ops.push(toks(format!("addrs {p}")));
            }
            _ => {}
        }
        let len = if args.thorough { 20 + rng.usize(280) } else { 10 + rng.usize(70) };
        for _ in 0..len {
            ops.push(random_op(&mut rng, np, na));
            if rng.chance(1, 3) {
                ops.push(toks("poll".into()));
            }
        }
        let nt = ops.iter().any(|o| o[0] == "add") && ops.iter().any(|o| is_auto(o));
        run_case(&w, out, idx, class, nt, (pc, rc, rm), &ops, true);
        idx += 1;
    }
}
