//! C56 — `libp2p_webrtc_utils::Stream` (half-close state machine) vs the Lean model `C56.step`.
//!
//! The real `Stream::new` runs over an in-memory data channel (`Chan`): the harness injects raw
//! length-prefixed protobuf frames (any flag value, any payload) and EOF on the inbound side, makes
//! the outbound side ready / pending / failing, and decodes every byte the stream writes.
//!
//! ops:  read <n> | write <hex> | writen <len> <byte> | flush | close | closeRead
//!       | inject <flag|-> <hex|none> | eof | block <0|1> | werr <0|1>
//! impl: <pending | ok | ok:<hex> | ok:<n> | err:<Kind> | env | panic <msg>> w=<frames written>
use std::cell::RefCell;
use std::collections::VecDeque;
use std::io;
use std::pin::Pin;
use std::rc::Rc;
use std::task::{Context, Poll};

use futures::task::noop_waker;
use futures::{AsyncRead, AsyncWrite};
use hcore::{hex, unhex, Args, Out, Rng};
use libp2p_webrtc_utils::Stream;

#[derive(Default)]
struct Inner {
    inbound: VecDeque<u8>,
    eof: bool,
    blocked: bool,
    werr: bool,
    written: Vec<u8>,
}

#[derive(Clone, Default)]
struct Chan(Rc<RefCell<Inner>>);

impl AsyncRead for Chan {
    fn poll_read(self: Pin<&mut Self>, _cx: &mut Context<'_>, buf: &mut [u8]) -> Poll<io::Result<usize>> {
        let mut c = self.0.borrow_mut();
        if !c.inbound.is_empty() {
            let n = c.inbound.len().min(buf.len());
            for b in buf.iter_mut().take(n) {
                *b = c.inbound.pop_front().unwrap();
            }
            return Poll::Ready(Ok(n));
        }
        if c.eof {
            Poll::Ready(Ok(0))
        } else {
            Poll::Pending
        }
    }
}

impl AsyncWrite for Chan {
    fn poll_write(self: Pin<&mut Self>, _cx: &mut Context<'_>, buf: &[u8]) -> Poll<io::Result<usize>> {
        let mut c = self.0.borrow_mut();
        if c.werr {
            return Poll::Ready(Err(io::ErrorKind::TimedOut.into()));
        }
        if c.blocked {
            return Poll::Pending;
        }
        c.written.extend_from_slice(buf);
        Poll::Ready(Ok(buf.len()))
    }
    fn poll_flush(self: Pin<&mut Self>, _cx: &mut Context<'_>) -> Poll<io::Result<()>> {
        Poll::Ready(Ok(()))
    }
    fn poll_close(self: Pin<&mut Self>, _cx: &mut Context<'_>) -> Poll<io::Result<()>> {
        Poll::Ready(Ok(()))
    }
}

fn uvi(mut n: u64, out: &mut Vec<u8>) {
    loop {
        let b = (n & 0x7f) as u8;
        n >>= 7;
        if n == 0 {
            out.push(b);
            return;
        }
        out.push(b | 0x80);
    }
}

fn read_uvi(b: &[u8], i: &mut usize) -> Option<u64> {
    let mut n = 0u64;
    let mut s = 0;
    loop {
        let x = *b.get(*i)?;
        *i += 1;
        n |= ((x & 0x7f) as u64) << s;
        if x & 0x80 == 0 {
            return Some(n);
        }
        s += 7;
        if s > 63 {
            return None;
        }
    }
}

/// wire encoding of `Message { flag, message }`, length-prefixed
fn encode_frame(flag: Option<u64>, data: Option<&[u8]>) -> Vec<u8> {
    let mut body = vec![];
    if let Some(f) = flag {
        body.push(0x08);
        uvi(f, &mut body);
    }
    if let Some(d) = data {
        body.push(0x12);
        uvi(d.len() as u64, &mut body);
        body.extend_from_slice(d);
    }
    let mut out = vec![];
    uvi(body.len() as u64, &mut out);
    out.extend(body);
    out
}

fn data_tok(d: &[u8]) -> String {
    if d.len() > 32 && d.iter().all(|b| *b == d[0]) {
        format!("R:{}:{}", d.len(), hex(&d[..1]))
    } else {
        format!("D:{}", hex(d))
    }
}

/// decode what the stream wrote into canonical frame tokens
fn decode_written(b: &[u8]) -> String {
    let mut toks = vec![];
    let mut i = 0;
    while i < b.len() {
        let Some(len) = read_uvi(b, &mut i) else {
            toks.push(format!("X:{}", hex(&b[i..])));
            break;
        };
        let end = i + len as usize;
        if end > b.len() {
            toks.push(format!("X:{}", hex(&b[i..])));
            break;
        }
        let body = &b[i..end];
        i = end;
        let mut j = 0;
        let mut flag: Option<u64> = None;
        let mut data: Option<Vec<u8>> = None;
        let mut bad = false;
        while j < body.len() {
            match body[j] {
                0x08 => {
                    j += 1;
                    match read_uvi(body, &mut j) {
                        Some(f) => flag = Some(f),
                        None => bad = true,
                    }
                }
                0x12 => {
                    j += 1;
                    match read_uvi(body, &mut j) {
                        Some(l) if j + l as usize <= body.len() => {
                            data = Some(body[j..j + l as usize].to_vec());
                            j += l as usize;
                        }
                        _ => bad = true,
                    }
                }
                _ => bad = true,
            }
            if bad {
                break;
            }
        }
        toks.push(match (bad, flag, &data) {
            (false, Some(0), None) => "F".into(),
            (false, Some(1), None) => "S".into(),
            (false, None, Some(d)) => data_tok(d),
            _ => format!("X:{}", hex(body)),
        });
    }
    if toks.is_empty() {
        "w=-".into()
    } else {
        format!("w={}", toks.join(","))
    }
}

fn kind(e: &io::Error) -> String {
    match e.kind() {
        io::ErrorKind::BrokenPipe => "BrokenPipe".into(),
        io::ErrorKind::ConnectionReset => "ConnectionReset".into(),
        io::ErrorKind::Other => "Other".into(),
        io::ErrorKind::InvalidData => "InvalidData".into(),
        io::ErrorKind::TimedOut => "TimedOut".into(),
        k => format!("Kind({k:?})"),
    }
}

fn unit(p: Poll<io::Result<()>>) -> String {
    match p {
        Poll::Pending => "pending".into(),
        Poll::Ready(Ok(())) => "ok".into(),
        Poll::Ready(Err(e)) => format!("err:{}", kind(&e)),
    }
}

fn run_case(out: &mut Out, idx: u64, cls: &str, ops: &[Vec<String>]) {
    out.case(idx, &format!("{cls} nt={}", !ops.is_empty() as u8));
    let chan = Chan::default();
    let (mut stream, _listener) = Stream::new(chan.clone());
    let waker = noop_waker();
    let mut cx = Context::from_waker(&waker);
    for op in ops {
        out.op(&op.join(" "));
        let a1 = op.get(1).map(|s| s.as_str()).unwrap_or("");
        let a2 = op.get(2).map(|s| s.as_str()).unwrap_or("");
        let r = hcore::guarded(|| match op[0].as_str() {
            "read" => {
                let mut buf = vec![0u8; a1.parse().unwrap()];
                match Pin::new(&mut stream).poll_read(&mut cx, &mut buf) {
                    Poll::Pending => "pending".to_string(),
                    Poll::Ready(Ok(n)) => format!("ok:{}", hex(&buf[..n])),
                    Poll::Ready(Err(e)) => format!("err:{}", kind(&e)),
                }
            }
            "write" | "writen" => {
                let data = if op[0] == "write" { unhex(a1) } else { vec![unhex(a2)[0]; a1.parse().unwrap()] };
                match Pin::new(&mut stream).poll_write(&mut cx, &data) {
                    Poll::Pending => "pending".to_string(),
                    Poll::Ready(Ok(n)) => format!("ok:{n}"),
                    Poll::Ready(Err(e)) => format!("err:{}", kind(&e)),
                }
            }
            "flush" => unit(Pin::new(&mut stream).poll_flush(&mut cx)),
            "close" => unit(Pin::new(&mut stream).poll_close(&mut cx)),
            "closeRead" => unit(Pin::new(&mut stream).poll_close_read(&mut cx)),
            "inject" => {
                let flag = if a1 == "-" { None } else { Some(a1.parse::<u64>().unwrap()) };
                let data = if a2 == "none" { None } else { Some(unhex(a2)) };
                let f = encode_frame(flag, data.as_deref());
                chan.0.borrow_mut().inbound.extend(f);
                "env".to_string()
            }
            "eof" => {
                chan.0.borrow_mut().eof = true;
                "env".to_string()
            }
            "block" => {
                chan.0.borrow_mut().blocked = a1 == "1";
                "env".to_string()
            }
            "werr" => {
                chan.0.borrow_mut().werr = a1 == "1";
                "env".to_string()
            }
            other => format!("bad-op:{other}"),
        });
        let written = std::mem::take(&mut chan.0.borrow_mut().written);
        match r {
            Ok(s) => out.imp(&format!("{s} {}", decode_written(&written))),
            Err(m) => {
                out.imp(&format!("panic {m}"));
                break;
            }
        }
    }
    out.end();
}

fn v(s: &str) -> Vec<String> {
    s.split(' ').map(|x| x.to_string()).collect()
}

fn random_op(rng: &mut Rng) -> Vec<String> {
    match rng.below(100) {
        0..=17 => v(&format!("read {}", rng.pick(&[0u32, 1, 3, 64, 64, 64]))),
        18..=33 => {
            let n = rng.usize(6);
            v(&format!("write {}", hex(&rng.bytes(n))))
        }
        34..=36 => v(&format!("writen {} {:02x}", rng.pick(&[16376u32, 16377, 16378, 20000, 40]), rng.below(256))),
        37..=42 => v("flush"),
        43..=54 => v("close"),
        55..=66 => v("closeRead"),
        67..=86 => {
            let flag = *rng.pick(&["-", "-", "0", "0", "1", "1", "2", "2", "7", "3"]);
            let data = match rng.below(5) {
                0 | 1 => "none".to_string(),
                2 => "-".to_string(),
                _ => {
                    let n = 1 + rng.usize(5);
                    hex(&rng.bytes(n))
                }
            };
            v(&format!("inject {flag} {data}"))
        }
        87..=89 => v("eof"),
        90..=93 => v("block 1"),
        94..=97 => v("block 0"),
        98 => v("werr 1"),
        _ => v("werr 0"),
    }
}

const ALPHA: &[&str] = &[
    "read 4",
    "write 0102",
    "close",
    "closeRead",
    "inject 0 none",
    "inject 1 none",
    "inject 2 none",
    "inject - aabbccddee",
    "block 1",
    "block 0",
    "inject 0 f00d",
    "eof",
];

fn exhaustive(out: &mut Out, idx: &mut u64, alpha: &[&str], len: usize) {
    let k = alpha.len();
    let total = k.pow(len as u32);
    for code in 0..total {
        let mut c = code;
        let mut ops = Vec::with_capacity(len);
        for _ in 0..len {
            ops.push(v(alpha[c % k]));
            c /= k;
        }
        run_case(out, *idx, &format!("exhaustive{len}"), &ops);
        *idx += 1;
    }
}

pub fn run(args: &Args, out: &mut Out) {
    if let Some(cases) = args.replay_cases() {
        for (i, (_, ops)) in cases.iter().enumerate() {
            run_case(out, i as u64, "replay", ops);
        }
        return;
    }
    let mut idx = 0u64;
    // scripted: the paths that need a specific environment
    let scripted: &[&[&str]] = &[
        // close with a blocked writer: Requested -> MessageSent -> (pending) -> unblocked -> closed; second close is a no-op
        &["block 1", "close", "close", "block 0", "close", "close", "write 01", "read 4"],
        // close_read likewise, then the write half still works
        &["block 1", "closeRead", "block 0", "closeRead", "closeRead", "write 0a0b", "flush", "read 1"],
        // high-water mark: a full-size write fills the sink, the next poll_ready must flush
        &["block 1", "writen 16377 61", "write 01", "close", "block 0", "write 02", "flush", "close"],
        &["writen 20000 62", "writen 16376 63", "write 03", "flush"],
        // writer failure surfaces, state machine survives
        &["werr 1", "close", "werr 0", "close", "close"],
        &["block 1", "writen 16377 64", "werr 1", "write 01", "closeRead", "werr 0", "block 0", "closeRead"],
        // reset in every phase
        &["inject 2 none", "read 4", "read 4", "write 01", "flush", "close", "closeRead"],
        &["block 1", "close", "inject 2 aabb", "read 4", "block 0", "close", "read 4", "write 01"],
        &["inject - 0102030405", "read 2", "inject 2 none", "read 2", "read 2", "read 2", "read 2"],
        // FIN with data in the same frame, FIN then STOP_SENDING, flags while read-closed are picked up by poll_write
        &["inject 0 f00d", "read 4", "read 4", "write 01"],
        &["closeRead", "inject 1 none", "write 01", "write 01", "close"],
        &["closeRead", "inject - aa", "inject 2 none", "write 01", "write 01", "read 1"],
        &["inject 0 none", "read 1", "inject 7 none", "write 01", "inject 1 none", "write 01", "write 01"],
        &["eof", "read 4", "read 4", "write 01", "close", "close", "closeRead"],
        &["inject 1 none", "read 4", "write 01", "close", "closeRead", "closeRead", "read 1"],
        &["inject 9 aa", "read 4", "read 4", "inject - -", "read 4", "inject - none", "read 4", "read 0"],
        &["closeRead", "close", "inject 2 none", "read 1", "write 01", "close", "closeRead"],
        &["block 1", "closeRead", "close", "write 01", "block 0", "close", "closeRead", "close", "close"],
    ];
    for s in scripted {
        let ops: Vec<Vec<String>> = s.iter().map(|x| v(x)).collect();
        run_case(out, idx, "scripted", &ops);
        idx += 1;
    }
    if args.count == 0 {
        // bounded-exhaustive over the 12-op alphabet
        let full = if args.thorough { 5 } else { 4 };
        for len in 0..=full {
            exhaustive(out, &mut idx, ALPHA, len);
        }
        if args.thorough {
            exhaustive(out, &mut idx, &ALPHA[..9], 6);
        }
    }
    let n = args.n(3000, 100_000);
    for i in 0..n {
        let mut rng = Rng::for_case(args.seed, i);
        let len = 1 + rng.usize(40);
        let ops: Vec<Vec<String>> = (0..len).map(|_| random_op(&mut rng)).collect();
        run_case(out, idx, "random", &ops);
        idx += 1;
    }
}
