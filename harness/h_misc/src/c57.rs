//! C57 — `prost_codec::Codec` (length-prefixed protobuf framing) vs the Lean model `C57.frame`.
//!
//! ops (case cfg: `max=<max_message_len_bytes>`):
//!   enc <body>      real `Encoder::encode` of a message whose protobuf body is exactly <body>   -> bytes
//!   penc <data>     the same with the crate's own `proto::Message { data }`                     -> bytes
//!   dec <chunk>     append <chunk> to the codec's buffer, call `Decoder::decode` until it stops  -> f:<payload>* need:<left>|err:<kind>:<left>
//!   pdec <chunk>    the same with `Codec<proto::Message>` (own buffer)                            -> (m:<data>|b:err)* status
//!   framed <c,c,..> whole stream through `asynchronous_codec::FramedRead` over a chunked reader   -> f:<payload>* end|err:<kind>
use std::collections::VecDeque;
use std::pin::Pin;
use std::task::{Context, Poll};

use asynchronous_codec::{Decoder, Encoder, FramedRead};
use bytes::{Buf, BufMut, BytesMut};
use futures::{AsyncRead, StreamExt};
use hcore::{hex, unhex, Args, Out, Rng};
use prost_codec::Codec;

/// A message whose protobuf body is an opaque byte string: every payload is a valid body, so the
/// framing layer is observed exactly.
#[derive(Debug, Default, Clone, PartialEq)]
struct Raw(Vec<u8>);

impl prost::Message for Raw {
    fn encode_raw(&self, buf: &mut impl BufMut) {
        buf.put_slice(&self.0)
    }
    fn merge_field(
        &mut self,
        _tag: u32,
        _wire_type: prost::encoding::WireType,
        _buf: &mut impl Buf,
        _ctx: prost::encoding::DecodeContext,
    ) -> Result<(), prost::DecodeError> {
        unreachable!("Raw::merge is overridden")
    }
    fn encoded_len(&self) -> usize {
        self.0.len()
    }
    fn clear(&mut self) {
        self.0.clear()
    }
    fn merge(&mut self, mut buf: impl Buf) -> Result<(), prost::DecodeError> {
        while buf.has_remaining() {
            let n = {
                let c = buf.chunk();
                self.0.extend_from_slice(c);
                c.len()
            };
            buf.advance(n);
        }
        Ok(())
    }
}

type PbMsg = prost_codec::proto::Message;

fn classify(e: prost_codec::Error, max: usize) -> String {
    let io: std::io::Error = e.into();
    let kind = io.kind();
    let Some(inner) = io.get_ref() else {
        return format!("Other({kind:?})");
    };
    if let Some(v) = inner.downcast_ref::<unsigned_varint::decode::Error>() {
        let k = match v {
            unsigned_varint::decode::Error::Overflow => "Overflow",
            unsigned_varint::decode::Error::NotMinimal => "NotMinimal",
            unsigned_varint::decode::Error::Insufficient => "Insufficient",
            _ => "VarintOther",
        };
        return if kind == std::io::ErrorKind::InvalidData { k.to_string() } else { format!("{k}({kind:?})") };
    }
    if inner.is::<prost::DecodeError>() {
        return "Body".into();
    }
    let s = inner.to_string();
    if let Some(rest) = s.strip_prefix("message with ") {
        if let Some((n, tail)) = rest.split_once("b exceeds maximum of ") {
            if tail == format!("{max}b") && kind == std::io::ErrorKind::InvalidData {
                return format!("TooLong:{n}");
            }
        }
    }
    if s == "bytes remaining in stream" && kind == std::io::ErrorKind::UnexpectedEof {
        return "UnexpectedEof".into();
    }
    format!("Other({kind:?})")
}

struct Impl {
    max: usize,
    raw: Codec<Raw>,
    raw_buf: BytesMut,
    pb: Codec<PbMsg>,
    pb_buf: BytesMut,
}

impl Impl {
    fn new(max: usize) -> Self {
        Impl { max, raw: Codec::new(max), raw_buf: BytesMut::new(), pb: Codec::new(max), pb_buf: BytesMut::new() }
    }
}

fn drain<M: prost::Message + Default>(
    codec: &mut Codec<M>,
    buf: &mut BytesMut,
    max: usize,
    show: impl Fn(&M) -> String,
) -> String {
    let mut toks: Vec<String> = vec![];
    loop {
        let before = buf.len();
        match codec.decode(buf) {
            Ok(Some(m)) => {
                toks.push(show(&m));
                if buf.len() >= before {
                    toks.push(format!("noprogress:{}", buf.len()));
                    break;
                }
            }
            Ok(None) => {
                toks.push(format!("need:{}", buf.len()));
                break;
            }
            Err(e) => {
                let k = classify(e, max);
                if k == "Body" {
                    toks.push("b:err".into());
                    continue;
                }
                toks.push(format!("err:{}:{}", k, buf.len()));
                break;
            }
        }
    }
    toks.join(" ")
}

/// `AsyncRead` handing out the given chunks one per `poll_read` (a `Pending` in between when
/// `stutter`), then EOF.
struct Chunked {
    chunks: VecDeque<Vec<u8>>,
    stutter: bool,
    pending_next: bool,
}

impl AsyncRead for Chunked {
    fn poll_read(mut self: Pin<&mut Self>, cx: &mut Context<'_>, buf: &mut [u8]) -> Poll<std::io::Result<usize>> {
        if self.stutter && self.pending_next {
            self.pending_next = false;
            cx.waker().wake_by_ref();
            return Poll::Pending;
        }
        self.pending_next = true;
        match self.chunks.pop_front() {
            None => Poll::Ready(Ok(0)),
            Some(mut c) => {
                let n = c.len().min(buf.len());
                buf[..n].copy_from_slice(&c[..n]);
                if n < c.len() {
                    let rest = c.split_off(n);
                    self.chunks.push_front(rest);
                }
                Poll::Ready(Ok(n))
            }
        }
    }
}

fn framed(max: usize, chunks: Vec<Vec<u8>>) -> String {
    let stutter = chunks.len() % 2 == 1;
    let rd = Chunked { chunks: chunks.into_iter().filter(|c| !c.is_empty()).collect(), stutter, pending_next: false };
    let mut fr = FramedRead::new(rd, Codec::<Raw>::new(max));
    let mut toks: Vec<String> = vec![];
    futures::executor::block_on(async {
        loop {
            match fr.next().await {
                Some(Ok(m)) => toks.push(format!("f:{}", hex(&m.0))),
                Some(Err(e)) => {
                    toks.push(format!("err:{}", classify(e, max)));
                    break;
                }
                None => {
                    toks.push("end".into());
                    break;
                }
            }
            if toks.len() > 100_000 {
                toks.push("runaway".into());
                break;
            }
        }
    });
    toks.join(" ")
}

fn exec_op(im: &mut Impl, op: &[String]) -> String {
    let arg = op.get(1).map(|s| s.as_str()).unwrap_or("-");
    let r = hcore::guarded(|| match op[0].as_str() {
        "enc" => {
            let mut dst = BytesMut::new();
            match im.raw.encode(Raw(unhex(arg)), &mut dst) {
                Ok(()) => hex(&dst),
                Err(e) => format!("err:{}", classify(e, im.max)),
            }
        }
        "penc" => {
            let mut dst = BytesMut::new();
            match im.pb.encode(PbMsg { data: unhex(arg) }, &mut dst) {
                Ok(()) => hex(&dst),
                Err(e) => format!("err:{}", classify(e, im.max)),
            }
        }
        "dec" => {
            im.raw_buf.extend_from_slice(&unhex(arg));
            let max = im.max;
            drain(&mut im.raw, &mut im.raw_buf, max, |m: &Raw| format!("f:{}", hex(&m.0)))
        }
        "pdec" => {
            im.pb_buf.extend_from_slice(&unhex(arg));
            let max = im.max;
            drain(&mut im.pb, &mut im.pb_buf, max, |m: &PbMsg| format!("m:{}", hex(&m.data)))
        }
        "framed" => {
            let chunks: Vec<Vec<u8>> = if arg == "-" { vec![] } else { arg.split(',').map(unhex).collect() };
            framed(im.max, chunks)
        }
        other => format!("bad-op:{other}"),
    });
    match r {
        Ok(s) => s,
        Err(m) => format!("panic {m}"),
    }
}

struct Case {
    cls: &'static str,
    nt: bool,
    max: usize,
    ops: Vec<Vec<String>>,
}

fn emit(out: &mut Out, idx: u64, c: &Case) {
    out.case(idx, &format!("{} nt={} max={}", c.cls, c.nt as u8, c.max));
    let mut im = Impl::new(c.max);
    for op in &c.ops {
        out.op(&op.join(" "));
        let r = exec_op(&mut im, op);
        out.imp(&r);
    }
    out.end();
}

fn op2(a: &str, b: String) -> Vec<String> {
    vec![a.to_string(), b]
}

/// the real encoder's bytes for a body (used while GENERATING cases; the `enc` op re-checks it)
fn real_encode(max: usize, body: &[u8]) -> Vec<u8> {
    let mut dst = BytesMut::new();
    Codec::<Raw>::new(max).encode(Raw(body.to_vec()), &mut dst).unwrap();
    dst.to_vec()
}

fn real_pencode(max: usize, data: &[u8]) -> Vec<u8> {
    let mut dst = BytesMut::new();
    Codec::<PbMsg>::new(max).encode(PbMsg { data: data.to_vec() }, &mut dst).unwrap();
    dst.to_vec()
}

fn uvi(mut n: u64) -> Vec<u8> {
    let mut v = vec![];
    loop {
        let b = (n & 0x7f) as u8;
        n >>= 7;
        if n == 0 {
            v.push(b);
            return v;
        }
        v.push(b | 0x80);
    }
}

const MAXES: &[usize] = &[0, 1, 2, 5, 127, 128, 129, 300, 16384, u32::MAX as usize, usize::MAX - 5, usize::MAX];

fn pick_size(rng: &mut Rng, max: usize) -> usize {
    let m = max.min(20_000);
    match rng.below(12) {
        0 => 0,
        1 => 1,
        2 => 2,
        3 => 126 + rng.usize(5),
        4 => m,
        5 => m.saturating_sub(1),
        6 => m.saturating_add(1).min(20_001),
        7 => if rng.chance(1, 5) { 16383 + rng.usize(3) } else { 4 + rng.usize(60) },
        8 => 255 + rng.usize(3),
        _ => rng.usize(40),
    }
}

/// random split of a byte stream into chunks (empty chunks allowed)
fn split(rng: &mut Rng, stream: &[u8]) -> Vec<Vec<u8>> {
    let mode = rng.below(5);
    let mut out = vec![];
    let mut i = 0;
    if mode == 0 {
        return vec![stream.to_vec()];
    }
    if mode == 1 && stream.len() <= 64 {
        return stream.iter().map(|b| vec![*b]).collect();
    }
    while i < stream.len() {
        let n = match rng.below(6) {
            0 => 0,
            1 => 1,
            2 => 2,
            3 => 1 + rng.usize(9),
            4 => 1 + rng.usize(200),
            _ => 1 + rng.usize(stream.len() - i),
        }
        .min(stream.len() - i);
        out.push(stream[i..i + n].to_vec());
        i += n;
    }
    if rng.chance(1, 4) {
        out.push(vec![]);
    }
    out
}

fn chunks_tok(chunks: &[Vec<u8>]) -> String {
    let ne: Vec<String> = chunks.iter().filter(|c| !c.is_empty()).map(|c| hex(c)).collect();
    if ne.is_empty() {
        "-".into()
    } else {
        ne.join(",")
    }
}

fn gen_roundtrip(rng: &mut Rng) -> Case {
    let max = *rng.pick(MAXES);
    let k = rng.usize(6);
    let mut ops = vec![];
    let mut stream = vec![];
    for _ in 0..k {
        let mut n = pick_size(rng, max);
        if n > max && rng.chance(4, 5) {
            n = max.min(n);
        }
        let body = rng.bytes(n);
        ops.push(op2("enc", hex(&body)));
        stream.extend(real_encode(max, &body));
    }
    if rng.chance(1, 5) && !stream.is_empty() {
        // truncated tail
        let cut = rng.usize(stream.len());
        stream.truncate(cut);
    }
    let chunks = split(rng, &stream);
    for c in &chunks {
        ops.push(op2("dec", hex(c)));
    }
    ops.push(op2("framed", chunks_tok(&chunks)));
    Case { cls: "roundtrip", nt: k > 0, max, ops }
}

/// hand-made length prefixes around every boundary of the varint reader and the limit
fn crafted_prefix(rng: &mut Rng, max: usize) -> Vec<u8> {
    let m = max as u64;
    match rng.below(16) {
        0 => uvi(m),
        1 => uvi(m.wrapping_add(1)),
        2 => uvi(1 << 63),
        3 => uvi(u64::MAX),
        4 => uvi(u32::MAX as u64 + rng.below(3)),
        5 => {
            // 10 bytes, last byte 0x01..0x7f (bits above 63 silently dropped by `<<`)
            let mut v = vec![0x80 | rng.below(128) as u8; 9];
            v.push(1 + rng.below(127) as u8);
            v
        }
        6 => vec![0xff; 10 + rng.usize(3)], // overflow
        7 => {
            // not minimal: trailing zero byte
            let mut v = vec![0x80 | rng.below(128) as u8; 1 + rng.usize(9)];
            v.push(0);
            v
        }
        8 => vec![0x80; 9 + rng.usize(2)].into_iter().chain([0x00]).collect(),
        9 => vec![0],
        10 => uvi(rng.below(6)),
        11 => uvi(127 + rng.below(3)),
        12 => uvi(16383 + rng.below(3)),
        13 => uvi(u64::MAX - rng.below(12)),
        14 => {
            let n = 1 + rng.usize(9);
            vec![0x80 | rng.below(128) as u8; n] // unterminated
        }
        _ => {
            let n = 1 + rng.usize(11);
            rng.bytes(n)
        }
    }
}

fn gen_arbitrary(rng: &mut Rng) -> Case {
    let max = *rng.pick(MAXES);
    let mut stream = vec![];
    let parts = 1 + rng.usize(4);
    for _ in 0..parts {
        if rng.chance(1, 3) {
            let n = rng.usize(8);
            let body = rng.bytes(n.min(max));
            stream.extend(real_encode(max, &body));
        } else {
            stream.extend(crafted_prefix(rng, max));
            let n = rng.usize(12);
            if rng.chance(1, 2) {
                stream.extend(rng.bytes(n));
            } else {
                stream.extend(std::iter::repeat_n(rng.below(256) as u8, n));
            }
        }
    }
    let chunks = split(rng, &stream);
    let mut ops: Vec<Vec<String>> = chunks.iter().map(|c| op2("dec", hex(c))).collect();
    ops.push(op2("framed", chunks_tok(&chunks)));
    Case { cls: "arbitrary", nt: true, max, ops }
}

fn mutate(rng: &mut Rng, stream: &mut Vec<u8>) {
    if stream.is_empty() {
        stream.push(rng.below(256) as u8);
        return;
    }
    let i = rng.usize(stream.len());
    match rng.below(4) {
        0 => stream[i] ^= 1 << rng.below(8),
        1 => stream.insert(i, rng.below(256) as u8),
        2 => {
            stream.remove(i);
        }
        _ => stream[i] = *rng.pick(&[0x00, 0x7f, 0x80, 0xff, 0x01]),
    }
}

fn gen_mutated(rng: &mut Rng) -> Case {
    let max = *rng.pick(&[1usize, 5, 127, 128, 300, u32::MAX as usize]);
    let mut stream = vec![];
    for _ in 0..1 + rng.usize(4) {
        let n = pick_size(rng, max).min(max).min(400);
        stream.extend(real_encode(max, &rng.bytes(n)));
    }
    for _ in 0..1 + rng.usize(2) {
        mutate(rng, &mut stream);
    }
    let chunks = split(rng, &stream);
    let mut ops: Vec<Vec<String>> = chunks.iter().map(|c| op2("dec", hex(c))).collect();
    ops.push(op2("framed", chunks_tok(&chunks)));
    Case { cls: "mutated", nt: true, max, ops }
}

fn gen_pb(rng: &mut Rng) -> Case {
    let max = *rng.pick(&[0usize, 2, 5, 130, 131, 300, 20_000, u32::MAX as usize]);
    let k = 1 + rng.usize(4);
    let mut ops = vec![];
    let mut stream = vec![];
    for _ in 0..k {
        let n = match rng.below(6) {
            0 => 0,
            1 => 1,
            2 => 126 + rng.usize(4),
            3 => max.saturating_sub(2 + rng.usize(3)).min(17_000),
            _ => rng.usize(30),
        };
        let data = rng.bytes(n);
        ops.push(op2("penc", hex(&data)));
        stream.extend(real_pencode(max, &data));
    }
    let mutated = rng.chance(1, 3);
    if mutated {
        mutate(rng, &mut stream);
    }
    for c in split(rng, &stream) {
        ops.push(op2("pdec", hex(&c)));
    }
    Case { cls: if mutated { "pb-mutated" } else { "pb-roundtrip" }, nt: true, max, ops }
}

/// every split of a short stream into `parts` chunks
fn all_splits(stream: &[u8], parts: usize, f: &mut dyn FnMut(Vec<Vec<u8>>)) {
    fn go(stream: &[u8], parts: usize, acc: &mut Vec<Vec<u8>>, f: &mut dyn FnMut(Vec<Vec<u8>>)) {
        if parts == 1 {
            acc.push(stream.to_vec());
            f(acc.clone());
            acc.pop();
            return;
        }
        for i in 0..=stream.len() {
            acc.push(stream[..i].to_vec());
            go(&stream[i..], parts - 1, acc, f);
            acc.pop();
        }
    }
    go(stream, parts, &mut vec![], f)
}

pub fn run(args: &Args, out: &mut Out) {
    if let Some(cases) = args.replay_cases() {
        for (i, (hdr, ops)) in cases.iter().enumerate() {
            let max = hdr
                .iter()
                .find_map(|t| t.strip_prefix("max=").and_then(|v| v.parse::<usize>().ok()))
                .unwrap_or(0);
            let c = Case { cls: "replay", nt: true, max, ops: ops.clone() };
            emit(out, i as u64, &c);
        }
        return;
    }
    let mut idx = 0u64;
    // 1. fixed short streams, all splits into 2 (quick) / 2 and 3 (thorough) chunks
    let fixed: Vec<(usize, Vec<Vec<u8>>, Vec<u8>)> = vec![
        (5, vec![vec![1, 2, 3], vec![], vec![9]], vec![]),
        (3, vec![vec![7; 3], vec![8; 4]], vec![]),              // second message over the limit
        (200, vec![vec![0xab; 130]], vec![]),                   // two-byte prefix
        (2, vec![vec![], vec![1], vec![1, 2]], vec![2, 5]),      // truncated tail
        (0, vec![vec![], vec![]], vec![1, 0]),                   // limit 0: only empty messages pass
        (4, vec![vec![1]], vec![0x80, 0x00, 0x01]),              // not-minimal prefix after a good frame
    ];
    for (max, bodies, tail) in &fixed {
        let mut stream = vec![];
        for b in bodies {
            stream.extend(real_encode(*max, b));
        }
        stream.extend(tail);
        let mut variants: Vec<Vec<Vec<u8>>> = vec![];
        all_splits(&stream, 2, &mut |c| variants.push(c));
        if args.thorough && stream.len() <= 16 {
            all_splits(&stream, 3, &mut |c| variants.push(c));
        }
        for chunks in variants {
            let mut ops: Vec<Vec<String>> = bodies.iter().map(|b| op2("enc", hex(b))).collect();
            for c in &chunks {
                ops.push(op2("dec", hex(c)));
            }
            ops.push(op2("framed", chunks_tok(&chunks)));
            emit(out, idx, &Case { cls: "allsplits", nt: true, max: *max, ops });
            idx += 1;
        }
    }
    // 2. bounded-exhaustive: every byte string up to length L over a boundary alphabet, in one chunk
    //    and (thorough) under every 2-split
    let alpha: [u8; 8] = [0x00, 0x01, 0x02, 0x03, 0x7f, 0x80, 0x81, 0xff];
    let maxlen = if args.thorough { 4 } else { 3 };
    if args.count == 0 {
        for max in [0usize, 1, 2] {
            for len in 0..=maxlen {
                let total = 8usize.pow(len as u32);
                for code in 0..total {
                    let mut s = vec![];
                    let mut c = code;
                    for _ in 0..len {
                        s.push(alpha[c % 8]);
                        c /= 8;
                    }
                    let mut variants: Vec<Vec<Vec<u8>>> = vec![vec![s.clone()]];
                    if args.thorough && len >= 2 {
                        for i in 1..len {
                            variants.push(vec![s[..i].to_vec(), s[i..].to_vec()]);
                        }
                    }
                    for chunks in variants {
                        let mut ops: Vec<Vec<String>> = chunks.iter().map(|c| op2("dec", hex(c))).collect();
                        ops.push(op2("framed", chunks_tok(&chunks)));
                        emit(out, idx, &Case { cls: "exhaustive", nt: len > 0, max, ops });
                        idx += 1;
                    }
                }
            }
        }
    }
    // 3. random classes
    let n = args.n(1600, 40_000);
    for i in 0..n {
        let mut rng = Rng::for_case(args.seed, i);
        let c = match i % 8 {
            0 | 1 | 2 => gen_roundtrip(&mut rng),
            3 | 4 => gen_arbitrary(&mut rng),
            5 => gen_mutated(&mut rng),
            _ => gen_pb(&mut rng),
        };
        emit(out, idx, &c);
        idx += 1;
    }
}
