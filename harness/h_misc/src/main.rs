//! Harness binary `h_misc <PROP> --seed S --tier T [--count N] [--replay F]`.
//! One module per property (`cNN.rs`, `pub fn run(args: &hcore::Args, out: &mut hcore::Out)`).
mod c56;
mod c57;

fn main() {
    let args = hcore::Args::parse();
    hcore::quiet_panics();
    let mut out = hcore::Out::new();
    match args.prop.as_str() {
        "C56" => c56::run(&args, &mut out),
        "C57" => c57::run(&args, &mut out),
        p => {
            let _ = &mut out;
            eprintln!("h_misc: unknown property {p}");
            std::process::exit(2);
        }
    }
    #[allow(unreachable_code)]
    out.flush();
}
