//! Op alphabet, executor and generators shared by C28 and C29: the real `Behaviour` is driven
//! through `VerifNode`; after every op the meshes, fanout, notifications, GRAFT/PRUNE RPCs, peer
//! table and backoff flags are printed (see `lean/Libp2pModel/Driver/C28Node.lean`).
use std::{collections::BTreeSet, time::Duration};

use libp2p_gossipsub::{
    verif_c28::{Emitted, PeerKind, Sent},
    ConfigBuilder, PeerScoreThresholds,
};

use crate::node::{comma, dot, Node, N_PEERS, N_TOPICS};

pub const SEC: u64 = 1_000_000_000;

#[derive(Clone, Debug)]
pub struct Cfg {
    pub mesh_n: usize,
    pub mesh_low: usize,
    pub mesh_high: usize,
    pub out_min: usize,
    pub prune_bo: u64,
    pub unsub_bo: u64,
    pub scoring: bool,
    pub opp_ticks: u64,
    pub opp_peers: usize,
    pub opp_thr: i64,
    pub hb: u64,
    pub slack: u32,
}

impl Cfg {
    pub fn small() -> Cfg {
        Cfg {
            mesh_n: 2,
            mesh_low: 1,
            mesh_high: 3,
            out_min: 0,
            prune_bo: 10,
            unsub_bo: 3,
            scoring: false,
            opp_ticks: 60,
            opp_peers: 2,
            opp_thr: 5,
            hb: SEC,
            slack: 1,
        }
    }
    fn header(&self) -> String {
        format!(
            "mesh_n={} mesh_low={} mesh_high={} out_min={} prune_bo={} unsub_bo={} scoring={} opp_ticks={} opp_peers={} opp_thr={} hb={} slack={}",
            self.mesh_n, self.mesh_low, self.mesh_high, self.out_min, self.prune_bo, self.unsub_bo, self.scoring as u8,
            self.opp_ticks, self.opp_peers, self.opp_thr, self.hb, self.slack
        )
    }
    fn parse(h: &[String]) -> Cfg {
        let get = |k: &str, d: u64| -> u64 {
            h.iter().find_map(|t| t.strip_prefix(&format!("{k}=")).map(|v| v.parse().expect("number"))).unwrap_or(d)
        };
        let d = Cfg::small();
        Cfg {
            mesh_n: get("mesh_n", d.mesh_n as u64) as usize,
            mesh_low: get("mesh_low", d.mesh_low as u64) as usize,
            mesh_high: get("mesh_high", d.mesh_high as u64) as usize,
            out_min: get("out_min", d.out_min as u64) as usize,
            prune_bo: get("prune_bo", d.prune_bo),
            unsub_bo: get("unsub_bo", d.unsub_bo),
            scoring: get("scoring", 0) == 1,
            opp_ticks: get("opp_ticks", d.opp_ticks),
            opp_peers: get("opp_peers", d.opp_peers as u64) as usize,
            opp_thr: get("opp_thr", d.opp_thr as u64) as i64,
            hb: get("hb", d.hb),
            slack: get("slack", d.slack as u64) as u32,
        }
    }
}

#[derive(Clone, Debug)]
pub enum Op {
    Connect(usize, usize, bool),
    Kind(usize, bool),
    Disconnect(usize, usize),
    Explicit(usize),
    Score(usize, i64),
    Subs(usize, Vec<(bool, usize)>),
    Graft(usize, Vec<usize>),
    Prune(usize, Vec<(usize, Option<u64>)>),
    Subscribe(usize),
    Unsubscribe(usize),
    Publish(usize),
    Hb,
}

fn build(cfg: &Cfg) -> Node {
    let mut b = ConfigBuilder::default();
    b.mesh_n(cfg.mesh_n)
        .mesh_n_low(cfg.mesh_low)
        .mesh_n_high(cfg.mesh_high)
        .mesh_outbound_min(cfg.out_min)
        .prune_backoff(Duration::from_secs(cfg.prune_bo))
        .unsubscribe_backoff(Duration::from_secs(cfg.unsub_bo))
        .backoff_slack(cfg.slack)
        .heartbeat_interval(Duration::from_nanos(cfg.hb))
        .opportunistic_graft_ticks(cfg.opp_ticks)
        .opportunistic_graft_peers(cfg.opp_peers)
        .check_explicit_peers_ticks(1_000_000)
        .flood_publish(false);
    let config = b.build().expect("config");
    let th = cfg.scoring.then(|| PeerScoreThresholds {
        gossip_threshold: -5.0,
        publish_threshold: -10.0,
        graylist_threshold: -1000.0,
        accept_px_threshold: 10.0,
        opportunistic_graft_threshold: cfg.opp_thr as f64,
    });
    Node::new(config, th)
}

pub struct Run {
    pub node: Node,
    pub cfg: Cfg,
    pub lines: Vec<String>,
    explicit: BTreeSet<usize>,
    counter: u64,
    pub heartbeats: usize,
    pub mesh_changes: usize,
}

impl Run {
    pub fn new(cfg: Cfg) -> Run {
        crate::set_now(0);
        Run { node: build(&cfg), cfg, lines: vec![], explicit: BTreeSet::new(), counter: 0, heartbeats: 0, mesh_changes: 0 }
    }

    fn scores_tok(&self) -> String {
        let es: Vec<String> = self.node.peers().iter().map(|p| format!("{}:{}", p.0, self.node.score(p.0))).collect();
        if es.is_empty() || !self.cfg.scoring {
            "-".into()
        } else {
            es.join(",")
        }
    }

    fn conns(&self, p: usize) -> Vec<usize> {
        self.node.peers().iter().find(|e| e.0 == p).map(|e| e.3.clone()).unwrap_or_default()
    }

    fn peers_tok(&self) -> String {
        let es: Vec<String> = self
            .node
            .peers()
            .iter()
            .map(|(p, g, o, cs, ts)| {
                format!("{}{}{}:{}:{}", p, if *g { "g" } else { "f" }, if *o { "o" } else { "i" }, dot(cs), dot(ts))
            })
            .collect();
        if es.is_empty() {
            "-".into()
        } else {
            es.join(";")
        }
    }

    fn pairs_tok(&self, f: impl Fn(usize, usize) -> bool) -> String {
        let mut es = vec![];
        for t in 0..N_TOPICS {
            for p in 0..N_PEERS {
                if f(t, p) {
                    es.push(format!("{t}.{p}"));
                }
            }
        }
        if es.is_empty() {
            "-".into()
        } else {
            es.join(",")
        }
    }

    fn mesh_tok(&self) -> String {
        self.node.map_tok(|t| self.node.mesh(t))
    }

    fn fan_tok(&self) -> String {
        self.node.map_tok(|t| self.node.fanout(t))
    }

    /// GRAFT / PRUNE RPCs queued for the given peers, canonical
    fn rpc_tok(&mut self, peers: &BTreeSet<usize>) -> String {
        let mut es = vec![];
        for &p in peers {
            let mut mine: Vec<(u64, String)> = vec![];
            for s in self.node.drain_rpcs(p) {
                match s {
                    Sent::Graft(t) => {
                        let t = self.node.tnum(&t) as u64;
                        mine.push((t * 1_000_000, format!("G{t}")));
                    }
                    Sent::Prune { topic, backoff, .. } => {
                        let t = self.node.tnum(&topic) as u64;
                        match backoff {
                            Some(b) => mine.push((t * 1_000_000 + b + 1, format!("P{t}b{b}"))),
                            None => mine.push((t * 1_000_000 + 999_999, format!("P{t}bx"))),
                        }
                    }
                    _ => {}
                }
            }
            mine.sort();
            if !mine.is_empty() {
                es.push(format!("{}:{}", p, mine.into_iter().map(|e| e.1).collect::<Vec<_>>().join(".")));
            }
        }
        if es.is_empty() {
            "-".into()
        } else {
            es.join(";")
        }
    }

    fn notif_tok(&mut self) -> String {
        let mut groups: Vec<((usize, usize), String)> = vec![];
        for e in self.node.drain_events() {
            let (p, c, l) = match e {
                Emitted::JoinedMesh { peer, connection } => (peer, connection, 'J'),
                Emitted::LeftMesh { peer, connection } => (peer, connection, 'L'),
                Emitted::NotifyOther { peer, joined } => {
                    groups.push(((self.node.pnum(&peer), 999_999), if joined { "J".into() } else { "L".into() }));
                    continue;
                }
                _ => continue,
            };
            let key = (self.node.pnum(&p), c.to_string().parse::<usize>().unwrap());
            match groups.iter_mut().find(|g| g.0 == key) {
                Some(g) => g.1.push(l),
                None => groups.push((key, l.to_string())),
            }
        }
        groups.sort();
        if groups.is_empty() {
            "-".into()
        } else {
            groups.iter().map(|((p, c), s)| format!("{p}@{c}:{s}")).collect::<Vec<_>>().join(";")
        }
    }

    /// returns false when the op is not executable in the current state (skipped, nothing printed)
    pub fn exec(&mut self, now: u64, op: &Op) -> bool {
        // validity (swarm-level consistency the behaviour relies on)
        match op {
            Op::Connect(p, c, _) => {
                if *p >= N_PEERS || self.node.peers().iter().any(|e| e.3.contains(c)) {
                    return false;
                }
            }
            Op::Disconnect(p, c) => {
                if !self.conns(*p).contains(c) {
                    return false;
                }
            }
            Op::Explicit(p) => {
                // outside the property's quantifier: making a current mesh member explicit
                if (0..N_TOPICS).any(|t| self.node.mesh(t).is_some_and(|m| m.contains(p))) {
                    return false;
                }
            }
            _ => {}
        }
        crate::set_now(now.max(crate::now_ns()));
        let now = crate::now_ns();
        let mut involved: BTreeSet<usize> = self.node.peers().iter().map(|p| p.0).collect();
        let sc = self.scores_tok();
        let mesh_before = self.mesh_tok();
        let op_line = match op {
            Op::Connect(p, c, outbound) => {
                let id = self.node.pid(*p);
                let n = self.conns(*p).len();
                self.node.v.connect(id, *c, *outbound, n);
                format!("connect {} {} {}", p, c, if *outbound { "o" } else { "i" })
            }
            Op::Kind(p, g) => {
                let id = self.node.pid(*p);
                let c = self.conns(*p).first().copied().unwrap_or(0);
                self.node.v.peer_kind(id, c, if *g { PeerKind::Gossipsubv1_1 } else { PeerKind::Floodsub });
                format!("kind {} {}", p, if *g { "g" } else { "f" })
            }
            Op::Disconnect(p, c) => {
                let id = self.node.pid(*p);
                let n = self.conns(*p).len();
                self.node.v.disconnect(id, *c, n - 1);
                format!("disconnect {p} {c}")
            }
            Op::Explicit(p) => {
                let id = self.node.pid(*p);
                self.node.v.gs.add_explicit_peer(&id);
                self.explicit.insert(*p);
                format!("explicit {p}")
            }
            Op::Score(p, x) => {
                let id = self.node.pid(*p);
                self.node.v.gs.set_application_score(&id, *x as f64);
                format!("score {p} {x}")
            }
            Op::Subs(p, l) => {
                let id = self.node.pid(*p);
                let c = self.conns(*p).first().copied().unwrap_or(0);
                let subs = l.iter().map(|(a, t)| (*a, self.node.th(*t))).collect();
                self.node.v.recv_rpc(id, c, subs, vec![], vec![], vec![]);
                let toks: Vec<String> = l.iter().map(|(a, t)| format!("{}{}", if *a { "+" } else { "-" }, t)).collect();
                format!("subs {} {}", p, if toks.is_empty() { "-".to_string() } else { toks.join(",") })
            }
            Op::Graft(p, ts) => {
                let id = self.node.pid(*p);
                let c = self.conns(*p).first().copied().unwrap_or(0);
                let grafts = ts.iter().map(|t| self.node.th(*t)).collect();
                self.node.v.recv_rpc(id, c, vec![], grafts, vec![], vec![]);
                format!("graft {} {}", p, comma(ts))
            }
            Op::Prune(p, l) => {
                let id = self.node.pid(*p);
                let c = self.conns(*p).first().copied().unwrap_or(0);
                let prunes = l.iter().map(|(t, b)| (self.node.th(*t), vec![], *b)).collect();
                self.node.v.recv_rpc(id, c, vec![], vec![], prunes, vec![]);
                let toks: Vec<String> =
                    l.iter().map(|(t, b)| format!("{}:{}", t, b.map(|b| b.to_string()).unwrap_or("-".into()))).collect();
                format!("prune {} {}", p, if toks.is_empty() { "-".to_string() } else { toks.join(",") })
            }
            Op::Subscribe(t) => {
                let topic = self.node.topics[*t].clone();
                let _ = self.node.v.subscribe(&topic);
                format!("subscribe {} {}", t, comma(&self.node.mesh(*t).unwrap_or_default()))
            }
            Op::Unsubscribe(t) => {
                let topic = self.node.topics[*t].clone();
                let _ = self.node.v.unsubscribe(&topic);
                format!("unsubscribe {t}")
            }
            Op::Publish(t) => {
                self.counter += 1;
                let _ = self.node.v.publish(self.node.th(*t), self.counter.to_be_bytes().to_vec());
                let f = match self.node.fanout(*t) {
                    None => "x".to_string(),
                    Some(l) => dot(&l),
                };
                format!("publish {t} {f}")
            }
            Op::Hb => {
                self.node.v.heartbeat();
                self.heartbeats += 1;
                format!("hb {} {}", self.mesh_tok(), self.fan_tok())
            }
        };
        involved.extend(self.node.peers().iter().map(|p| p.0));
        let rpc = self.rpc_tok(&involved);
        let notifs = self.notif_tok();
        let mesh = self.mesh_tok();
        if mesh != mesh_before {
            self.mesh_changes += 1;
        }
        self.lines.push(format!("op {now} {sc} {op_line}"));
        self.lines.push(format!(
            "impl ok mesh={} fan={} n={} rpc={} peers={} ex={} bo={} bn={}",
            mesh,
            self.fan_tok(),
            notifs,
            rpc,
            self.peers_tok(),
            comma(&self.explicit.iter().copied().collect::<Vec<_>>()),
            self.pairs_tok(|t, p| self.node.v.is_backoff_with_slack(&self.node.th(t), &self.node.pid(p))),
            self.pairs_tok(|t, p| self.node.v.is_backoff_now(&self.node.th(t), &self.node.pid(p))),
        ));
        true
    }
}

pub fn emit(out: &mut hcore::Out, idx: u64, class: &str, cfg: &Cfg, ops: &[(u64, Op)]) {
    let cfg2 = cfg.clone();
    let ops2 = ops.to_vec();
    let r = hcore::guarded(move || {
        let mut run = Run::new(cfg2);
        for (now, o) in &ops2 {
            run.exec(*now, o);
        }
        (run.lines, run.heartbeats > 0 && run.mesh_changes >= 2)
    });
    let (lines, nt) = match r {
        Ok(x) => x,
        Err(msg) => (vec!["op 0 - panic".to_string(), format!("impl panic {msg}")], false),
    };
    out.case(idx, &format!("{} nt={} {}", class, nt as u8, cfg.header()));
    for l in lines {
        out.raw(&l);
    }
    out.end();
}

/// connect + kind for a gossipsub peer with connection id = 10 * p
fn peer_up(p: usize, outbound: bool) -> Vec<(u64, Op)> {
    vec![(0, Op::Connect(p, 10 * p, outbound)), (0, Op::Kind(p, true))]
}

pub fn scripted() -> Vec<(&'static str, Cfg, Vec<(u64, Op)>)> {
    let base = Cfg::small();
    let mut v = vec![];
    // DESIGN §8 row 8: one heartbeat grafts a peer in two topics at once
    {
        let mut ops = vec![(0, Op::Subscribe(0)), (0, Op::Subscribe(1)), (0, Op::Connect(0, 7, false))];
        // subscriptions arrive before the protocol is known (kind still floodsub): no immediate graft
        ops.push((0, Op::Subs(0, vec![(true, 0), (true, 1)])));
        ops.push((0, Op::Kind(0, true)));
        ops.push((SEC, Op::Hb));
        ops.push((2 * SEC, Op::Hb));
        // leaving both meshes again: two PRUNEs received in one RPC
        ops.push((3 * SEC, Op::Prune(0, vec![(0, None), (1, Some(1))])));
        ops.push((3 * SEC, Op::Disconnect(0, 7)));
        v.push(("hb-multi-graft", base.clone(), ops));
    }
    // same through scores: negative at subscription time, repaired before the heartbeat; three topics
    {
        let cfg = Cfg { scoring: true, ..base.clone() };
        let mut ops = vec![(0, Op::Subscribe(0)), (0, Op::Subscribe(1)), (0, Op::Subscribe(2))];
        ops.extend(peer_up(3, true));
        ops.push((0, Op::Score(3, -1)));
        ops.push((0, Op::Subs(3, vec![(true, 0), (true, 1), (true, 2)])));
        ops.push((0, Op::Score(3, 0)));
        ops.push((SEC, Op::Hb));
        ops.push((SEC, Op::Score(3, -2)));
        ops.push((2 * SEC, Op::Hb)); // pruned from all three in one heartbeat
        v.push(("hb-multi-graft-score", cfg, ops));
    }
    // graft in one topic + prune in another in one heartbeat; second connection promoted
    {
        let cfg = Cfg { mesh_n: 1, mesh_low: 1, mesh_high: 1, ..base.clone() };
        let mut ops = vec![(0, Op::Subscribe(0))];
        ops.extend(peer_up(0, false));
        ops.extend(peer_up(1, false));
        ops.push((0, Op::Connect(0, 1, false)));
        ops.push((0, Op::Subs(0, vec![(true, 0), (true, 1)])));
        ops.push((0, Op::Subs(1, vec![(true, 0), (true, 1)])));
        ops.push((0, Op::Graft(1, vec![0])));
        ops.push((0, Op::Subscribe(1)));
        ops.push((SEC, Op::Hb));
        ops.push((SEC, Op::Disconnect(0, 0)));
        ops.push((SEC, Op::Disconnect(1, 10)));
        ops.push((2 * SEC, Op::Hb));
        ops.push((2 * SEC, Op::Unsubscribe(0)));
        ops.push((2 * SEC, Op::Unsubscribe(1)));
        v.push(("graft-and-prune", cfg, ops));
    }
    // GRAFT from a peer that only negotiated floodsub; GRAFT into a full mesh; GRAFT inside the backoff
    {
        let cfg = Cfg { mesh_n: 1, mesh_low: 1, mesh_high: 2, ..base.clone() };
        let mut ops = vec![(0, Op::Subscribe(0)), (0, Op::Connect(4, 40, false)), (0, Op::Graft(4, vec![0]))];
        ops.push((0, Op::Kind(4, false)));
        ops.push((0, Op::Graft(4, vec![0, 1])));
        ops.extend(peer_up(0, false));
        ops.extend(peer_up(1, true));
        ops.extend(peer_up(2, false));
        ops.push((0, Op::Graft(0, vec![0])));
        ops.push((0, Op::Graft(1, vec![0])));
        ops.push((0, Op::Graft(2, vec![0]))); // full: refused with PRUNE
        ops.push((SEC, Op::Graft(2, vec![0]))); // inside the backoff: PRUNE
        ops.push((SEC, Op::Prune(0, vec![(0, Some(2))])));
        ops.push((2 * SEC, Op::Graft(0, vec![0]))); // still backed off (2 s from t = 1 s)
        ops.push((3 * SEC, Op::Graft(0, vec![0]))); // accepted: expiry is not > now
        ops.push((3 * SEC, Op::Hb));
        ops.push((20 * SEC, Op::Graft(2, vec![0, 0])));
        v.push(("graft-rules", cfg, ops));
    }
    // explicit peers are never grafted; fanout promoted by join
    {
        let mut ops = vec![(0, Op::Explicit(5))];
        ops.extend(peer_up(5, false));
        ops.extend(peer_up(6, false));
        ops.extend(peer_up(7, true));
        ops.push((0, Op::Subs(5, vec![(true, 2)])));
        ops.push((0, Op::Subs(6, vec![(true, 2)])));
        ops.push((0, Op::Subs(7, vec![(true, 2)])));
        ops.push((0, Op::Publish(2)));
        ops.push((0, Op::Publish(2)));
        ops.push((0, Op::Subscribe(2)));
        ops.push((0, Op::Graft(5, vec![2])));
        ops.push((SEC, Op::Hb));
        ops.push((SEC, Op::Unsubscribe(2)));
        ops.push((2 * SEC, Op::Subscribe(2)));
        ops.push((20 * SEC, Op::Hb));
        v.push(("explicit-fanout-join", base.clone(), ops));
    }
    v
}

pub fn random_case(rng: &mut hcore::Rng) -> (Cfg, Vec<(u64, Op)>) {
    let mesh_n = 1 + rng.usize(4);
    let mesh_low = 1 + rng.usize(mesh_n);
    let mesh_high = mesh_n + rng.usize(3);
    let out_min = rng.usize(mesh_low.min(mesh_n / 2) + 1);
    let cfg = Cfg {
        mesh_n,
        mesh_low,
        mesh_high,
        out_min,
        prune_bo: *rng.pick(&[2, 5, 60]),
        unsub_bo: *rng.pick(&[1, 4]),
        scoring: rng.chance(1, 2),
        opp_ticks: *rng.pick(&[1, 2, 60]),
        opp_peers: 1 + rng.usize(2),
        opp_thr: *rng.pick(&[1, 5]),
        hb: SEC,
        slack: rng.below(3) as u32,
    };
    let npeers = 2 + rng.usize(7);
    let ntopics = 1 + rng.usize(3);
    let nops = 15 + rng.usize(90);
    let mut ops: Vec<(u64, Op)> = vec![];
    let mut now = 0u64;
    let mut conns: Vec<Vec<usize>> = vec![vec![]; npeers];
    let mut next_conn = 0usize;
    // frequently start subscribed, so that meshes exist early
    for t in 0..ntopics {
        if rng.chance(3, 4) {
            ops.push((0, Op::Subscribe(t)));
        }
    }
    for _ in 0..nops {
        if rng.chance(1, 4) {
            now += *rng.pick(&[1, 1_000_000, SEC / 2, SEC, SEC, 2 * SEC, cfg.prune_bo * SEC, cfg.unsub_bo * SEC]);
        }
        let p = rng.usize(npeers);
        let t = rng.usize(ntopics);
        let k = rng.below(100);
        let topics = |rng: &mut hcore::Rng| -> Vec<usize> {
            let n = 1 + rng.usize(3);
            (0..n).map(|_| rng.usize(ntopics)).collect()
        };
        let op = if conns[p].is_empty() && rng.chance(2, 3) {
            let c = next_conn;
            next_conn += 1;
            conns[p].push(c);
            let outbound = rng.chance(2, 5);
            ops.push((now, Op::Connect(p, c, outbound)));
            if rng.chance(1, 8) {
                // subscriptions (or a GRAFT) before the protocol is known
                if rng.bool() {
                    Op::Subs(p, topics(rng).into_iter().map(|t| (true, t)).collect())
                } else {
                    Op::Graft(p, topics(rng))
                }
            } else {
                Op::Kind(p, !rng.chance(1, 8))
            }
        } else if k < 18 {
            let l = topics(rng).into_iter().map(|t| (!rng.chance(1, 4), t)).collect();
            Op::Subs(p, l)
        } else if k < 30 {
            Op::Graft(p, topics(rng))
        } else if k < 40 {
            let l = topics(rng)
                .into_iter()
                .map(|t| (t, *rng.pick(&[None, Some(0), Some(1), Some(cfg.prune_bo), Some(7), Some(4000)])))
                .collect();
            Op::Prune(p, l)
        } else if k < 58 {
            now += *rng.pick(&[0, SEC, SEC, SEC, 3 * SEC]);
            Op::Hb
        } else if k < 64 {
            Op::Subscribe(t)
        } else if k < 68 {
            Op::Unsubscribe(t)
        } else if k < 74 {
            if conns[p].is_empty() {
                Op::Hb
            } else {
                let i = rng.usize(conns[p].len());
                let c = conns[p].remove(i);
                Op::Disconnect(p, c)
            }
        } else if k < 79 {
            let c = next_conn;
            next_conn += 1;
            conns[p].push(c);
            Op::Connect(p, c, rng.bool())
        } else if k < 82 {
            Op::Kind(p, !rng.chance(1, 4))
        } else if k < 84 {
            Op::Explicit(p)
        } else if k < 88 {
            Op::Publish(t)
        } else if cfg.scoring {
            Op::Score(p, *rng.pick(&[-3, -1, 0, 0, 1, 2, 4, 6, 9]))
        } else {
            Op::Subs(p, vec![(true, t)])
        };
        ops.push((now, op));
    }
    (cfg, ops)
}

fn parse_op(t: &[String]) -> Option<(u64, Op)> {
    let now: u64 = t.first()?.parse().ok()?;
    let t = &t[2..];
    let n = |i: usize| -> usize { t[i].parse().expect("number") };
    let list = |s: &str| -> Vec<usize> {
        if s == "-" {
            vec![]
        } else {
            s.split(',').map(|x| x.parse().expect("number")).collect()
        }
    };
    let op = match t.first()?.as_str() {
        "connect" => Op::Connect(n(1), n(2), t[3] == "o"),
        "kind" => Op::Kind(n(1), t[2] == "g"),
        "disconnect" => Op::Disconnect(n(1), n(2)),
        "explicit" => Op::Explicit(n(1)),
        "score" => Op::Score(n(1), t[2].parse().expect("score")),
        "subs" => {
            let l = if t[2] == "-" {
                vec![]
            } else {
                t[2].split(',').map(|e| (e.starts_with('+'), e[1..].parse().expect("topic"))).collect()
            };
            Op::Subs(n(1), l)
        }
        "graft" => Op::Graft(n(1), list(&t[2])),
        "prune" => {
            let l = if t[2] == "-" {
                vec![]
            } else {
                t[2].split(',')
                    .map(|e| {
                        let (a, b) = e.split_once(':').expect("t:b");
                        (a.parse().expect("topic"), if b == "-" { None } else { Some(b.parse().expect("backoff")) })
                    })
                    .collect()
            };
            Op::Prune(n(1), l)
        }
        "subscribe" => Op::Subscribe(n(1)),
        "unsubscribe" => Op::Unsubscribe(n(1)),
        "publish" => Op::Publish(n(1)),
        "hb" => Op::Hb,
        _ => return None,
    };
    Some((now, op))
}

pub fn run(args: &hcore::Args, out: &mut hcore::Out, quick: u64, thorough: u64) {
    if let Some(cases) = args.replay_cases() {
        for (i, (header, ops)) in cases.iter().enumerate() {
            let cfg = Cfg::parse(header);
            let ops: Vec<(u64, Op)> = ops.iter().filter_map(|t| parse_op(t)).collect();
            let class = header.get(1).cloned().unwrap_or_else(|| "replay".into());
            emit(out, i as u64, &class, &cfg, &ops);
        }
        return;
    }
    let mut idx = 0u64;
    for (class, cfg, ops) in scripted() {
        emit(out, idx, class, &cfg, &ops);
        idx += 1;
    }
    let n = args.n(quick, thorough);
    for _ in 0..n {
        let mut rng = hcore::Rng::for_case(args.seed, idx);
        let (cfg, ops) = random_case(&mut rng);
        emit(out, idx, "random", &cfg, &ops);
        idx += 1;
    }
}
