//! C29 — connection handlers know whether their peer is in a mesh. Ops, executor and generators are
//! shared with C28 (`gsops.rs`); the C29 driver folds the printed `JoinedMesh`/`LeftMesh`
//! notifications per connection and compares the belief with mesh membership after every op.
pub fn run(args: &hcore::Args, out: &mut hcore::Out) {
    crate::gsops::run(args, out, 500, 9000)
}
