//! Harness binary `h_gs_c <PROP> --seed S --tier T [--count N] [--replay F]`.
//! One module per property (`cNN.rs`, `pub fn run(args: &hcore::Args, out: &mut hcore::Out)`).
mod c28;
mod c29;
mod c35;
mod gsops;
mod node;

/// Virtual monotonic clock, FROZEN: `CLOCK_MONOTONIC` reads exactly `BASE_SECS` seconds +
/// `hcore::CLOCK_OFFSET_NS`, so `Instant::now()` inside the behaviour (backoffs, fanout ttl) is a
/// pure function of the op sequence; `hcore::warp` moves it.
pub const BASE_SECS: i64 = 1_000_000;

extern "C" {
    fn __clock_gettime(clk: i32, ts: *mut [i64; 2]) -> i32;
}

#[no_mangle]
pub unsafe extern "C" fn clock_gettime(clk: i32, ts: *mut [i64; 2]) -> i32 {
    if clk == 1 {
        let off = hcore::CLOCK_OFFSET_NS.load(std::sync::atomic::Ordering::SeqCst);
        let t = &mut *ts;
        t[0] = BASE_SECS + (off / 1_000_000_000) as i64;
        t[1] = (off % 1_000_000_000) as i64;
        return 0;
    }
    __clock_gettime(clk, ts)
}

/// virtual time in ns since the start of the case
pub fn now_ns() -> u64 {
    hcore::CLOCK_OFFSET_NS.load(std::sync::atomic::Ordering::SeqCst)
}

/// set the virtual time (a new case restarts at 0)
pub fn set_now(now: u64) {
    hcore::CLOCK_OFFSET_NS.store(now, std::sync::atomic::Ordering::SeqCst);
}

fn main() {
    let args = hcore::Args::parse();
    hcore::quiet_panics();
    let mut out = hcore::Out::new();
    match args.prop.as_str() {
        "C35" => c35::run(&args, &mut out),
        "C29" => c29::run(&args, &mut out),
        "C28" => c28::run(&args, &mut out),
        p => {
            eprintln!("h_gs_c: unknown property {p}");
            std::process::exit(2);
        }
    }
    out.flush();
}
