//! C35 — publishing without a subscription keeps its fanout peers.
//! Drives the real `Behaviour` (through `VerifNode`) with connect / subscription / publish /
//! heartbeat sequences and prints the fanout map + recipient set after every op.
use std::time::Duration;

use libp2p_gossipsub::{verif_c28::PeerKind, verif_c28::Sent, ConfigBuilder, PeerScoreThresholds, PublishError};

use crate::node::{comma, dot, parse_list, Node, N_TOPICS};

const PUB_THRESHOLD: i64 = -10;

#[derive(Clone, Debug)]
struct Cfg {
    mesh_n: usize,
    ttl: u64,
    flood: bool,
    scoring: bool,
    /// `connection_handler_queue_len`: capacity of every peer's non-priority send queue
    cap: usize,
}

#[derive(Clone, Debug)]
enum Op {
    Connect(usize, bool),
    Disconnect(usize),
    Explicit(usize),
    Subs(usize, Vec<(bool, usize)>),
    Subscribe(usize),
    Unsubscribe(usize),
    Score(usize, i64),
    Publish(usize, u64),
    Hb(u64),
    /// stop emptying the peer's handler queue after every op
    Hold(usize),
    /// empty the peer's handler queue now and after every op again
    Release(usize),
}

fn build(cfg: &Cfg) -> Node {
    let mut b = ConfigBuilder::default();
    b.mesh_n(cfg.mesh_n)
        .mesh_n_low(1.min(cfg.mesh_n))
        .mesh_n_high(cfg.mesh_n + 1)
        .mesh_outbound_min(0)
        .fanout_ttl(Duration::from_nanos(cfg.ttl))
        .flood_publish(cfg.flood)
        // no IHAVE gossip: `RpcOut::Publish` is the only traffic of the bounded non-priority queue
        .gossip_lazy(0)
        .gossip_factor(0.0)
        .connection_handler_queue_len(cfg.cap)
        .heartbeat_interval(Duration::from_secs(1));
    let config = b.build().expect("config");
    let th = cfg.scoring.then(|| PeerScoreThresholds {
        gossip_threshold: -5.0,
        publish_threshold: PUB_THRESHOLD as f64,
        graylist_threshold: -1000.0,
        accept_px_threshold: 10.0,
        opportunistic_graft_threshold: 5.0,
    });
    Node::new(config, th)
}

struct Run {
    node: Node,
    cfg: Cfg,
    lines: Vec<String>,
    counter: u64,
    /// publishes that went through the fanout branch
    fan_pubs: usize,
    /// peers whose queue is not being emptied
    held: std::collections::BTreeSet<usize>,
}

impl Run {
    fn new(cfg: Cfg) -> Run {
        crate::set_now(0);
        Run { node: build(&cfg), cfg, lines: vec![], counter: 0, fan_pubs: 0, held: Default::default() }
    }

    fn low(&self) -> Vec<usize> {
        if !self.cfg.scoring {
            return vec![];
        }
        self.node.peers().iter().filter(|p| self.node.score(p.0) < PUB_THRESHOLD).map(|p| p.0).collect()
    }

    fn subscribed(&self) -> Vec<usize> {
        (0..N_TOPICS).filter(|t| self.node.v.is_subscribed(&self.node.th(*t))).collect()
    }

    fn peers_tok(&self) -> String {
        let es: Vec<String> = self
            .node
            .peers()
            .iter()
            .map(|(p, g, _, _, ts)| format!("{}{}:{}", p, if *g { "g" } else { "f" }, dot(ts)))
            .collect();
        if es.is_empty() {
            "-".into()
        } else {
            es.join(";")
        }
    }

    fn fan_tok(&self) -> String {
        self.node.map_tok(|t| self.node.fanout(t))
    }

    /// drain the handler queues of the peers that are not held; returns those that were sent a `Publish`
    fn drain(&mut self, before: &[usize]) -> Vec<usize> {
        let mut got = vec![];
        for &p in before {
            if self.held.contains(&p) {
                continue;
            }
            if self.node.drain_rpcs(p).iter().any(|s| matches!(s, Sent::Publish { .. })) {
                got.push(p);
            }
        }
        self.node.drain_events();
        got.sort();
        got
    }

    fn exec(&mut self, op: &Op) {
        let before: Vec<usize> = self.node.peers().iter().map(|p| p.0).collect();
        let low = self.low();
        let mut res = "ok".to_string();
        let mut rcpt = "*".to_string();
        let mut q = "*".to_string();
        let op_line;
        match op {
            Op::Connect(p, g) => {
                let id = self.node.pid(*p);
                if !before.contains(p) {
                    self.node.v.connect(id, *p, false, 0);
                    if *g {
                        self.node.v.peer_kind(id, *p, PeerKind::Gossipsubv1_1);
                    }
                }
                op_line = format!("connect {} {}", p, if *g { "g" } else { "f" });
            }
            Op::Disconnect(p) => {
                if before.contains(p) {
                    let id = self.node.pid(*p);
                    self.node.v.disconnect(id, *p, 0);
                }
                op_line = format!("disconnect {p}");
            }
            Op::Explicit(p) => {
                let id = self.node.pid(*p);
                self.node.v.gs.add_explicit_peer(&id);
                op_line = format!("explicit {p}");
            }
            Op::Subs(p, l) => {
                let id = self.node.pid(*p);
                let subs = l.iter().map(|(a, t)| (*a, self.node.th(*t))).collect();
                self.node.v.recv_rpc(id, *p, subs, vec![], vec![], vec![]);
                let toks: Vec<String> = l.iter().map(|(a, t)| format!("{}{}", if *a { "+" } else { "-" }, t)).collect();
                op_line = format!("subs {} {}", p, if toks.is_empty() { "-".to_string() } else { toks.join(",") });
            }
            Op::Subscribe(t) => {
                let topic = self.node.topics[*t].clone();
                let _ = self.node.v.subscribe(&topic);
                op_line = format!("subscribe {t}");
            }
            Op::Unsubscribe(t) => {
                let topic = self.node.topics[*t].clone();
                let _ = self.node.v.unsubscribe(&topic);
                op_line = format!("unsubscribe {t}");
            }
            Op::Score(p, x) => {
                let id = self.node.pid(*p);
                self.node.v.gs.set_application_score(&id, *x as f64);
                op_line = format!("score {p} {x}");
            }
            Op::Publish(t, now) => {
                crate::set_now(*now);
                let fan_branch = !self.cfg.flood && !self.subscribed().contains(t);
                self.counter += 1;
                let data = self.counter.to_be_bytes().to_vec();
                let r = self.node.v.publish(self.node.th(*t), data);
                let got = self.drain(&before);
                if fan_branch {
                    self.fan_pubs += 1;
                    res = match r {
                        Ok(_) => "ok".into(),
                        Err(PublishError::NoPeersSubscribedToTopic) => "nopeers".into(),
                        Err(PublishError::AllQueuesFull(n)) => format!("full:{n}"),
                        Err(e) => format!("err:{e:?}").replace(' ', "_"),
                    };
                    rcpt = comma(&got);
                } else {
                    // recipients of mesh / flood publishes are not modelled: every queue is emptied
                    res = "*".into();
                    for &p in &before {
                        self.node.drain_rpcs(p);
                    }
                }
                let fa = match self.node.fanout(*t) {
                    None => "x".to_string(),
                    Some(l) => dot(&l),
                };
                op_line = format!("publish {} {} {} {}", t, now, comma(&low), fa);
            }
            Op::Hold(p) => {
                self.held.insert(*p);
                op_line = format!("hold {p}");
            }
            Op::Release(p) => {
                self.held.remove(p);
                let n = self.node.drain_rpcs(*p).iter().filter(|s| matches!(s, Sent::Publish { .. })).count();
                q = n.to_string();
                op_line = format!("release {p}");
            }
            Op::Hb(now) => {
                crate::set_now(*now);
                self.node.v.heartbeat();
                op_line = format!("hb {} {} {}", now, comma(&low), self.fan_tok());
            }
        }
        self.drain(&before);
        let after: Vec<usize> = self.node.peers().iter().map(|p| p.0).collect();
        self.drain(&after);
        self.lines.push(format!("op {op_line}"));
        self.lines.push(format!(
            "impl {} fan={} rcpt={} q={} peers={} sub={}",
            res,
            self.fan_tok(),
            rcpt,
            q,
            self.peers_tok(),
            comma(&self.subscribed())
        ));
    }
}

fn emit(out: &mut hcore::Out, idx: u64, class: &str, cfg: &Cfg, ops: &[Op]) {
    let cfg2 = cfg.clone();
    let ops2 = ops.to_vec();
    let r = hcore::guarded(move || {
        let mut run = Run::new(cfg2);
        for o in &ops2 {
            run.exec(o);
        }
        (run.lines, run.fan_pubs)
    });
    let (lines, fan_pubs) = match r {
        Ok(x) => x,
        Err(msg) => (vec!["op panic".to_string(), format!("impl panic {msg}")], 0),
    };
    out.case(
        idx,
        &format!(
            "{} nt={} mesh_n={} ttl={} flood={} scoring={} cap={}",
            class,
            (fan_pubs >= 2) as u8,
            cfg.mesh_n,
            cfg.ttl,
            cfg.flood as u8,
            cfg.scoring as u8,
            cfg.cap
        ),
    );
    for l in lines {
        out.raw(&l);
    }
    out.end();
}

const SEC: u64 = 1_000_000_000;

fn scripted() -> Vec<(&'static str, Cfg, Vec<Op>)> {
    let base = Cfg { mesh_n: 2, ttl: 60 * SEC, flood: false, scoring: false, cap: 5000 };
    let mut v = vec![];
    // DESIGN §8 row 11: fanout {A}, candidates {A,B}, mesh_n = 2
    v.push((
        "replace",
        base.clone(),
        vec![
            Op::Connect(0, true),
            Op::Connect(1, true),
            Op::Subs(0, vec![(true, 0)]),
            Op::Publish(0, 0),
            Op::Subs(1, vec![(true, 0)]),
            Op::Publish(0, SEC),
            Op::Publish(0, 2 * SEC),
        ],
    ));
    // fanout {A}, the only candidate is A, mesh_n = 2: nothing to sample
    v.push((
        "nothing-new",
        base.clone(),
        vec![
            Op::Connect(0, true),
            Op::Subs(0, vec![(true, 0)]),
            Op::Publish(0, 0),
            Op::Publish(0, 1),
            Op::Connect(1, true),
            Op::Subs(1, vec![(true, 0)]),
            Op::Publish(0, 2),
        ],
    ));
    // three candidates, mesh_n = 3, one joins at a time; a floodsub and an explicit peer in between
    v.push((
        "grow",
        Cfg { mesh_n: 3, ..base.clone() },
        vec![
            Op::Explicit(4),
            Op::Connect(0, true),
            Op::Connect(1, true),
            Op::Connect(2, true),
            Op::Connect(3, false),
            Op::Connect(4, true),
            Op::Subs(0, vec![(true, 1)]),
            Op::Publish(1, 0),
            Op::Subs(3, vec![(true, 1)]),
            Op::Subs(4, vec![(true, 1)]),
            Op::Publish(1, 1),
            Op::Subs(1, vec![(true, 1)]),
            Op::Publish(1, 2),
            Op::Subs(2, vec![(true, 1)]),
            Op::Publish(1, 3),
            Op::Publish(1, 4),
            Op::Hb(5),
            Op::Subs(0, vec![(false, 1)]),
            Op::Publish(1, 6),
            Op::Disconnect(1),
            Op::Publish(1, 7),
            Op::Hb(8 + 60 * SEC),
            Op::Publish(1, 9 + 60 * SEC),
            Op::Subscribe(1),
            Op::Publish(1, 10 + 60 * SEC),
            Op::Unsubscribe(1),
            Op::Publish(1, 11 + 60 * SEC),
        ],
    ));
    // a fanout peer whose send queue is full stays in the fanout (queue capacity 1); then every
    // recipient's queue is full: `AllQueuesFull`, fanout untouched
    v.push((
        "queue-full",
        Cfg { cap: 1, ..base.clone() },
        vec![
            Op::Connect(0, true),
            Op::Connect(1, true),
            Op::Connect(2, true),
            Op::Subs(0, vec![(true, 0)]),
            Op::Subs(1, vec![(true, 0)]),
            Op::Publish(0, 0),
            Op::Hold(0),
            Op::Publish(0, 1),
            Op::Publish(0, 2),
            Op::Publish(0, 3),
            Op::Hold(1),
            Op::Publish(0, 4),
            Op::Publish(0, 5),
            Op::Subs(2, vec![(true, 0)]),
            Op::Publish(0, 6),
            Op::Release(0),
            Op::Publish(0, 7),
            Op::Hb(8),
            Op::Publish(0, 9),
            Op::Release(1),
            Op::Release(0),
        ],
    ));
    // capacity 2, one fanout slot still free when the first peer backs up; capacity 0: nothing is ever sent
    v.push((
        "queue-two",
        Cfg { cap: 2, mesh_n: 3, ..base.clone() },
        vec![
            Op::Connect(0, true),
            Op::Subs(0, vec![(true, 1)]),
            Op::Hold(0),
            Op::Publish(1, 0),
            Op::Publish(1, 1),
            Op::Publish(1, 2),
            Op::Connect(1, true),
            Op::Subs(1, vec![(true, 1)]),
            Op::Publish(1, 3),
            Op::Disconnect(0),
            Op::Connect(0, true),
            Op::Subs(0, vec![(true, 1)]),
            Op::Publish(1, 4),
            Op::Release(0),
        ],
    ));
    v.push((
        "queue-zero",
        Cfg { cap: 0, ..base.clone() },
        vec![
            Op::Connect(0, true),
            Op::Subs(0, vec![(true, 0)]),
            Op::Publish(0, 0),
            Op::Publish(0, 1),
            Op::Connect(1, false),
            Op::Subs(1, vec![(true, 0)]),
            Op::Publish(0, 2),
        ],
    ));
    // a fanout peer whose score drops below the publish threshold is not a candidate any more
    v.push((
        "low-score",
        Cfg { scoring: true, ..base.clone() },
        vec![
            Op::Connect(0, true),
            Op::Connect(1, true),
            Op::Connect(2, true),
            Op::Subs(0, vec![(true, 0)]),
            Op::Subs(1, vec![(true, 0)]),
            Op::Publish(0, 0),
            Op::Score(0, -11),
            Op::Subs(2, vec![(true, 0)]),
            Op::Publish(0, 1),
            Op::Score(0, 0),
            Op::Publish(0, 2),
            Op::Score(1, -10),
            Op::Hb(3),
            Op::Score(1, -11),
            Op::Hb(4),
            Op::Publish(0, 5),
        ],
    ));
    v
}

fn random_case(rng: &mut hcore::Rng) -> (Cfg, Vec<Op>) {
    let cfg = Cfg {
        mesh_n: 1 + rng.usize(3),
        ttl: *rng.pick(&[60 * SEC, 5 * SEC, SEC]),
        flood: rng.chance(1, 12),
        scoring: rng.chance(1, 3),
        cap: if rng.chance(2, 5) { if rng.chance(1, 12) { 0 } else { 1 + rng.usize(3) } } else { 5000 },
    };
    let small_q = cfg.cap < 5000;
    let npeers = 1 + rng.usize(6);
    let ntopics = 1 + rng.usize(3);
    let nops = 10 + rng.usize(60);
    let mut ops = vec![];
    let mut now = 0u64;
    // a light-weight shadow, only to keep the sequences mostly meaningful
    let mut connected = vec![false; npeers];
    let hot = rng.usize(ntopics);
    for _ in 0..nops {
        let t = if rng.chance(2, 3) { hot } else { rng.usize(ntopics) };
        let p = rng.usize(npeers);
        let k = rng.below(100);
        if small_q && rng.chance(1, 7) {
            ops.push(if rng.chance(3, 5) { Op::Hold(p) } else { Op::Release(p) });
        }
        let op = if k < 14 {
            connected[p] = true;
            Op::Connect(p, !rng.chance(1, 6))
        } else if k < 38 {
            if !connected[p] && rng.chance(4, 5) {
                connected[p] = true;
                Op::Connect(p, !rng.chance(1, 6))
            } else {
                let n = 1 + rng.usize(3);
                let l = (0..n)
                    .map(|i| (!rng.chance(1, 5), if i == 0 { t } else { rng.usize(ntopics) }))
                    .collect();
                Op::Subs(p, l)
            }
        } else if k < 72 {
            now += *rng.pick(&[0, 0, 1, 1_000_000, SEC, cfg.ttl / 2]);
            Op::Publish(t, now)
        } else if k < 77 {
            connected[p] = false;
            Op::Disconnect(p)
        } else if k < 79 {
            Op::Explicit(p)
        } else if k < 82 {
            Op::Subscribe(t)
        } else if k < 85 {
            Op::Unsubscribe(t)
        } else if k < 93 {
            if cfg.scoring {
                Op::Score(p, *rng.pick(&[-11, -10, -9, 0, 3, -50]))
            } else {
                now += 1;
                Op::Publish(t, now)
            }
        } else {
            now += *rng.pick(&[0, SEC, cfg.ttl - 1, cfg.ttl, cfg.ttl + 1, 2 * cfg.ttl]);
            Op::Hb(now)
        };
        ops.push(op);
    }
    // look into every queue that is still held
    for p in 0..npeers {
        ops.push(Op::Release(p));
    }
    (cfg, ops)
}

fn parse_cfg(h: &[String]) -> Cfg {
    let get = |k: &str, d: u64| -> u64 {
        h.iter()
            .find_map(|t| t.strip_prefix(&format!("{k}=")).map(|v| v.parse().expect("number")))
            .unwrap_or(d)
    };
    Cfg {
        mesh_n: get("mesh_n", 2) as usize,
        ttl: get("ttl", 60 * SEC),
        flood: get("flood", 0) == 1,
        scoring: get("scoring", 0) == 1,
        cap: get("cap", 5000) as usize,
    }
}

fn parse_op(t: &[String]) -> Option<Op> {
    let n = |i: usize| -> usize { t[i].parse().expect("number") };
    Some(match t.first()?.as_str() {
        "connect" => Op::Connect(n(1), t[2] == "g"),
        "disconnect" => Op::Disconnect(n(1)),
        "explicit" => Op::Explicit(n(1)),
        "subs" => {
            let l = if t[2] == "-" {
                vec![]
            } else {
                t[2].split(',').map(|e| (e.starts_with('+'), e[1..].parse().expect("topic"))).collect()
            };
            Op::Subs(n(1), l)
        }
        "subscribe" => Op::Subscribe(n(1)),
        "unsubscribe" => Op::Unsubscribe(n(1)),
        "score" => Op::Score(n(1), t[2].parse().expect("score")),
        "publish" => Op::Publish(n(1), t[2].parse().expect("now")),
        "hb" => Op::Hb(t[1].parse().expect("now")),
        "hold" => Op::Hold(n(1)),
        "release" => Op::Release(n(1)),
        _ => return None,
    })
}

pub fn run(args: &hcore::Args, out: &mut hcore::Out) {
    let _ = parse_list;
    if let Some(cases) = args.replay_cases() {
        for (i, (header, ops)) in cases.iter().enumerate() {
            let cfg = parse_cfg(header);
            let ops: Vec<Op> = ops.iter().filter_map(|t| parse_op(t)).collect();
            let class = header.get(1).cloned().unwrap_or_else(|| "replay".into());
            emit(out, i as u64, &class, &cfg, &ops);
        }
        return;
    }
    let mut idx = 0u64;
    for (class, cfg, ops) in scripted() {
        emit(out, idx, class, &cfg, &ops);
        idx += 1;
    }
    let n = args.n(600, 12000);
    for _ in 0..n {
        let mut rng = hcore::Rng::for_case(args.seed, idx);
        let (cfg, ops) = random_case(&mut rng);
        emit(out, idx, "random", &cfg, &ops);
        idx += 1;
    }
}
