//! Shared rig for the gossipsub behaviour properties (C35, C29, C28): a `VerifNode`
//! (`/repo/protocols/gossipsub/src/verif_c28.rs`) plus the renaming of peer ids / topics to
//! small integers.  Peer `i` is the `i`-th smallest of a fixed pool of peer ids, so `BTreeSet<PeerId>`
//! order is numeric order; topic `j` is `IdentTopic("t<j>")`, so `BTreeSet<TopicHash>` order is numeric.
#![allow(dead_code)]

use std::time::Duration;

use libp2p_gossipsub::{
    verif_c28::{Emitted, PeerKind, Sent, VerifNode},
    Config, IdentTopic, PeerScoreParams, PeerScoreThresholds, TopicHash,
};
use libp2p_identity::PeerId;

pub const N_PEERS: usize = 12;
pub const N_TOPICS: usize = 4;

pub struct Node {
    pub v: VerifNode,
    pub ids: Vec<PeerId>,
    pub topics: Vec<IdentTopic>,
    pub scoring: bool,
}

pub fn scoring_params() -> PeerScoreParams {
    PeerScoreParams {
        app_specific_weight: 1.0,
        ip_colocation_factor_weight: 0.0,
        behaviour_penalty_weight: 0.0,
        slow_peer_weight: 0.0,
        retain_score: Duration::from_secs(0),
        ..Default::default()
    }
}

impl Node {
    pub fn new(config: Config, thresholds: Option<PeerScoreThresholds>) -> Node {
        let mut ids: Vec<PeerId> = (0..N_PEERS as u8).map(|i| hcore::peer(i + 1)).collect();
        ids.sort();
        let topics = (0..N_TOPICS).map(|j| IdentTopic::new(format!("t{j}"))).collect();
        let mut v = VerifNode::new(config, true).expect("valid config");
        let scoring = thresholds.is_some();
        if let Some(th) = thresholds {
            v.with_peer_score(scoring_params(), th).expect("valid score params");
        }
        Node { v, ids, topics, scoring }
    }

    pub fn pid(&self, i: usize) -> PeerId {
        self.ids[i]
    }

    pub fn pnum(&self, p: &PeerId) -> usize {
        self.ids.iter().position(|x| x == p).expect("known peer")
    }

    pub fn th(&self, j: usize) -> TopicHash {
        self.topics[j].hash()
    }

    pub fn tnum(&self, t: &TopicHash) -> usize {
        self.topics.iter().position(|x| &x.hash() == t).expect("known topic")
    }

    /// integer score of a peer as the behaviour reports it (0 when scoring is off)
    pub fn score(&self, i: usize) -> i64 {
        match self.v.gs.peer_score(&self.ids[i]) {
            Some(s) => {
                assert!(s.fract() == 0.0 && s.abs() < 1e9, "non-integer score {s}");
                s as i64
            }
            None => 0,
        }
    }

    /// connected peers: (number, is_gossipsub, outbound, connection numbers, topic numbers)
    pub fn peers(&self) -> Vec<(usize, bool, bool, Vec<usize>, Vec<usize>)> {
        let mut v: Vec<_> = self
            .v
            .peers()
            .into_iter()
            .map(|(p, kind, outbound, conns, topics)| {
                let g = !matches!(kind, PeerKind::Floodsub | PeerKind::NotSupported);
                let conns = conns.iter().map(|c| c.to_string().parse::<usize>().unwrap()).collect();
                let mut ts: Vec<usize> = topics.iter().map(|t| self.tnum(t)).collect();
                ts.sort();
                (self.pnum(&p), g, outbound, conns, ts)
            })
            .collect();
        v.sort();
        v
    }

    pub fn mesh(&self, t: usize) -> Option<Vec<usize>> {
        let th = self.th(t);
        if !self.v.is_subscribed(&th) {
            return None;
        }
        let mut v: Vec<usize> = self.v.mesh_peers(&th).iter().map(|p| self.pnum(p)).collect();
        v.sort();
        Some(v)
    }

    pub fn fanout(&self, t: usize) -> Option<Vec<usize>> {
        self.v.fanout(&self.th(t)).map(|l| {
            let mut v: Vec<usize> = l.iter().map(|p| self.pnum(p)).collect();
            v.sort();
            v
        })
    }

    /// `t=p.p;t=~` over all topics that have an entry (`-` when none)
    pub fn map_tok(&self, f: impl Fn(usize) -> Option<Vec<usize>>) -> String {
        let es: Vec<String> = (0..N_TOPICS)
            .filter_map(|t| f(t).map(|l| format!("{}={}", t, dot(&l))))
            .collect();
        if es.is_empty() {
            "-".into()
        } else {
            es.join(";")
        }
    }

    pub fn drain_rpcs(&mut self, i: usize) -> Vec<Sent> {
        let p = self.ids[i];
        self.v.drain_rpcs(&p)
    }

    pub fn drain_events(&mut self) -> Vec<Emitted> {
        self.v.drain_events()
    }
}

pub fn dot(l: &[usize]) -> String {
    if l.is_empty() {
        "~".into()
    } else {
        l.iter().map(|x| x.to_string()).collect::<Vec<_>>().join(".")
    }
}

pub fn comma(l: &[usize]) -> String {
    hcore::list(l)
}

pub fn parse_list(s: &str, sep: char, empty: &str) -> Vec<usize> {
    if s == empty {
        vec![]
    } else {
        s.split(sep).map(|x| x.parse().expect("number")).collect()
    }
}
