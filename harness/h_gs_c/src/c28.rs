//! C28 — mesh membership respects the eligibility rules. Ops, executor and generators are shared
//! with C29 (`gsops.rs`); the C28 driver checks the mesh invariant and every addition to a mesh on the
//! printed meshes / peer table / RPCs.
pub fn run(args: &hcore::Args, out: &mut hcore::Out) {
    // a different stream of cases than C29 (same generator)
    let mut a = args.clone();
    a.seed = args.seed.wrapping_add(1_000_003);
    crate::gsops::run(&a, out, 500, 9000)
}
