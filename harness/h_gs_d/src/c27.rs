//! C27 — a published gossipsub message reaches every subscriber exactly once.
//!
//! Real `gossipsub::Behaviour`s in real `Swarm`s (`Config::without_executor`: every connection
//! task is polled inside `Swarm::poll`) over `MemoryTransport` + plaintext + yamux, all driven on
//! THIS thread by a seeded random polling order.  The monotonic clock is frozen (see
//! `clock_gettime` below) and only advances when the harness warps it, so heartbeats happen
//! exactly where the script puts them and the verdict cannot depend on wall-clock timing.
//!
//! What is recorded (global order, single thread):
//! * `verif_c27` taps inside the behaviour: every `send_message(p, RpcOut::Publish)` and every
//!   `handle_received_message(raw, from)`, tagged with the node being polled;
//! * every `Event::Message` a swarm hands to the application.
//! The log of one propagation is printed as the schedule `recv <mid> <u> <v>` with what the real
//! node did (`first <forwards>` / `dup`); the Lean driver replays exactly that schedule through the
//! model (`C27.recv`) and compares step by step, and evaluates the property's Spec on the
//! implementation's outputs.
//!
//! Replay: the `case` header carries everything needed to rebuild the network
//! (`seed= adj= flood= …`); `hb`, `snap` and `pub` ops are commands that are re-executed, all
//! other op lines are views that are regenerated.
use std::{
    collections::{BTreeSet, HashMap},
    sync::{
        atomic::{AtomicBool, AtomicI64, AtomicU64, Ordering},
        Arc,
    },
    task::{Context, Poll, Wake, Waker},
    time::Duration,
};

use futures::StreamExt;
use hcore::{Args, Multiaddr, Out, Rng};
use libp2p_core::{
    muxing::StreamMuxerBox,
    transport::{Boxed, MemoryTransport, Transport},
    upgrade, PeerId,
};
use libp2p_gossipsub as gs;
use libp2p_gossipsub::verif_c27 as tap;
use libp2p_swarm::{Config as SwarmConfig, Swarm, SwarmEvent};

// ------------------------------------------------------------------ frozen monotonic clock

static FROZEN: AtomicBool = AtomicBool::new(false);
static BASE_S: AtomicI64 = AtomicI64::new(0);
static BASE_NS: AtomicI64 = AtomicI64::new(0);
static OFFSET_NS: AtomicU64 = AtomicU64::new(0);

extern "C" {
    fn __clock_gettime(clk: i32, ts: *mut [i64; 2]) -> i32;
}

/// Interposes libc's `clock_gettime`: once `freeze_clock` ran, CLOCK_MONOTONIC is
/// `base + warps` — it never advances by itself.  (`base` is 10 h ahead of the real clock so that
/// absolute futex deadlines computed from it are never in the real past.)
#[no_mangle]
pub unsafe extern "C" fn clock_gettime(clk: i32, ts: *mut [i64; 2]) -> i32 {
    if clk == 1 && FROZEN.load(Ordering::SeqCst) {
        let off = OFFSET_NS.load(Ordering::SeqCst) as i64;
        let ns = BASE_NS.load(Ordering::SeqCst) + off % 1_000_000_000;
        let t = &mut *ts;
        t[0] = BASE_S.load(Ordering::SeqCst) + off / 1_000_000_000 + ns / 1_000_000_000;
        t[1] = ns % 1_000_000_000;
        return 0;
    }
    __clock_gettime(clk, ts)
}

fn freeze_clock() {
    if FROZEN.load(Ordering::SeqCst) {
        return;
    }
    let mut ts = [0i64; 2];
    unsafe { __clock_gettime(1, &mut ts) };
    BASE_S.store(ts[0] + 36_000, Ordering::SeqCst);
    BASE_NS.store(ts[1], Ordering::SeqCst);
    FROZEN.store(true, Ordering::SeqCst);
}

fn warp(d: Duration) {
    OFFSET_NS.fetch_add(d.as_nanos() as u64, Ordering::SeqCst);
}

/// make futures-timer's helper thread look at the clock: a zero `Delay` fires after every timer
/// with an earlier deadline has fired
fn kick() {
    futures::executor::block_on(futures_timer::Delay::new(Duration::ZERO));
    futures::executor::block_on(futures_timer::Delay::new(Duration::ZERO));
}

// ------------------------------------------------------------------ world

struct Flag(AtomicBool);
impl Wake for Flag {
    fn wake(self: Arc<Self>) {
        self.0.store(true, Ordering::SeqCst)
    }
    fn wake_by_ref(self: &Arc<Self>) {
        self.0.store(true, Ordering::SeqCst)
    }
}

fn transport(key: &libp2p_identity::Keypair) -> Boxed<(PeerId, StreamMuxerBox)> {
    MemoryTransport::default()
        .upgrade(upgrade::Version::V1)
        .authenticate(libp2p_plaintext::Config::new(key))
        .multiplex(libp2p_yamux::Config::default())
        .boxed()
}

/// A toy non-identity `DataTransform`: with `tag` set, a tag byte is prefixed on the way out and
/// stripped (and required) on the way in; without it, the identity.
#[derive(Clone, Default)]
struct TagTransform {
    tag: bool,
}

const TAG: u8 = 0xA7;

impl gs::DataTransform for TagTransform {
    fn inbound_transform(&self, raw: gs::RawMessage) -> Result<gs::Message, std::io::Error> {
        let mut data = raw.data;
        if self.tag {
            if data.first() != Some(&TAG) {
                return Err(std::io::Error::new(std::io::ErrorKind::InvalidData, "missing tag"));
            }
            data.remove(0);
        }
        Ok(gs::Message { source: raw.source, data, sequence_number: raw.sequence_number, topic: raw.topic })
    }

    fn outbound_transform(&self, _topic: &gs::TopicHash, mut data: Vec<u8>) -> Result<Vec<u8>, std::io::Error> {
        if self.tag {
            data.insert(0, TAG);
        }
        Ok(data)
    }
}

type Beh = gs::Behaviour<TagTransform>;

#[derive(Clone, Debug)]
struct Params {
    n: usize,
    flood: bool,
    /// message authenticity: 's' signed, 'a' anonymous, 'r' random author
    auth: char,
    /// non-identity DataTransform (tag byte prefixed outbound, stripped inbound)
    xform: bool,
    /// (mesh_n, mesh_n_low, mesh_n_high, mesh_outbound_min)
    mesh: (usize, usize, usize, usize),
    /// subscribe before the connections are made (meshes then form in heartbeats) or after
    sub_first: bool,
    hb_ms: u64,
    adj: Vec<BTreeSet<usize>>,
    /// symmetric explicit-peer edges
    explicit: Vec<(usize, usize)>,
    /// one-way explicit peers: (a, b) = only a lists b.  b is then no mesh peer of a nor a of b,
    /// so b's own publishes reach a through third nodes and a forwards them back to b
    explicit1: Vec<(usize, usize)>,
    seed: u64,
    /// nodes running with `validate_messages()`
    valid: Vec<usize>,
    /// peer scoring active (default parameters) on every node
    score: bool,
    /// when the application reports its verdict: 'q' one pending verdict at a time, each time the
    /// whole network is quiet (every copy on its way has arrived: the widest window);
    /// 'i' immediately after the delivery; 'r' at random points
    policy: char,
    /// the application sometimes rejects / ignores
    rejects: bool,
}

/// a message handed to the application of a validating node, awaiting its verdict
struct Pending {
    v: usize,
    mid: usize,
    id: gs::MessageId,
    src: PeerId,
    /// duplicates received since (the window was hit)
    dups: usize,
}

#[derive(Clone, Debug)]
enum Entry {
    Send { u: usize, w: usize, mid: usize },
    Recv { v: usize, u: usize, mid: usize },
    Deliver { v: usize, u: usize, mid: usize },
    /// `report_message_validation_result` on node v: acc = a/r/i, ok = its return value
    Verdict { v: usize, mid: usize, acc: char, ok: bool },
}

struct World {
    p: Params,
    swarms: Vec<Swarm<Beh>>,
    idx: HashMap<PeerId, usize>,
    flag: Arc<Flag>,
    waker: Waker,
    topic: gs::IdentTopic,
    log: Vec<Entry>,
    mids: HashMap<gs::MessageId, usize>,
    /// per message: publisher, nodes delivered to (with multiplicity)
    msgs: Vec<(usize, Vec<usize>)>,
    /// per message: the id `publish()` returned, and how many `Event::Message`s carried another id
    ids: Vec<(Option<gs::MessageId>, usize)>,
    /// unknown message ids seen in taps (should stay 0)
    strays: usize,
    /// the network did not become quiescent
    stalled: bool,
    pending: Vec<Pending>,
    /// Accept verdicts issued after at least one duplicate had arrived in the window
    window_hits: usize,
}

const UNKNOWN: usize = 9999;

impl World {
    fn new(p: Params, rng: &mut Rng) -> World {
        let flag = Arc::new(Flag(AtomicBool::new(false)));
        let waker = Waker::from(flag.clone());
        let topic = gs::IdentTopic::new("c27");
        let mut swarms = vec![];
        let mut idx = HashMap::new();
        for i in 0..p.n {
            let key = hcore::keypair(40 + i as u8);
            let peer = key.public().to_peer_id();
            let mut b = gs::ConfigBuilder::default();
            b.heartbeat_interval(Duration::from_millis(p.hb_ms))
                .heartbeat_initial_delay(Duration::from_millis(p.hb_ms))
                .flood_publish(p.flood)
                .mesh_n(p.mesh.0)
                .mesh_n_low(p.mesh.1)
                .mesh_n_high(p.mesh.2)
                .mesh_outbound_min(p.mesh.3);
            let auth = match p.auth {
                'a' => {
                    b.validation_mode(gs::ValidationMode::Anonymous);
                    // content-addressed id over the UN-transformed data (what `publish` and
                    // `handle_received_message` both hand to the id function)
                    b.message_id_fn(|m: &gs::Message| gs::MessageId::from(m.data.clone()));
                    gs::MessageAuthenticity::Anonymous
                }
                'r' => {
                    b.validation_mode(gs::ValidationMode::None);
                    b.message_id_fn(|m: &gs::Message| gs::MessageId::from(m.data.clone()));
                    gs::MessageAuthenticity::RandomAuthor
                }
                _ => gs::MessageAuthenticity::Signed(key.clone()),
            };
            if p.valid.contains(&i) {
                b.validate_messages();
            }
            let cfg = b.build().expect("gossipsub config");
            let mut beh: Beh = gs::Behaviour::new_with_transform(auth, cfg, TagTransform { tag: p.xform }).expect("behaviour");
            if p.score {
                beh.with_peer_score(gs::PeerScoreParams::default(), gs::PeerScoreThresholds::default())
                    .expect("peer score");
            }
            let sw = Swarm::new(
                transport(&key),
                beh,
                peer,
                SwarmConfig::without_executor().with_idle_connection_timeout(Duration::from_secs(1_000_000)),
            );
            idx.insert(peer, i);
            swarms.push(sw);
        }
        let mut w = World {
            p,
            swarms,
            idx,
            flag,
            waker,
            topic,
            log: vec![],
            mids: HashMap::new(),
            msgs: vec![],
            ids: vec![],
            strays: 0,
            stalled: false,
            pending: vec![],
            window_hits: 0,
        };
        w.setup(rng);
        w
    }

    fn setup(&mut self, rng: &mut Rng) {
        let n = self.p.n;
        let peers: Vec<PeerId> = self.swarms.iter().map(|s| *s.local_peer_id()).collect();
        for &(a, b) in &self.p.explicit.clone() {
            self.swarms[a].behaviour_mut().add_explicit_peer(&peers[b]);
            self.swarms[b].behaviour_mut().add_explicit_peer(&peers[a]);
        }
        for &(a, b) in &self.p.explicit1.clone() {
            self.swarms[a].behaviour_mut().add_explicit_peer(&peers[b]);
        }
        if self.p.sub_first {
            for i in 0..n {
                self.swarms[i].behaviour_mut().subscribe(&self.topic.clone()).unwrap();
            }
        }
        // listeners
        let mut addrs: Vec<Option<Multiaddr>> = vec![None; n];
        for i in 0..n {
            self.swarms[i].listen_on("/memory/0".parse().unwrap()).unwrap();
        }
        let waker = self.waker.clone();
        let mut cx = Context::from_waker(&waker);
        for _ in 0..1000 {
            for i in 0..n {
                while let Poll::Ready(Some(ev)) = self.swarms[i].poll_next_unpin(&mut cx) {
                    if let SwarmEvent::NewListenAddr { address, .. } = ev {
                        addrs[i] = Some(address);
                    }
                }
            }
            if addrs.iter().all(|a| a.is_some()) {
                break;
            }
        }
        // connections: one per edge, dialled from a random end
        let mut edges: Vec<(usize, usize)> = vec![];
        for i in 0..n {
            for &j in &self.p.adj[i] {
                if i < j {
                    edges.push(if rng.bool() { (i, j) } else { (j, i) });
                }
            }
        }
        rng.shuffle(&mut edges);
        for (a, b) in edges {
            self.swarms[a].dial(addrs[b].clone().unwrap()).unwrap();
            if rng.chance(1, 3) {
                self.quiesce(rng);
            }
        }
        self.quiesce(rng);
        if !self.p.sub_first {
            let mut order: Vec<usize> = (0..n).collect();
            rng.shuffle(&mut order);
            for i in order {
                self.swarms[i].behaviour_mut().subscribe(&self.topic.clone()).unwrap();
                if rng.chance(1, 2) {
                    self.quiesce(rng);
                }
            }
            self.quiesce(rng);
        }
        tap::enable();
        self.log.clear();
    }

    fn mid_of(&mut self, id: &gs::MessageId) -> usize {
        match self.mids.get(id) {
            Some(m) => *m,
            None => {
                self.strays += 1;
                UNKNOWN
            }
        }
    }

    fn node_of(&self, p: &PeerId) -> usize {
        self.idx.get(p).copied().unwrap_or(UNKNOWN)
    }

    fn drain_taps(&mut self, i: usize) {
        for t in tap::drain() {
            match t {
                tap::Tap::Send { to, id } => {
                    let (w, mid) = (self.node_of(&to), self.mid_of(&id));
                    self.log.push(Entry::Send { u: i, w, mid });
                }
                tap::Tap::Recv { from, id } => {
                    let (u, mid) = (self.node_of(&from), self.mid_of(&id));
                    for p in self.pending.iter_mut() {
                        if p.v == i && p.mid == mid {
                            p.dups += 1;
                        }
                    }
                    self.log.push(Entry::Recv { v: i, u, mid });
                }
            }
        }
    }

    /// one `poll_next` on swarm `i`; true if it made progress
    fn poll_one(&mut self, i: usize) -> bool {
        let waker = self.waker.clone();
        let mut cx = Context::from_waker(&waker);
        let r = self.swarms[i].poll_next_unpin(&mut cx);
        self.drain_taps(i);
        match r {
            Poll::Ready(Some(ev)) => {
                if let SwarmEvent::Behaviour(gs::Event::Message { propagation_source, message_id, .. }) = ev {
                    let (u, mid) = (self.node_of(&propagation_source), self.mid_of(&message_id));
                    self.log.push(Entry::Deliver { v: i, u, mid });
                    if mid < self.msgs.len() {
                        if self.ids[mid].0.as_ref() != Some(&message_id) {
                            self.ids[mid].1 += 1;
                        }
                        self.msgs[mid].1.push(i);
                        if self.p.valid.contains(&i) {
                            self.pending.push(Pending { v: i, mid, id: message_id, src: propagation_source, dups: 0 });
                        }
                    }
                }
                true
            }
            Poll::Ready(None) => false,
            Poll::Pending => false,
        }
    }

    /// the application of a validating node reports its verdict on pending message `k`
    fn issue(&mut self, k: usize, rng: &mut Rng) {
        let p = self.pending.remove(k);
        let acc = if self.p.rejects && rng.chance(1, 8) {
            if rng.bool() {
                'r'
            } else {
                'i'
            }
        } else {
            'a'
        };
        let a = match acc {
            'a' => gs::MessageAcceptance::Accept,
            'r' => gs::MessageAcceptance::Reject,
            _ => gs::MessageAcceptance::Ignore,
        };
        let ok = self.swarms[p.v].behaviour_mut().report_message_validation_result(&p.id, &p.src, a);
        if acc == 'a' && ok && p.dups > 0 {
            self.window_hits += 1;
        }
        self.log.push(Entry::Verdict { v: p.v, mid: p.mid, acc, ok });
        self.drain_taps(p.v);
    }

    /// one round: every swarm, in random order, polled a random number of times
    fn round(&mut self, rng: &mut Rng) -> bool {
        let mut progressed = self.flag.0.swap(false, Ordering::SeqCst);
        let mut order: Vec<usize> = (0..self.p.n).collect();
        rng.shuffle(&mut order);
        for i in order {
            let burst = 1 + rng.below(6);
            for _ in 0..burst {
                let p = self.poll_one(i);
                match self.p.policy {
                    'i' => {
                        while !self.pending.is_empty() {
                            self.issue(0, rng);
                            progressed = true;
                        }
                    }
                    'r' => {
                        let mut k = 0;
                        while k < self.pending.len() {
                            if rng.chance(1, 4) {
                                self.issue(k, rng);
                                progressed = true;
                            } else {
                                k += 1;
                            }
                        }
                    }
                    _ => {}
                }
                if p {
                    progressed = true;
                } else {
                    break;
                }
            }
        }
        progressed || self.flag.0.load(Ordering::SeqCst)
    }

    /// poll until nothing moves any more.  A network that keeps moving (never on the unchanged
    /// code: the model's termination measure bounds the receptions) is reported as `livelock`.
    fn quiesce(&mut self, rng: &mut Rng) {
        if self.stalled {
            return;
        }
        let mut idle = 0;
        let start = self.log.len();
        for _ in 0..100_000 {
            if self.round(rng) {
                idle = 0;
            } else {
                idle += 1;
                if idle >= 2 {
                    // the network is quiet: every copy on its way has arrived.  Now (and only
                    // now, under policy 'q') one application reports its verdict.
                    if self.pending.is_empty() {
                        return;
                    }
                    let k = rng.usize(self.pending.len());
                    self.issue(k, rng);
                    idle = 0;
                }
            }
            if self.log.len() - start > 20_000 {
                break;
            }
        }
        self.stalled = true;
    }

    /// exactly one heartbeat on every node (the clock only moves here), run to quiescence
    fn heartbeat(&mut self, rng: &mut Rng) {
        warp(Duration::from_millis(self.p.hb_ms));
        warp(Duration::from_millis(1));
        kick();
        self.quiesce(rng);
    }

    fn mesh_of(&self, i: usize) -> Vec<usize> {
        let mut m: Vec<usize> =
            self.swarms[i].behaviour().mesh_peers(&self.topic.hash()).map(|p| self.node_of(p)).collect();
        m.sort();
        m
    }

    fn explicit_of(&self, i: usize) -> Vec<usize> {
        let mut e: Vec<usize> = self
            .p
            .explicit
            .iter()
            .filter_map(|&(a, b)| if a == i { Some(b) } else if b == i { Some(a) } else { None })
            .chain(self.p.explicit1.iter().filter_map(|&(a, b)| if a == i { Some(b) } else { None }))
            .collect();
        e.sort();
        e.dedup();
        e
    }
}

fn lists(ls: &[Vec<usize>]) -> String {
    ls.iter().map(|l| hcore::list(l)).collect::<Vec<_>>().join(";")
}

// ------------------------------------------------------------------ script execution

struct Runner {
    w: World,
    rng: Rng,
    lines: Vec<String>,
    /// last snapshot (mesh ∪ explicit per node), for the non-triviality flag
    fwd: Vec<Vec<usize>>,
    nontrivial: bool,
    dups: usize,
    /// copies that travelled back to the publisher of their message
    back: usize,
}

impl Runner {
    fn op(&mut self, op: String, imp: String) {
        self.lines.push(format!("op {op}"));
        self.lines.push(format!("impl {imp}"));
    }

    fn do_hb(&mut self, k: u64) {
        for _ in 0..k {
            self.w.heartbeat(&mut self.rng);
        }
        self.op(format!("hb {k}"), "ok".into());
        self.emit_log(None);
    }

    fn do_snap(&mut self) {
        let n = self.w.p.n;
        let mesh: Vec<Vec<usize>> = (0..n).map(|i| self.w.mesh_of(i)).collect();
        let exp: Vec<Vec<usize>> = (0..n).map(|i| self.w.explicit_of(i)).collect();
        self.fwd = (0..n)
            .map(|i| {
                let mut f = mesh[i].clone();
                f.extend(exp[i].iter().copied());
                f.sort();
                f.dedup();
                f
            })
            .collect();
        self.op(format!("snap {} {}", lists(&mesh), lists(&exp)), "ok".into());
    }

    /// publish on node `s`; mode 'e': propagate with the clock frozen (exact comparison),
    /// mode 'h': heartbeats strike in the middle of the propagation (Spec only)
    fn do_pub(&mut self, s: usize, mode: char) {
        let mid = self.w.msgs.len();
        let data = format!("c27 message {mid} of case seed {}", self.w.p.seed).into_bytes();
        let topic = self.w.topic.clone();
        let r = self.w.swarms[s].behaviour_mut().publish(topic, data.clone());
        let id = match r {
            Ok(id) => id,
            Err(e) => {
                let _ = tap::drain();
                let k = format!("{e:?}");
                let k = k.split(|c: char| !c.is_alphanumeric()).next().unwrap_or("?").to_string();
                self.op(format!("pub {mid} {s} - {mode}"), format!("err:{k}"));
                // keep numbering consistent
                self.w.msgs.push((s, vec![]));
                self.w.ids.push((None, 0));
                return;
            }
        };
        if self.w.p.auth != 's' {
            // the id every other node will compute (content-addressed over the un-transformed
            // data); on the unchanged code it IS the id `publish` returned
            self.w.mids.insert(gs::MessageId::from(data.clone()), mid);
        }
        self.w.mids.insert(id.clone(), mid);
        self.w.msgs.push((s, vec![]));
        self.w.ids.push((Some(id), 0));
        self.w.drain_taps(s);
        let mut recips: Vec<usize> = vec![];
        for e in std::mem::take(&mut self.w.log) {
            match e {
                Entry::Send { u, w, mid: m } if u == s && m == mid => recips.push(w),
                other => self.w.log.push(other),
            }
        }
        recips.sort();
        self.op(format!("pub {mid} {s} {} {mode}", hcore::list(&recips)), format!("sent {}", hcore::list(&recips)));
        // the reachability premise on the snapshot, for the non-triviality flag only
        let reach_all = {
            let n = self.w.p.n;
            let mut seen = vec![false; n];
            seen[s] = true;
            let mut stack: Vec<usize> = recips.iter().copied().filter(|&x| x < n).collect();
            while let Some(x) = stack.pop() {
                if !seen[x] {
                    seen[x] = true;
                    stack.extend(self.fwd.get(x).cloned().unwrap_or_default());
                }
            }
            seen.iter().all(|b| *b)
        };
        if mode == 'e' {
            self.w.quiesce(&mut self.rng);
            let before = self.dups;
            self.emit_log(Some(mid));
            let dlv = self.sorted_dlv(mid);
            self.op(format!("quiet {mid}"), format!("dlv {}", hcore::list(&dlv)));
            self.op_ids(mid);
            if reach_all && self.dups > before {
                self.nontrivial = true;
            }
        } else {
            let rounds = self.rng.below(4);
            for _ in 0..rounds {
                self.w.round(&mut self.rng);
            }
            let hbs = 1 + self.rng.below(2);
            for _ in 0..hbs {
                self.w.heartbeat(&mut self.rng);
            }
            self.emit_log(None);
            let dlv = self.sorted_dlv(mid);
            self.op(format!("quietx {mid}"), format!("dlv {}", hcore::list(&dlv)));
            self.op_ids(mid);
        }
    }

    /// every node's reported id of a delivered message = the id `publish()` returned?
    fn op_ids(&mut self, mid: usize) {
        let diff = self.w.ids[mid].1;
        let imp = if diff == 0 { "same".to_string() } else { format!("differ:{diff}") };
        self.op(format!("ids {mid}"), imp);
    }

    fn sorted_dlv(&self, mid: usize) -> Vec<usize> {
        let mut d = self.w.msgs[mid].1.clone();
        d.sort();
        d
    }

    /// turn the recorded log into `recv`/`recvx`/`sendx` views; `exact = Some(mid)`: receptions of
    /// that message are printed as `recv` (compared with the model step by step)
    fn emit_log(&mut self, exact: Option<usize>) {
        let log = std::mem::take(&mut self.w.log);
        let mut used = vec![false; log.len()];
        for k in 0..log.len() {
            if used[k] {
                continue;
            }
            match log[k].clone() {
                Entry::Recv { v, u, mid } => {
                    used[k] = true;
                    if mid < self.w.msgs.len() && self.w.msgs[mid].0 == v {
                        self.back += 1;
                    }
                    // forwards: the contiguous sends of node v for this id right after the tap
                    let mut fwd = vec![];
                    let mut j = k + 1;
                    while j < log.len() {
                        match &log[j] {
                            Entry::Send { u: su, w, mid: m } if *su == v && *m == mid => {
                                fwd.push(*w);
                                used[j] = true;
                                j += 1;
                            }
                            _ => break,
                        }
                    }
                    fwd.sort();
                    // delivered to the application by this reception?
                    let mut first = false;
                    for j in k + 1..log.len() {
                        match &log[j] {
                            Entry::Deliver { v: dv, u: du, mid: m } if !used[j] && *dv == v && *du == u && *m == mid => {
                                used[j] = true;
                                first = true;
                                break;
                            }
                            // the next reception of the same id on the same node ends the search
                            Entry::Recv { v: rv, mid: m, .. } if *rv == v && *m == mid => break,
                            _ => {}
                        }
                    }
                    let kind = if exact == Some(mid) { "recv" } else { "recvx" };
                    let imp = if first {
                        format!("first {}", hcore::list(&fwd))
                    } else if fwd.is_empty() {
                        self.dups += 1;
                        "dup".to_string()
                    } else if exact == Some(mid) {
                        // a duplicate that was forwarded: never on the unchanged code
                        format!("dup+{}", hcore::list(&fwd))
                    } else {
                        // outside an exact window the sends after a duplicate are IWANT answers
                        // handled in the same poll
                        self.dups += 1;
                        self.op(format!("{kind} {mid} {u} {v}"), "dup".to_string());
                        for w in &fwd {
                            self.op(format!("sendx {mid} {v} {w}"), "ok".into());
                        }
                        continue;
                    };
                    self.op(format!("{kind} {mid} {u} {v}"), imp);
                }
                Entry::Send { u, w, mid } => {
                    // a send that is not the forward of a reception: an IWANT answer
                    used[k] = true;
                    self.op(format!("sendx {mid} {u} {w}"), "ok".into());
                }
                Entry::Deliver { v, u, mid } => {
                    // a delivery without a reception tap cannot happen; show it to the monitor
                    used[k] = true;
                    self.op(format!("recvx {mid} {u} {v}"), "first -".into());
                }
                Entry::Verdict { v, mid, acc, ok } => {
                    used[k] = true;
                    let mut fwd = vec![];
                    let mut j = k + 1;
                    while j < log.len() {
                        match &log[j] {
                            Entry::Send { u: su, w, mid: m } if *su == v && *m == mid => {
                                fwd.push(*w);
                                used[j] = true;
                                j += 1;
                            }
                            _ => break,
                        }
                    }
                    fwd.sort();
                    let kind = if exact == Some(mid) { "verdict" } else { "verdictx" };
                    let imp = if ok && acc == 'a' {
                        format!("fwd {}", hcore::list(&fwd))
                    } else if fwd.is_empty() {
                        if ok { "dropped".to_string() } else { "none".to_string() }
                    } else {
                        format!("{}+{}", if ok { "dropped" } else { "none" }, hcore::list(&fwd))
                    };
                    self.op(format!("{kind} {mid} {v} {acc}"), imp);
                }
            }
        }
    }
}

// ------------------------------------------------------------------ generators

fn gen_adj(rng: &mut Rng, n: usize, class: &str) -> Vec<BTreeSet<usize>> {
    let mut adj = vec![BTreeSet::new(); n];
    let add = |a: usize, b: usize, adj: &mut Vec<BTreeSet<usize>>| {
        if a != b {
            adj[a].insert(b);
            adj[b].insert(a);
        }
    };
    // random spanning tree (connected), shape depends on the draw
    let shape = rng.below(4);
    let mut perm: Vec<usize> = (0..n).collect();
    rng.shuffle(&mut perm);
    for k in 1..n {
        let parent = match shape {
            0 => k - 1,                 // line
            1 => 0,                     // star
            _ => rng.usize(k),          // random tree
        };
        add(perm[k], perm[parent], &mut adj);
    }
    // extra edges: sparse .. complete
    let density = if class == "dense" { 100 } else { rng.below(80) };
    for a in 0..n {
        for b in a + 1..n {
            if rng.below(100) < density {
                add(a, b, &mut adj);
            }
        }
    }
    adj
}

fn gen_params(rng: &mut Rng, class: &str, seed: u64) -> Params {
    let n = 5 + rng.usize(6);
    // validation cases need two mesh paths to the same node: half of them on dense graphs
    let adj_class = if (class.starts_with("valid") || class == "xform") && rng.bool() { "dense" } else { class };
    let adj = gen_adj(rng, n, adj_class);
    let mesh = match (class, rng.below(3)) {
        ("sparse" | "xform", 0) => (2, 1, 3, 0),
        ("sparse" | "xform", 1) => (2, 2, 2, 1),
        ("sparse" | "xform", _) => (3, 2, 4, 1),
        (_, 0) => (4, 3, 6, 1),
        _ => (6, 5, 12, 2),
    };
    let mut explicit = vec![];
    let mut explicit1 = vec![];
    if class == "xform" {
        for a in 0..n {
            for &b in &adj[a] {
                if rng.chance(1, 4) && !explicit1.contains(&(b, a)) {
                    explicit1.push((a, b));
                }
            }
        }
    }
    if class == "explicit" {
        for a in 0..n {
            for &b in &adj[a] {
                if a < b && rng.chance(1, 4) {
                    explicit.push((a, b));
                }
            }
        }
    }
    Params {
        n,
        flood: match class {
            "flood" | "dense" => true,
            "sparse" => false,
            "xform" => rng.chance(1, 4),
            _ => rng.bool(),
        },
        auth: match class {
            "anon" => 'a',
            "xform" => {
                if rng.bool() {
                    'a'
                } else {
                    'r'
                }
            }
            _ => 's',
        },
        xform: class == "xform",
        mesh,
        sub_first: rng.bool(),
        hb_ms: 30 + rng.below(970),
        adj,
        explicit,
        explicit1,
        seed,
        valid: match class {
            "valid" => (0..n).collect(),
            "validmix" => {
                let mut v: Vec<usize> = (0..n).filter(|_| rng.bool()).collect();
                if v.is_empty() {
                    v.push(rng.usize(n));
                }
                v
            }
            _ => vec![],
        },
        score: class.starts_with("valid") && rng.bool(),
        policy: match class {
            "validmix" => *rng.pick(&['q', 'i', 'r', 'r']),
            _ => 'q',
        },
        rejects: class == "validmix",
    }
}

fn header(p: &Params) -> String {
    let adj: Vec<Vec<usize>> = p.adj.iter().map(|s| s.iter().copied().collect()).collect();
    let exp: Vec<String> = p.explicit.iter().map(|(a, b)| format!("{a}-{b}")).collect();
    let exp1: Vec<String> = p.explicit1.iter().map(|(a, b)| format!("{a}>{b}")).collect();
    format!(
        "n={} flood={} auth={} meshn={} mesh={}.{}.{}.{} subfirst={} hbms={} seed={} adj={} explicit={} val={} score={} policy={} rejects={} xform={} explicit1={}",
        p.n,
        p.flood as u8,
        p.auth,
        p.mesh.0,
        p.mesh.0,
        p.mesh.1,
        p.mesh.2,
        p.mesh.3,
        p.sub_first as u8,
        p.hb_ms,
        p.seed,
        lists(&adj),
        if exp.is_empty() { "-".to_string() } else { exp.join(",") },
        hcore::list(&p.valid),
        p.score as u8,
        p.policy,
        p.rejects as u8,
        p.xform as u8,
        if exp1.is_empty() { "-".to_string() } else { exp1.join(",") }
    )
}

fn kv<'a>(h: &'a [String], k: &str) -> Option<&'a str> {
    let pre = format!("{k}=");
    h.iter().find_map(|t| t.strip_prefix(pre.as_str()))
}

fn parse_header(h: &[String]) -> Option<Params> {
    let n: usize = kv(h, "n")?.parse().ok()?;
    let mesh: Vec<usize> = kv(h, "mesh")?.split('.').filter_map(|x| x.parse().ok()).collect();
    if mesh.len() != 4 {
        return None;
    }
    let adj: Vec<BTreeSet<usize>> = kv(h, "adj")?
        .split(';')
        .map(|l| if l == "-" { BTreeSet::new() } else { l.split(',').filter_map(|x| x.parse().ok()).collect() })
        .collect();
    if adj.len() != n {
        return None;
    }
    let explicit = match kv(h, "explicit")? {
        "-" => vec![],
        s => s
            .split(',')
            .filter_map(|e| {
                let (a, b) = e.split_once('-')?;
                Some((a.parse().ok()?, b.parse().ok()?))
            })
            .collect(),
    };
    Some(Params {
        n,
        flood: kv(h, "flood")? == "1",
        auth: kv(h, "auth")?.chars().next()?,
        xform: kv(h, "xform") == Some("1"),
        mesh: (mesh[0], mesh[1], mesh[2], mesh[3]),
        sub_first: kv(h, "subfirst")? == "1",
        hb_ms: kv(h, "hbms")?.parse().ok()?,
        adj,
        explicit,
        explicit1: match kv(h, "explicit1") {
            None | Some("-") => vec![],
            Some(s) => s
                .split(',')
                .filter_map(|e| {
                    let (a, b) = e.split_once('>')?;
                    Some((a.parse().ok()?, b.parse().ok()?))
                })
                .collect(),
        },
        seed: kv(h, "seed")?.parse().ok()?,
        valid: match kv(h, "val") {
            None | Some("-") => vec![],
            Some(l) => l.split(',').filter_map(|x| x.parse().ok()).filter(|x| *x < n).collect(),
        },
        score: kv(h, "score") == Some("1"),
        policy: kv(h, "policy").and_then(|s| s.chars().next()).unwrap_or('q'),
        rejects: kv(h, "rejects") == Some("1"),
    })
}

/// a script: the command ops of one case
#[derive(Clone, Debug)]
enum Cmd {
    Hb(u64),
    Snap,
    Pub(usize, char),
}

fn gen_script(rng: &mut Rng, p: &Params, class: &str, msgs: u64) -> Vec<Cmd> {
    let mut s = vec![Cmd::Hb(2 + rng.below(4)), Cmd::Snap];
    for _ in 0..msgs {
        let mode = if (class == "hbmix" && rng.chance(2, 3)) || (class == "validmix" && rng.chance(1, 4)) {
            'h'
        } else {
            'e'
        };
        s.push(Cmd::Pub(rng.usize(p.n), mode));
        if mode == 'h' {
            // meshes may have moved
            s.push(Cmd::Snap);
        } else if rng.chance(1, 4) {
            s.push(Cmd::Hb(1 + rng.below(2)));
            s.push(Cmd::Snap);
        }
    }
    s
}

fn run_case(out: &mut Out, idx: u64, class: &str, p: Params, script: &[Cmd]) {
    let mut rng = Rng::for_case(p.seed, idx ^ 0x27);
    let hdr = header(&p);
    let w = World::new(p, &mut rng);
    let mut r = Runner { w, rng, lines: vec![], fwd: vec![], nontrivial: false, dups: 0, back: 0 };
    // the forwarding sets may have moved since the last snapshot (a replayed, shrunk script may
    // have lost its `snap` lines): every publish is preceded by a fresh snapshot
    let mut dirty = true;
    for c in script {
        if r.w.stalled {
            break;
        }
        match c {
            Cmd::Hb(k) => {
                r.do_hb(*k);
                dirty = true;
            }
            Cmd::Snap => {
                r.do_snap();
                dirty = false;
            }
            Cmd::Pub(s, m) => {
                if *s < r.w.p.n {
                    if dirty {
                        r.do_snap();
                    }
                    r.do_pub(*s, *m);
                    dirty = *m != 'e';
                }
            }
        }
    }
    if r.w.stalled {
        r.emit_log(None);
        r.op("livelock".into(), "-".into());
    }
    tap::disable();
    // a validation case counts only if at least one Accept came after a duplicate had arrived
    // while the message was awaiting it (the window of the strengthened no-echo clause was hit)
    let nt = r.nontrivial && r.w.strays == 0 && (!class.starts_with("valid") || r.w.window_hits > 0)
        // a transform case counts only if a copy came back to its publisher (whose duplicate
        // cache must recognise it under the id the network uses)
        && (class != "xform" || r.back > 0);
    out.case(idx, &format!("{class} nt={} {hdr}", nt as u8));
    for l in &r.lines {
        out.raw(l);
    }
    if r.w.strays != 0 {
        out.op("strays");
        out.imp(&format!("{}", r.w.strays));
    }
    out.end();
}

const CLASSES: [&str; 13] = [
    "flood", "sparse", "mixed", "valid", "hbmix", "anon", "xform", "validmix", "explicit", "dense", "sparse", "valid",
    "xform",
];

pub fn run(args: &Args, out: &mut Out) {
    freeze_clock();
    if let Some(cases) = args.replay_cases() {
        for (i, (h, ops)) in cases.iter().enumerate() {
            let class = h.get(1).cloned().unwrap_or_else(|| "replay".into());
            let Some(p) = parse_header(h) else {
                out.case(i as u64, "replay nt=0 unparsable-header");
                out.end();
                continue;
            };
            let script: Vec<Cmd> = ops
                .iter()
                .filter_map(|o| match o.first().map(|s| s.as_str()) {
                    Some("hb") => Some(Cmd::Hb(o.get(1)?.parse().ok()?)),
                    Some("snap") => Some(Cmd::Snap),
                    Some("pub") => Some(Cmd::Pub(o.get(2)?.parse().ok()?, o.get(4)?.chars().next()?)),
                    _ => None,
                })
                .collect();
            let idx = h.first().and_then(|s| s.parse().ok()).unwrap_or(i as u64);
            run_case(out, idx, &class, p, &script);
        }
        return;
    }
    let cases = args.n(160, 3000);
    for idx in 0..cases {
        let mut rng = Rng::for_case(args.seed, idx);
        let class = CLASSES[(idx % CLASSES.len() as u64) as usize];
        let seed = rng.next_u64() >> 16;
        let p = gen_params(&mut rng, class, seed);
        let msgs = 6 + rng.below(6);
        let script = gen_script(&mut rng, &p, class, msgs);
        run_case(out, idx, class, p, &script);
    }
}
