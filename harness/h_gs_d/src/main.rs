//! Harness binary `h_gs_d <PROP> --seed S --tier T [--count N] [--replay F]`.
//! One module per property (`cNN.rs`, `pub fn run(args: &hcore::Args, out: &mut hcore::Out)`).

mod c27;

fn main() {
    let args = hcore::Args::parse();
    hcore::quiet_panics();
    let mut out = hcore::Out::new();
    match args.prop.as_str() {
        "C27" => c27::run(&args, &mut out),
        p => {
            let _ = &mut out;
            eprintln!("h_gs_d: unknown property {p}");
            std::process::exit(2);
        }
    }
    #[allow(unreachable_code)]
    out.flush();
}
