//! C46 — Identify only reports authenticated peer information.
//!
//! Ops (one connection to peer `p` per case, `p=<peer id hex>` in the case header):
//!   tryfrom  <msg…>   `Info::try_from(proto::Identify)` + `Handler::handle_incoming_info` on a fresh
//!                     handler + `multiaddr_matches_peer_id` on every parsed address (direct calls
//!                     through the cfg(libp2p_verif) hooks)
//!   identify <msg…>   the length-prefixed protobuf of the message is fed as the byte stream of an
//!                     outbound `/ipfs/id/1.0.0` stream into the REAL `Handler` (obtained from the
//!                     real `Behaviour`), `Handler::poll` is driven, every handler event goes through
//!                     the real `Behaviour::on_connection_handler_event`, `Behaviour::poll` is drained
//!   push     <msg…>   the same on an inbound `/ipfs/id/push/1.0.0` stream
//! `<msg…>` = 13 tokens: the 7 raw fields of `proto::Identify`, the generator's ideal-crypto
//! label, and 5 oracle tables giving the result of the primitives the identify code calls
//! (`PublicKey::try_decode_protobuf`+`to_peer_id`, `Multiaddr::try_from`,
//! `SignedEnvelope::from_protobuf_encoding`+`verify`, protobuf decoding of the record payload,
//! `PeerId::from_bytes`) on exactly the byte strings occurring in the message.  On `--replay` the
//! raw fields are taken from the op line and the oracle tables are recomputed.

use std::{
    collections::BTreeMap,
    sync::OnceLock,
    task::{Context, Poll},
};

use hcore::{hex, maddr_list_tok, maddr_tok, unhex, Args, Out, Rng};
use libp2p_core::{Multiaddr, SignedEnvelope};
use libp2p_identify as identify;
use libp2p_identify::verif_c46 as hook;
use libp2p_identify::verif_c46::RawIdentify;
use libp2p_identity::{Keypair, PeerId, PublicKey};
use libp2p_swarm::{
    ConnectionHandler, ConnectionHandlerEvent, ConnectionId, NetworkBehaviour, ToSwarm,
};
use prost::Message as _;

const LEGACY_DOMAIN: &str = "libp2p-routing-state";
const LEGACY_TYPE: &[u8] = b"/libp2p/routing-state-record";
const INTEROP_DOMAIN: &str = "libp2p-peer-record";
const INTEROP_TYPE: &[u8] = &[0x03, 0x01];

// ---------------------------------------------------------------- protobuf mirrors (oracle only)

#[derive(Clone, PartialEq, prost::Message)]
struct EnvelopePb {
    #[prost(bytes = "vec", tag = "1")]
    public_key: Vec<u8>,
    #[prost(bytes = "vec", tag = "2")]
    payload_type: Vec<u8>,
    #[prost(bytes = "vec", tag = "3")]
    payload: Vec<u8>,
    #[prost(bytes = "vec", tag = "5")]
    signature: Vec<u8>,
}

#[derive(Clone, PartialEq, prost::Message)]
struct PeerRecordPb {
    #[prost(bytes = "vec", tag = "1")]
    peer_id: Vec<u8>,
    #[prost(uint64, tag = "2")]
    seq: u64,
    #[prost(message, repeated, tag = "3")]
    addresses: Vec<AddressInfoPb>,
}

#[derive(Clone, PartialEq, prost::Message)]
struct AddressInfoPb {
    #[prost(bytes = "vec", tag = "1")]
    multiaddr: Vec<u8>,
}

// ---------------------------------------------------------------- key pool

pub fn repo_root() -> String {
    let alt = format!("{}/../../repo", env!("CARGO_MANIFEST_DIR"));
    if std::path::Path::new(&format!("{alt}/protocols/identify/src/lib.rs")).exists() {
        alt
    } else {
        "/repo".into()
    }
}

struct Pool {
    keys: Vec<Keypair>,
}

/// 0-2 ed25519, 3-4 secp256k1, 5-6 ecdsa, 7-8 rsa (2048, 3072)
fn pool() -> &'static Pool {
    static P: OnceLock<Pool> = OnceLock::new();
    P.get_or_init(|| {
        let mut keys = vec![hcore::keypair(1), hcore::keypair(2), hcore::keypair(3)];
        for i in [0x11u8, 0x22] {
            let sk = libp2p_identity::secp256k1::SecretKey::try_from_bytes([i; 32]).unwrap();
            keys.push(libp2p_identity::secp256k1::Keypair::from(sk).into());
        }
        for i in [0x33u8, 0x44] {
            let sk = libp2p_identity::ecdsa::SecretKey::try_from_bytes([i; 32]).unwrap();
            keys.push(libp2p_identity::ecdsa::Keypair::from(sk).into());
        }
        for f in ["rsa-2048.pk8", "rsa-3072.pk8"] {
            let mut der = std::fs::read(format!("{}/identity/src/test/{f}", repo_root())).expect("rsa test key");
            keys.push(Keypair::rsa_from_pkcs8(&mut der).unwrap());
        }
        Pool { keys }
    })
}

const NKEYS: usize = 9;

fn pool_id(i: usize) -> PeerId {
    pool().keys[i].public().to_peer_id()
}

// ---------------------------------------------------------------- messages as tokens

fn opt_tok(o: &Option<Vec<u8>>) -> String {
    match o {
        None => "none".into(),
        Some(b) => hex(b),
    }
}

fn opt_untok(s: &str) -> Option<Vec<u8>> {
    if s == "none" {
        None
    } else {
        Some(unhex(s))
    }
}

fn blist_tok(l: &[Vec<u8>]) -> String {
    if l.is_empty() {
        "~".into()
    } else {
        l.iter().map(|b| hex(b)).collect::<Vec<_>>().join(",")
    }
}

fn blist_untok(s: &str) -> Vec<Vec<u8>> {
    if s == "~" {
        vec![]
    } else {
        s.split(',').map(unhex).collect()
    }
}

fn sopt(o: &Option<String>) -> Option<Vec<u8>> {
    o.as_ref().map(|s| s.as_bytes().to_vec())
}

fn raw_tokens(m: &RawIdentify) -> String {
    let pr: Vec<Vec<u8>> = m.protocols.iter().map(|s| s.as_bytes().to_vec()).collect();
    format!(
        "{} {} {} {} {} {} {}",
        opt_tok(&m.public_key),
        blist_tok(&m.listen_addrs),
        opt_tok(&m.signed_peer_record),
        opt_tok(&m.observed_addr),
        blist_tok(&pr),
        opt_tok(&sopt(&m.protocol_version)),
        opt_tok(&sopt(&m.agent_version)),
    )
}

fn raw_from_tokens(t: &[String]) -> RawIdentify {
    let s = |b: Vec<u8>| String::from_utf8(b).expect("utf8 string field");
    RawIdentify {
        public_key: opt_untok(&t[0]),
        listen_addrs: blist_untok(&t[1]),
        signed_peer_record: opt_untok(&t[2]),
        observed_addr: opt_untok(&t[3]),
        protocols: blist_untok(&t[4]).into_iter().map(s).collect(),
        protocol_version: opt_untok(&t[5]).map(s),
        agent_version: opt_untok(&t[6]).map(s),
    }
}

// ---------------------------------------------------------------- interning + oracle

#[derive(Default)]
struct Intern {
    keys: Vec<Vec<u8>>,
    envs: Vec<Vec<u8>>,
}

fn intern(v: &mut Vec<Vec<u8>>, b: Vec<u8>) -> usize {
    if let Some(i) = v.iter().position(|x| *x == b) {
        i
    } else {
        v.push(b);
        v.len() - 1
    }
}

impl Intern {
    fn key(&mut self, k: &PublicKey) -> usize {
        intern(&mut self.keys, k.encode_protobuf())
    }
    fn env(&mut self, e: &SignedEnvelope) -> usize {
        intern(&mut self.envs, e.clone().into_protobuf_encoding())
    }
}

fn table(m: &BTreeMap<Vec<u8>, String>) -> String {
    if m.is_empty() {
        "~".into()
    } else {
        m.iter().map(|(k, v)| format!("{}>{}", hex(k), v)).collect::<Vec<_>>().join(";")
    }
}

/// results of the primitives on the byte strings of `m` (K A E R P tables)
fn oracle(m: &RawIdentify, it: &mut Intern) -> String {
    let mut kt = BTreeMap::new();
    let mut at = BTreeMap::new();
    let mut et = BTreeMap::new();
    let mut rt = BTreeMap::new();
    let mut pt = BTreeMap::new();
    let mut key_bytes: Vec<Vec<u8>> = vec![vec![]];
    if let Some(k) = &m.public_key {
        key_bytes.push(k.clone());
    }
    for kb in key_bytes {
        let v = match PublicKey::try_decode_protobuf(&kb) {
            Ok(k) => format!("{},{}", it.key(&k), hex(&k.to_peer_id().to_bytes())),
            Err(_) => "!".into(),
        };
        kt.insert(kb, v);
    }
    let mut addr_bytes: Vec<Vec<u8>> = m.listen_addrs.clone();
    if let Some(o) = &m.observed_addr {
        addr_bytes.push(o.clone());
    }
    if let Some(b) = &m.signed_peer_record {
        let v = match SignedEnvelope::from_protobuf_encoding(b) {
            Err(_) => "!".to_string(),
            Ok(env) => {
                let pb = EnvelopePb::decode(&b[..]).expect("mirror decodes what core decodes");
                let key = PublicKey::try_decode_protobuf(&pb.public_key).expect("envelope key");
                let verified = env.verify(LEGACY_DOMAIN.to_string());
                let rv = match PeerRecordPb::decode(&pb.payload[..]) {
                    Err(_) => "!".to_string(),
                    Ok(r) => {
                        let pv = match PeerId::from_bytes(&r.peer_id) {
                            Ok(p) => hex(&p.to_bytes()),
                            Err(_) => "!".into(),
                        };
                        pt.insert(r.peer_id.clone(), pv);
                        let addrs: Vec<Vec<u8>> = r.addresses.iter().map(|a| a.multiaddr.clone()).collect();
                        addr_bytes.extend(addrs.iter().cloned());
                        let al = if addrs.is_empty() {
                            "~".to_string()
                        } else {
                            addrs.iter().map(|a| hex(a)).collect::<Vec<_>>().join("+")
                        };
                        format!("{},{},{}", hex(&r.peer_id), r.seq, al)
                    }
                };
                rt.insert(pb.payload.clone(), rv);
                format!(
                    "{},{},{},{},{},{}",
                    it.env(&env),
                    it.key(&key),
                    hex(&key.to_peer_id().to_bytes()),
                    hex(&pb.payload_type),
                    hex(&pb.payload),
                    verified as u8
                )
            }
        };
        et.insert(b.clone(), v);
    }
    for ab in addr_bytes {
        let v = match Multiaddr::try_from(ab.clone()) {
            Ok(a) => maddr_tok(&a),
            Err(_) => "!".into(),
        };
        at.insert(ab, v);
    }
    format!("{} {} {} {} {}", table(&kt), table(&at), table(&et), table(&rt), table(&pt))
}

// ---------------------------------------------------------------- running the real code

fn info_tok(info: &identify::Info, it: &mut Intern) -> String {
    let pr: Vec<Vec<u8>> = info.protocols.iter().map(|p| p.as_ref().as_bytes().to_vec()).collect();
    format!(
        "key={} pid={} la={} rec={} pr={} obs={} pv={} av={}",
        it.key(&info.public_key),
        hex(&info.public_key.to_peer_id().to_bytes()),
        maddr_list_tok(&info.listen_addrs),
        match &info.signed_peer_record {
            None => "none".to_string(),
            Some(e) => format!("e{}", it.env(e)),
        },
        blist_tok(&pr),
        maddr_tok(&info.observed_addr),
        hex(info.protocol_version.as_bytes()),
        hex(info.agent_version.as_bytes()),
    )
}

fn err_tok(e: &identify::UpgradeError) -> &'static str {
    match e {
        identify::UpgradeError::Codec(_) => "err:Codec",
        identify::UpgradeError::Io(_) => "err:Io",
        identify::UpgradeError::StreamClosed => "err:StreamClosed",
        identify::UpgradeError::Multiaddr(_) => "err:Multiaddr",
        identify::UpgradeError::PublicKey(_) => "err:PublicKey",
    }
}

type IdHandler = <identify::Behaviour as NetworkBehaviour>::ConnectionHandler;

/// one connection of a real identify `Behaviour` to remote peer `p`
struct Conn {
    p: PeerId,
    conn: ConnectionId,
    behaviour: identify::Behaviour,
    handler: IdHandler,
}

impl Conn {
    fn new(p: PeerId) -> Conn {
        let local = hcore::keypair(200).public();
        let mut behaviour = identify::Behaviour::new(identify::Config::new("/verif/1".into(), local));
        let conn = ConnectionId::new_unchecked(7);
        let la: Multiaddr = "/memory/1".parse().unwrap();
        let ra: Multiaddr = "/memory/2".parse().unwrap();
        let handler = behaviour
            .handle_established_inbound_connection(conn, p, &la, &ra)
            .expect("handler");
        Conn { p, conn, behaviour, handler }
    }

    /// drive handler and behaviour to quiescence; returns the canonical outputs
    fn drain(&mut self, it: &mut Intern) -> Vec<String> {
        let waker = futures::task::noop_waker();
        let mut cx = Context::from_waker(&waker);
        let mut outs = vec![];
        for _ in 0..64 {
            match ConnectionHandler::poll(&mut self.handler, &mut cx) {
                Poll::Ready(ConnectionHandlerEvent::NotifyBehaviour(ev)) => {
                    self.behaviour.on_connection_handler_event(self.p, self.conn, ev);
                }
                Poll::Ready(_) => {}
                Poll::Pending => break,
            }
        }
        for _ in 0..4096 {
            match NetworkBehaviour::poll(&mut self.behaviour, &mut cx) {
                Poll::Ready(ToSwarm::GenerateEvent(ev)) => {
                    if let identify::Event::Received { connection_id, peer_id, .. } = &ev {
                        assert!(*connection_id == self.conn && *peer_id == self.p);
                    }
                    outs.push(event_tok(ev, &self.p, it));
                }
                Poll::Ready(_) => {}
                Poll::Pending => break,
            }
        }
        outs
    }
}

fn event_tok(ev: identify::Event, p: &PeerId, it: &mut Intern) -> String {
    match ev {
        identify::Event::Received { peer_id, info, .. } => {
            assert!(peer_id == *p);
            format!("recv {}", info_tok(&info, it))
        }
        identify::Event::Error { error, .. } => match error {
            libp2p_swarm::StreamUpgradeError::Apply(e) => err_tok(&e).to_string(),
            libp2p_swarm::StreamUpgradeError::Timeout => "err:Timeout".into(),
            _ => "err:Other".into(),
        },
        identify::Event::Sent { .. } => "sent".into(),
        identify::Event::Pushed { .. } => "pushed".into(),
    }
}

fn join_outs(outs: Vec<String>) -> String {
    match outs.len() {
        0 => "none".to_string(),
        1 => outs[0].clone(),
        _ => format!("multi {}", outs.join(" | ")),
    }
}

fn frame(body: &[u8]) -> Vec<u8> {
    let mut v = vec![];
    let mut n = body.len();
    loop {
        let b = (n & 0x7f) as u8;
        n >>= 7;
        if n == 0 {
            v.push(b);
            break;
        }
        v.push(b | 0x80);
    }
    v.extend_from_slice(body);
    v
}

#[derive(Clone)]
struct OpSpec {
    kind: &'static str,
    raw: RawIdentify,
    ideal: char,
    /// `wire-*` ops: the raw bytes of the stream (malformed on purpose), no message
    wire: Vec<u8>,
}

fn exec_case(out: &mut Out, idx: u64, class: &str, nt: bool, p: PeerId, ops: &[OpSpec]) {
    out.case(idx, &format!("{} nt={} p={}", class, nt as u8, hex(&p.to_bytes())));
    let mut it = Intern::default();
    let mut conn = Conn::new(p);
    let mut world: Option<crate::c46_e2e::World> = None;
    for op in ops {
        if op.kind.starts_with("wire-") {
            out.op(&format!("{} {}", op.kind, hex(&op.wire)));
        } else {
            let orc = oracle(&op.raw, &mut it);
            out.op(&format!("{} {} {} {}", op.kind, raw_tokens(&op.raw), op.ideal, orc));
        }
        let raw = op.raw.clone();
        let res = hcore::guarded(|| match op.kind {
            "wire-identify" | "wire-push" => {
                let pushed = if op.kind == "wire-identify" {
                    hook::inject_identify_stream(&mut conn.handler, op.wire.clone())
                } else {
                    hook::inject_push_stream(&mut conn.handler, op.wire.clone())
                };
                assert!(pushed);
                join_outs(conn.drain(&mut it))
            }
            "tryfrom" => match hook::info_try_from(raw) {
                Err(e) => err_tok(&e).to_string(),
                Ok(info) => {
                    let mut h = hook::new_handler(p, hcore::keypair(200).public());
                    let acc = hook::handle_incoming_info(&mut h, &info);
                    let stored = hook::remote_info(&h).is_some();
                    assert_eq!(acc, stored);
                    let filt: Vec<Multiaddr> = info
                        .listen_addrs
                        .iter()
                        .filter(|a| identify::verif_c46_filter::multiaddr_matches_peer_id(a, &p))
                        .cloned()
                        .collect();
                    format!("ok {} acc={} filt={}", info_tok(&info, &mut it), acc as u8, maddr_list_tok(&filt))
                }
            },
            "identify" | "push" => {
                let wire = frame(&raw.encode());
                let pushed = if op.kind == "identify" {
                    hook::inject_identify_stream(&mut conn.handler, wire)
                } else {
                    hook::inject_push_stream(&mut conn.handler, wire)
                };
                assert!(pushed);
                join_outs(conn.drain(&mut it))
            }
            "e2e-identify" | "e2e-push" => {
                if world.is_none() {
                    let k = (0..NKEYS).find(|i| pool_id(*i) == p).expect("e2e: p must be a pool key");
                    world = Some(crate::c46_e2e::World::new(&pool().keys[k]));
                }
                let w = world.as_mut().unwrap();
                let wire = frame(&raw.encode());
                let r = if op.kind == "e2e-identify" { w.identify(wire) } else { w.push(wire) };
                match r {
                    Err(e) => format!("rig-error {}", e.replace(' ', "_")),
                    Ok(evs) => join_outs(evs.into_iter().map(|e| event_tok(e, &p, &mut it)).collect()),
                }
            }
            k => format!("bad-op-{k}"),
        });
        match res {
            Ok(s) => out.imp(&s),
            Err(m) => out.imp(&format!("panic {m}")),
        }
    }
    out.end();
}

// ---------------------------------------------------------------- generators

/// address material for a connection to `p`
fn addr_pool(p: &PeerId, rng: &mut Rng) -> Vec<Vec<u8>> {
    let q1 = pool_id(rng.usize(NKEYS));
    let q2 = pool_id(rng.usize(NKEYS));
    let base = [
        "/ip4/10.0.0.1/tcp/4001",
        "/ip6/::1/udp/9/quic-v1",
        "/dns4/example.com/tcp/443/wss",
        "/memory/5",
        "/ip4/192.168.1.7/udp/4001/quic-v1/webtransport",
    ];
    let mut v: Vec<Vec<u8>> = vec![];
    let b = |s: &str| -> Multiaddr { s.parse().unwrap() };
    for s in base {
        let a = b(s);
        v.push(a.to_vec());
        v.push(a.clone().with(hcore::Protocol::P2p(*p)).to_vec());
        v.push(a.clone().with(hcore::Protocol::P2p(q1)).to_vec());
    }
    let relay = b("/ip4/1.2.3.4/tcp/1");
    v.push(relay.clone().with(hcore::Protocol::P2p(q2)).with(hcore::Protocol::P2pCircuit).to_vec());
    v.push(relay.clone().with(hcore::Protocol::P2p(q2)).with(hcore::Protocol::P2pCircuit).with(hcore::Protocol::P2p(*p)).to_vec());
    v.push(relay.clone().with(hcore::Protocol::P2p(*p)).with(hcore::Protocol::P2pCircuit).with(hcore::Protocol::P2p(q2)).to_vec());
    v.push(Multiaddr::empty().with(hcore::Protocol::P2p(*p)).to_vec());
    v.push(Multiaddr::empty().with(hcore::Protocol::P2p(q1)).to_vec());
    v.push(vec![]); // the empty multiaddr
    v
}

fn garbage_addr(rng: &mut Rng, pool: &[Vec<u8>]) -> Vec<u8> {
    match rng.below(3) {
        0 => vec![255; 8],
        1 => {
            let mut a = rng.pick(pool).clone();
            if a.len() > 1 {
                a.truncate(a.len() - 1);
            } else {
                a = vec![0x04, 1, 2];
            }
            a
        }
        _ => {
            let n = 1 + rng.usize(6);
            rng.bytes(n)
        }
    }
}

fn pick_addrs(rng: &mut Rng, pool: &[Vec<u8>], n: usize, garbage_ok: bool) -> Vec<Vec<u8>> {
    (0..n)
        .map(|_| if garbage_ok && rng.chance(1, 8) { garbage_addr(rng, pool) } else { rng.pick(pool).clone() })
        .collect()
}

/// how the record is built; the label is only for readability
#[derive(Clone, Copy, Debug, PartialEq, Eq)]
enum Rec {
    None,
    ValidSame,        // signed by the message's key, names that key's peer
    ValidOther,       // a perfectly valid record of ANOTHER peer
    NamesOther,       // signed by the message's key but names another peer
    SignerMismatch,   // names the message key's peer, signed by another key
    BadSig,           // signature byte flipped
    BadPayload,       // payload byte flipped after signing
    KeySwapped,       // envelope key replaced by another key after signing
    InteropFormat,    // valid record in the standard (Go/JS) format
    WrongDomain,      // legacy payload type, signed under the interop domain
    WrongType,        // legacy domain, other payload type
    BadAddr,          // valid signature, one undecodable address inside the record
    BadPeerId,        // valid signature, record peer id bytes are not a peer id
    PayloadNotRecord, // valid signature over bytes that are not a PeerRecord
    Garbage,          // random bytes
    Empty,            // empty byte string
    TruncatedEnv,     // valid envelope encoding cut short
}

const RECS: [Rec; 17] = [
    Rec::None, Rec::ValidSame, Rec::ValidOther, Rec::NamesOther, Rec::SignerMismatch, Rec::BadSig,
    Rec::BadPayload, Rec::KeySwapped, Rec::InteropFormat, Rec::WrongDomain, Rec::WrongType,
    Rec::BadAddr, Rec::BadPeerId, Rec::PayloadNotRecord, Rec::Garbage, Rec::Empty, Rec::TruncatedEnv,
];

fn other_key(rng: &mut Rng, not: usize) -> usize {
    let mut i = rng.usize(NKEYS - 1);
    if i >= not {
        i += 1;
    }
    i
}

/// returns (bytes, would an ideal verifier accept it for message key `mk`)
fn build_record(rng: &mut Rng, rec: Rec, mk: usize, addrs: Vec<Vec<u8>>) -> (Option<Vec<u8>>, bool) {
    let keys = &pool().keys;
    let ok_addrs = addrs.iter().all(|a| Multiaddr::try_from(a.clone()).is_ok());
    let seq = rng.below(1 << 40);
    let mk_record = |peer: Vec<u8>, addrs: Vec<Vec<u8>>| {
        PeerRecordPb { peer_id: peer, seq, addresses: addrs.into_iter().map(|a| AddressInfoPb { multiaddr: a }).collect() }
            .encode_to_vec()
    };
    let sign = |k: usize, dom: &str, ty: &[u8], payload: Vec<u8>| {
        SignedEnvelope::new(&keys[k], dom.to_string(), ty.to_vec(), payload).unwrap().into_protobuf_encoding()
    };
    let me = pool_id(mk).to_bytes();
    let o = other_key(rng, mk);
    let tamper = |b: Vec<u8>, f: &mut dyn FnMut(&mut EnvelopePb)| {
        let mut pb = EnvelopePb::decode(&b[..]).unwrap();
        f(&mut pb);
        pb.encode_to_vec()
    };
    match rec {
        Rec::None => (None, false),
        Rec::ValidSame => (Some(sign(mk, LEGACY_DOMAIN, LEGACY_TYPE, mk_record(me, addrs))), ok_addrs),
        Rec::ValidOther => (Some(sign(o, LEGACY_DOMAIN, LEGACY_TYPE, mk_record(pool_id(o).to_bytes(), addrs))), false),
        Rec::NamesOther => (Some(sign(mk, LEGACY_DOMAIN, LEGACY_TYPE, mk_record(pool_id(o).to_bytes(), addrs))), false),
        Rec::SignerMismatch => (Some(sign(o, LEGACY_DOMAIN, LEGACY_TYPE, mk_record(me, addrs))), false),
        Rec::BadSig => {
            let b = sign(mk, LEGACY_DOMAIN, LEGACY_TYPE, mk_record(me, addrs));
            let at = rng.next_u64() as usize;
            let bit = 1u8 << rng.below(8);
            (Some(tamper(b, &mut |pb| { let n = pb.signature.len(); pb.signature[at % n] ^= bit; })), false)
        }
        Rec::BadPayload => {
            let b = sign(mk, LEGACY_DOMAIN, LEGACY_TYPE, mk_record(me, addrs));
            let at = rng.next_u64() as usize;
            let bit = 1u8 << rng.below(8);
            (Some(tamper(b, &mut |pb| { let n = pb.payload.len(); pb.payload[at % n] ^= bit; })), false)
        }
        Rec::KeySwapped => {
            let b = sign(mk, LEGACY_DOMAIN, LEGACY_TYPE, mk_record(me, addrs));
            let ok = keys[o].public().encode_protobuf();
            (Some(tamper(b, &mut |pb| pb.public_key = ok.clone())), false)
        }
        Rec::InteropFormat => (Some(sign(mk, INTEROP_DOMAIN, INTEROP_TYPE, mk_record(me, addrs))), false),
        Rec::WrongDomain => (Some(sign(mk, INTEROP_DOMAIN, LEGACY_TYPE, mk_record(me, addrs))), false),
        Rec::WrongType => (Some(sign(mk, LEGACY_DOMAIN, b"/libp2p/routing-state-recorD", mk_record(me, addrs))), false),
        Rec::BadAddr => {
            let mut a = addrs;
            let at = rng.usize(a.len() + 1);
            a.insert(at, vec![255; 8]);
            (Some(sign(mk, LEGACY_DOMAIN, LEGACY_TYPE, mk_record(me, a))), false)
        }
        Rec::BadPeerId => (Some(sign(mk, LEGACY_DOMAIN, LEGACY_TYPE, mk_record(vec![0x12, 0x05, 1, 2, 3], addrs))), false),
        Rec::PayloadNotRecord => (Some(sign(mk, LEGACY_DOMAIN, LEGACY_TYPE, vec![0xff, 0xff, 0xff])), false),
        Rec::Garbage => {
            let n = 1 + rng.usize(40);
            (Some(rng.bytes(n)), false)
        }
        Rec::Empty => (Some(vec![]), false),
        Rec::TruncatedEnv => {
            let mut b = sign(mk, LEGACY_DOMAIN, LEGACY_TYPE, mk_record(me, addrs));
            let n = 1 + rng.usize(b.len() - 1);
            b.truncate(n);
            (Some(b), false)
        }
    }
}

#[derive(Clone, Copy, Debug, PartialEq, Eq)]
enum KeyF {
    Pool(usize),
    Missing,
    Empty,
    Garbage,
    Truncated(usize),
    UnknownType,
}

fn key_field(rng: &mut Rng, k: KeyF) -> Option<Vec<u8>> {
    match k {
        KeyF::Pool(i) => Some(pool().keys[i].public().encode_protobuf()),
        KeyF::Missing => None,
        KeyF::Empty => Some(vec![]),
        KeyF::Garbage => {
            let n = 1 + rng.usize(40);
            Some(rng.bytes(n))
        }
        KeyF::Truncated(i) => {
            let mut b = pool().keys[i].public().encode_protobuf();
            let n = 1 + rng.usize(b.len() - 1);
            b.truncate(n);
            Some(b)
        }
        // KeyType = 9 (unknown), 4 data bytes
        KeyF::UnknownType => Some(vec![0x08, 0x09, 0x12, 0x04, 1, 2, 3, 4]),
    }
}

const PROTOS: [&str; 6] = ["/ipfs/ping/1.0.0", "/ipfs/kad/1.0.0", "no-slash", "", "/", "/meshsub/1.1.0"];

fn gen_identify(rng: &mut Rng, p: &PeerId, key: KeyF, rec: Rec, apool: &[Vec<u8>]) -> (RawIdentify, char) {
    let n_la = rng.usize(5);
    let n_ra = rng.usize(4);
    let la = pick_addrs(rng, apool, n_la, true);
    let ra = pick_addrs(rng, apool, n_ra, false);
    let public_key = key_field(rng, key);
    let (mk, key_ok) = match key {
        KeyF::Pool(i) => (i, true),
        _ => (rng.usize(NKEYS), false),
    };
    let (spr, ok) = build_record(rng, rec, mk, ra);
    let _ = p;
    let np = rng.usize(4);
    let raw = RawIdentify {
        public_key,
        listen_addrs: la,
        signed_peer_record: spr,
        observed_addr: match rng.below(4) {
            0 => None,
            1 => Some(garbage_addr(rng, apool)),
            _ => Some(rng.pick(apool).clone()),
        },
        protocols: (0..np).map(|_| rng.pick(&PROTOS).to_string()).collect(),
        protocol_version: if rng.bool() { Some("ipfs/0.1.0".into()) } else { None },
        agent_version: if rng.bool() { Some(format!("agent/{}", rng.below(3))) } else { None },
    };
    let ideal = if !key_ok { 'x' } else if ok { '1' } else { '0' };
    (raw, ideal)
}

fn gen_push(rng: &mut Rng, p_idx: usize, apool: &[Vec<u8>]) -> (RawIdentify, bool) {
    // key field: mostly absent, sometimes the same key, sometimes a foreign or broken one
    let (kf, foreign) = match rng.below(10) {
        0..=4 => (KeyF::Missing, false),
        5 | 6 => (KeyF::Pool(p_idx), false),
        7 | 8 => (KeyF::Pool(other_key(rng, p_idx)), true),
        _ => (KeyF::Garbage, false),
    };
    let n_la = if rng.chance(1, 3) { 0 } else { 1 + rng.usize(4) };
    let np = rng.usize(3);
    let spr = if rng.chance(1, 4) {
        let rec = *rng.pick(&RECS);
        let ra = pick_addrs(rng, apool, 2, false);
        build_record(rng, rec, p_idx, ra).0
    } else {
        None
    };
    let raw = RawIdentify {
        public_key: key_field(rng, kf),
        listen_addrs: pick_addrs(rng, apool, n_la, true),
        signed_peer_record: spr,
        observed_addr: if rng.bool() { Some(rng.pick(apool).clone()) } else { None },
        protocols: (0..np).map(|_| rng.pick(&PROTOS).to_string()).collect(),
        protocol_version: if rng.chance(1, 3) { Some("ipfs/0.2.0".into()) } else { None },
        agent_version: None,
    };
    (raw, foreign)
}

/// a byte stream that cannot yield a message: empty, over-long length prefix, truncated body,
/// a body that is not protobuf, an unterminated length varint
fn malformed_wire(rng: &mut Rng, valid: &RawIdentify) -> Vec<u8> {
    let body = valid.encode();
    match rng.below(5) {
        0 => vec![],
        1 => {
            // declared length 4097..=20000 (> MAX_MESSAGE_SIZE_BYTES), body as long as declared
            let n = 4097 + rng.usize(16000);
            let mut v = frame(&vec![0u8; n]);
            v.truncate(rng.usize(v.len()) + 2);
            v
        }
        2 => {
            let mut v = frame(&body);
            if body.is_empty() {
                return vec![0x05, 0x0a];
            }
            let cut = 1 + rng.usize(body.len());
            v.truncate(v.len() - cut);
            v
        }
        3 => frame(&[0x0f, 0xff, 0xff]), // field 1, wire type 7 (invalid)
        _ => vec![0x80; 1 + rng.usize(12)],
    }
}

fn key_classes(p_idx: usize, rng: &mut Rng) -> Vec<KeyF> {
    let o = other_key(rng, p_idx);
    vec![
        KeyF::Pool(p_idx),
        KeyF::Pool(o),
        KeyF::Pool((p_idx + 3) % NKEYS),
        KeyF::Missing,
        KeyF::Empty,
        KeyF::Garbage,
        KeyF::Truncated(p_idx),
        KeyF::UnknownType,
    ]
}

pub fn run(args: &Args, out: &mut Out) {
    if let Some(cases) = args.replay_cases() {
        for (i, (hdr, ops)) in cases.iter().enumerate() {
            let idx = hdr.first().and_then(|s| s.parse().ok()).unwrap_or(i as u64);
            let class = hdr.get(1).cloned().unwrap_or_else(|| "replay".into());
            let nt = hdr.iter().any(|t| t == "nt=1");
            let p = hdr
                .iter()
                .find_map(|t| t.strip_prefix("p="))
                .map(|h| PeerId::from_bytes(&unhex(h)).expect("peer id in case header"))
                .expect("p= in case header");
            let specs: Vec<OpSpec> = ops
                .iter()
                .map(|t| if t[0].starts_with("wire-") {
                    OpSpec {
                        kind: if t[0] == "wire-identify" { "wire-identify" } else { "wire-push" },
                        raw: RawIdentify::default(),
                        ideal: 'x',
                        wire: unhex(&t[1]),
                    }
                } else { OpSpec {
                    kind: match t[0].as_str() {
                        "tryfrom" => "tryfrom",
                        "identify" => "identify",
                        "push" => "push",
                        "e2e-identify" => "e2e-identify",
                        "e2e-push" => "e2e-push",
                        _ => "bad",
                    },
                    raw: raw_from_tokens(&t[1..8]),
                    ideal: t[8].chars().next().unwrap_or('x'),
                    wire: vec![],
                }})
                .collect();
            exec_case(out, idx, &class, nt, p, &specs);
        }
        return;
    }

    let mut idx = 0u64;
    // ---- systematic part: every (connection key type) x (key class) x (record class)
    let p_choices: &[usize] = if args.thorough { &[0, 1, 3, 4, 5, 6, 7, 8] } else { &[0, 3, 5, 7] };
    let systematic = args.count == 0;
    if systematic {
        for &p_idx in p_choices {
            for kc in 0..8 {
                for rec in RECS {
                    let mut rng = Rng::for_case(args.seed, idx);
                    let p = pool_id(p_idx);
                    let apool = addr_pool(&p, &mut rng);
                    let key = key_classes(p_idx, &mut rng)[kc];
                    let (raw, ideal) = gen_identify(&mut rng, &p, key, rec, &apool);
                    let ops = vec![
                        OpSpec { kind: "tryfrom", raw: raw.clone(), ideal, wire: vec![] },
                        OpSpec { kind: "identify", raw, ideal, wire: vec![] },
                    ];
                    let nt = matches!(key, KeyF::Pool(_));
                    exec_case(out, idx, &format!("sys-k{kc}-{rec:?}"), nt, p, &ops);
                    idx += 1;
                }
            }
        }
    }
    // ---- end-to-end sessions: two real swarms, the remote is a raw protobuf writer
    let n_e2e = if args.count > 0 { args.count / 6 } else if args.thorough { 3000 } else { 300 };
    for _ in 0..n_e2e {
        let mut rng = Rng::for_case(args.seed, idx);
        let p_idx = rng.usize(NKEYS);
        let p = pool_id(p_idx);
        let apool = addr_pool(&p, &mut rng);
        let key = if rng.chance(7, 10) {
            KeyF::Pool(p_idx)
        } else {
            let ks = key_classes(p_idx, &mut rng);
            *rng.pick(&ks)
        };
        let rec = if rng.chance(2, 5) { Rec::ValidSame } else { *rng.pick(&RECS) };
        let (raw, ideal) = gen_identify(&mut rng, &p, key, rec, &apool);
        let mut ops = vec![OpSpec { kind: "e2e-identify", raw, ideal, wire: vec![] }];
        for _ in 0..rng.usize(4) {
            let (raw, _) = gen_push(&mut rng, p_idx, &apool);
            ops.push(OpSpec { kind: "e2e-push", raw, ideal: 'x', wire: vec![] });
        }
        exec_case(out, idx, "e2e", key == KeyF::Pool(p_idx), p, &ops);
        idx += 1;
    }
    // ---- random sessions: identify / push sequences on one connection
    let n = args.n(700, 12000);
    for _ in 0..n {
        let mut rng = Rng::for_case(args.seed, idx);
        let p_idx = rng.usize(NKEYS);
        let p = pool_id(p_idx);
        let apool = addr_pool(&p, &mut rng);
        let len = 1 + rng.usize(6);
        let mut ops = vec![];
        let mut nt = false;
        for j in 0..len {
            let push = if j == 0 { rng.chance(1, 6) } else { rng.chance(3, 5) };
            if rng.chance(1, 10) {
                let (valid, _) = gen_push(&mut rng, p_idx, &apool);
                let wire = malformed_wire(&mut rng, &valid);
                let kind = if push { "wire-push" } else { "wire-identify" };
                ops.push(OpSpec { kind, raw: RawIdentify::default(), ideal: 'x', wire });
            } else if push {
                let (raw, _) = gen_push(&mut rng, p_idx, &apool);
                ops.push(OpSpec { kind: "push", raw, ideal: 'x', wire: vec![] });
            } else {
                let key = if rng.chance(7, 10) {
                    KeyF::Pool(p_idx)
                } else {
                    let ks = key_classes(p_idx, &mut rng);
                    *rng.pick(&ks)
                };
                let rec = if rng.chance(2, 5) { Rec::ValidSame } else { *rng.pick(&RECS) };
                let (raw, ideal) = gen_identify(&mut rng, &p, key, rec, &apool);
                if key == KeyF::Pool(p_idx) {
                    nt = true;
                }
                let kind = if rng.chance(1, 8) { "tryfrom" } else { "identify" };
                ops.push(OpSpec { kind, raw, ideal, wire: vec![] });
            }
        }
        exec_case(out, idx, "session", nt, p, &ops);
        idx += 1;
    }
}
