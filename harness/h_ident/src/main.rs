//! Harness binary `h_ident <PROP> --seed S --tier T [--count N] [--replay F]`.
//! One module per property (`cNN.rs`, `pub fn run(args: &hcore::Args, out: &mut hcore::Out)`).

mod c46;
mod c46_e2e;

fn main() {
    let args = hcore::Args::parse();
    hcore::quiet_panics();
    let mut out = hcore::Out::new();
    match args.prop.as_str() {
        "C46" => c46::run(&args, &mut out),
        p => {
            let _ = &mut out;
            eprintln!("h_ident: unknown property {p}");
            std::process::exit(2);
        }
    }
    #[allow(unreachable_code)]
    out.flush();
}
