//! C46 end-to-end rig: two REAL `Swarm`s over `MemoryTransport` + noise + yamux, polled on
//! this thread (`Config::without_executor`).  Swarm A runs the real `identify::Behaviour`; swarm B
//! (whose authenticated identity is the connection peer `p`) runs a harness-controlled behaviour
//! that answers A's `/ipfs/id/1.0.0` request with scripted raw bytes and opens
//! `/ipfs/id/push/1.0.0` streams carrying scripted raw bytes.  Everything between B's raw writer
//! and A's `Event::Received` is unmodified libp2p code (multistream-select, yamux, the identify
//! handler and behaviour, the swarm).

use std::{
    collections::VecDeque,
    sync::{
        atomic::{AtomicBool, Ordering},
        Arc, Mutex,
    },
    task::{Context, Poll, Wake, Waker},
    time::{Duration, Instant},
};

use futures::{future::BoxFuture, stream::FuturesUnordered, AsyncWriteExt, FutureExt, StreamExt};
use hcore::Multiaddr;
use libp2p_core::{
    muxing::StreamMuxerBox,
    transport::{Boxed, MemoryTransport, PortUse, Transport},
    upgrade::{self, ReadyUpgrade},
    Endpoint, PeerId,
};
use libp2p_identify as identify;
use libp2p_identity::Keypair;
use libp2p_swarm::{
    handler::{ConnectionEvent, FullyNegotiatedInbound, FullyNegotiatedOutbound},
    Config as SwarmConfig, ConnectionDenied, ConnectionHandler, ConnectionHandlerEvent, ConnectionId,
    FromSwarm, NetworkBehaviour, NotifyHandler, StreamProtocol, SubstreamProtocol, Swarm, SwarmEvent,
    THandler, THandlerInEvent, THandlerOutEvent, ToSwarm,
};

#[derive(Debug, Clone, Copy, PartialEq, Eq)]
pub enum BEvent {
    Served,
    Pushed,
    NoScript,
    WriteFailed,
    DialUpgradeError,
}

type Script = Arc<Mutex<VecDeque<Vec<u8>>>>;

pub struct BHandler {
    script: Script,
    pending_push: VecDeque<Vec<u8>>,
    request_out: usize,
    tasks: FuturesUnordered<BoxFuture<'static, BEvent>>,
    events: VecDeque<BEvent>,
}

impl ConnectionHandler for BHandler {
    type FromBehaviour = Vec<u8>;
    type ToBehaviour = BEvent;
    type InboundProtocol = ReadyUpgrade<StreamProtocol>;
    type OutboundProtocol = ReadyUpgrade<StreamProtocol>;
    type InboundOpenInfo = ();
    type OutboundOpenInfo = ();

    fn listen_protocol(&self) -> SubstreamProtocol<Self::InboundProtocol> {
        SubstreamProtocol::new(ReadyUpgrade::new(identify::PROTOCOL_NAME), ())
    }

    fn connection_keep_alive(&self) -> bool {
        true
    }

    fn on_behaviour_event(&mut self, bytes: Vec<u8>) {
        self.pending_push.push_back(bytes);
        self.request_out += 1;
    }

    fn poll(
        &mut self,
        cx: &mut Context<'_>,
    ) -> Poll<ConnectionHandlerEvent<Self::OutboundProtocol, (), BEvent>> {
        if self.request_out > 0 {
            self.request_out -= 1;
            return Poll::Ready(ConnectionHandlerEvent::OutboundSubstreamRequest {
                protocol: SubstreamProtocol::new(ReadyUpgrade::new(identify::PUSH_PROTOCOL_NAME), ()),
            });
        }
        if let Some(e) = self.events.pop_front() {
            return Poll::Ready(ConnectionHandlerEvent::NotifyBehaviour(e));
        }
        if let Poll::Ready(Some(e)) = self.tasks.poll_next_unpin(cx) {
            return Poll::Ready(ConnectionHandlerEvent::NotifyBehaviour(e));
        }
        Poll::Pending
    }

    fn on_connection_event(
        &mut self,
        event: ConnectionEvent<Self::InboundProtocol, Self::OutboundProtocol, (), ()>,
    ) {
        match event {
            ConnectionEvent::FullyNegotiatedInbound(FullyNegotiatedInbound { protocol: mut stream, .. }) => {
                match self.script.lock().unwrap().pop_front() {
                    None => self.events.push_back(BEvent::NoScript),
                    Some(bytes) => self.tasks.push(
                        async move {
                            if stream.write_all(&bytes).await.is_err() {
                                return BEvent::WriteFailed;
                            }
                            let _ = stream.close().await;
                            BEvent::Served
                        }
                        .boxed(),
                    ),
                }
            }
            ConnectionEvent::FullyNegotiatedOutbound(FullyNegotiatedOutbound { protocol: mut stream, .. }) => {
                match self.pending_push.pop_front() {
                    None => self.events.push_back(BEvent::NoScript),
                    Some(bytes) => self.tasks.push(
                        async move {
                            if stream.write_all(&bytes).await.is_err() {
                                return BEvent::WriteFailed;
                            }
                            let _ = stream.close().await;
                            BEvent::Pushed
                        }
                        .boxed(),
                    ),
                }
            }
            ConnectionEvent::DialUpgradeError(_) => self.events.push_back(BEvent::DialUpgradeError),
            _ => {}
        }
    }
}

pub struct BBehaviour {
    script: Script,
    cmds: VecDeque<ToSwarm<BEvent, Vec<u8>>>,
}

impl BBehaviour {
    fn handler(&self) -> BHandler {
        BHandler {
            script: self.script.clone(),
            pending_push: VecDeque::new(),
            request_out: 0,
            tasks: FuturesUnordered::new(),
            events: VecDeque::new(),
        }
    }
}

impl NetworkBehaviour for BBehaviour {
    type ConnectionHandler = BHandler;
    type ToSwarm = BEvent;

    fn handle_established_inbound_connection(
        &mut self,
        _: ConnectionId,
        _: PeerId,
        _: &Multiaddr,
        _: &Multiaddr,
    ) -> Result<THandler<Self>, ConnectionDenied> {
        Ok(self.handler())
    }

    fn handle_established_outbound_connection(
        &mut self,
        _: ConnectionId,
        _: PeerId,
        _: &Multiaddr,
        _: Endpoint,
        _: PortUse,
    ) -> Result<THandler<Self>, ConnectionDenied> {
        Ok(self.handler())
    }

    fn on_swarm_event(&mut self, _: FromSwarm) {}

    fn on_connection_handler_event(&mut self, _: PeerId, _: ConnectionId, ev: THandlerOutEvent<Self>) {
        self.cmds.push_back(ToSwarm::GenerateEvent(ev));
    }

    fn poll(&mut self, _: &mut Context<'_>) -> Poll<ToSwarm<Self::ToSwarm, THandlerInEvent<Self>>> {
        match self.cmds.pop_front() {
            Some(c) => Poll::Ready(c),
            None => Poll::Pending,
        }
    }
}

struct Flag(AtomicBool);
impl Wake for Flag {
    fn wake(self: Arc<Self>) {
        self.0.store(true, Ordering::SeqCst)
    }
    fn wake_by_ref(self: &Arc<Self>) {
        self.0.store(true, Ordering::SeqCst)
    }
}

fn transport(key: &Keypair) -> Boxed<(PeerId, StreamMuxerBox)> {
    MemoryTransport::default()
        .upgrade(upgrade::Version::V1)
        .authenticate(libp2p_noise::Config::new(key).expect("noise config"))
        .multiplex(libp2p_yamux::Config::default())
        .boxed()
}

pub struct World {
    a: Swarm<identify::Behaviour>,
    b: Swarm<BBehaviour>,
    script: Script,
    b_addr: Multiaddr,
    flag: Arc<Flag>,
    waker: Waker,
    pub a_local: PeerId,
    pub b_id: PeerId,
    connected: bool,
    /// identify events of A not yet consumed
    a_events: VecDeque<identify::Event>,
    b_events: VecDeque<BEvent>,
    pub notes: Vec<String>,
}

impl World {
    pub fn new(b_key: &Keypair) -> World {
        let a_key = hcore::keypair(200);
        let cfg = || SwarmConfig::without_executor().with_idle_connection_timeout(Duration::from_secs(36_000));
        let a_beh = identify::Behaviour::new(
            identify::Config::new("/verif/1".into(), a_key.public()).with_interval(Duration::from_secs(36_000)),
        );
        let a = Swarm::new(transport(&a_key), a_beh, a_key.public().to_peer_id(), cfg());
        let script: Script = Arc::new(Mutex::new(VecDeque::new()));
        let b_beh = BBehaviour { script: script.clone(), cmds: VecDeque::new() };
        let mut b = Swarm::new(transport(b_key), b_beh, b_key.public().to_peer_id(), cfg());
        b.listen_on("/memory/0".parse().unwrap()).unwrap();
        let flag = Arc::new(Flag(AtomicBool::new(false)));
        let waker = Waker::from(flag.clone());
        let mut w = World {
            a,
            b,
            script,
            b_addr: Multiaddr::empty(),
            flag,
            waker,
            a_local: a_key.public().to_peer_id(),
            b_id: b_key.public().to_peer_id(),
            connected: false,
            a_events: VecDeque::new(),
            b_events: VecDeque::new(),
            notes: vec![],
        };
        w.pump(|w| !w.b_addr.is_empty());
        w
    }

    /// one round: poll both swarms until each is Pending; returns whether anything happened
    fn round(&mut self) -> bool {
        let mut progress = self.flag.0.swap(false, Ordering::SeqCst);
        let waker = self.waker.clone();
        let mut cx = Context::from_waker(&waker);
        while let Poll::Ready(Some(ev)) = self.a.poll_next_unpin(&mut cx) {
            progress = true;
            match ev {
                SwarmEvent::Behaviour(e) => self.a_events.push_back(e),
                SwarmEvent::ConnectionEstablished { peer_id, .. } => {
                    assert_eq!(peer_id, self.b_id);
                    self.connected = true;
                }
                SwarmEvent::ConnectionClosed { .. } => self.notes.push("a:closed".into()),
                SwarmEvent::OutgoingConnectionError { error, .. } => self.notes.push(format!("a:dialerr:{error:?}").replace(' ', "_")),
                _ => {}
            }
        }
        while let Poll::Ready(Some(ev)) = self.b.poll_next_unpin(&mut cx) {
            progress = true;
            match ev {
                SwarmEvent::Behaviour(e) => self.b_events.push_back(e),
                SwarmEvent::NewListenAddr { address, .. } => self.b_addr = address,
                SwarmEvent::ConnectionClosed { .. } => self.notes.push("b:closed".into()),
                SwarmEvent::IncomingConnectionError { error, .. } => self.notes.push(format!("b:inerr:{error:?}").replace(' ', "_")),
                _ => {}
            }
        }
        progress
    }

    /// poll until `done` holds (waiting for timer-thread wake-ups if needed, bounded by 30 s of
    /// wall clock — only a hang ends that way), then until 40 consecutive rounds make no progress
    fn pump(&mut self, done: impl Fn(&World) -> bool) -> bool {
        let t0 = Instant::now();
        while !done(self) {
            if !self.round() {
                if t0.elapsed() > Duration::from_secs(30) {
                    return false;
                }
                std::thread::sleep(Duration::from_micros(200));
            }
        }
        let mut quiet = 0;
        while quiet < 40 {
            if self.round() {
                quiet = 0;
            } else {
                quiet += 1;
            }
        }
        true
    }

    fn take_a(&mut self) -> Vec<identify::Event> {
        self.a_events.drain(..).collect()
    }

    /// A connects to B and sends its identify request; B answers with `wire`
    pub fn identify(&mut self, wire: Vec<u8>) -> Result<Vec<identify::Event>, String> {
        if self.connected {
            return Err("e2e-identify-only-first".into());
        }
        self.script.lock().unwrap().push_back(wire);
        self.a.dial(self.b_addr.clone()).map_err(|e| format!("dial:{e:?}"))?;
        let ok = self.pump(|w| w.b_events.iter().any(|e| *e != BEvent::Pushed) || !w.notes.is_empty());
        if !ok {
            return Err(format!("timeout:{}", self.notes.join(",")));
        }
        match self.b_events.pop_front() {
            Some(BEvent::Served) => Ok(self.take_a()),
            other => Err(format!("b:{other:?}")),
        }
    }

    /// connect without serving anything useful is not possible (A always asks); so a push-first
    /// session answers the request with an empty message body is NOT done here: callers start
    /// every e2e session with `identify`.
    pub fn push(&mut self, wire: Vec<u8>) -> Result<Vec<identify::Event>, String> {
        if !self.connected {
            return Err("e2e-push-before-connect".into());
        }
        let peer = self.a_local;
        self.b.behaviour_mut().cmds.push_back(ToSwarm::NotifyHandler {
            peer_id: peer,
            handler: NotifyHandler::Any,
            event: wire,
        });
        let ok = self.pump(|w| !w.b_events.is_empty() || !w.notes.is_empty());
        if !ok {
            return Err("timeout".into());
        }
        match self.b_events.pop_front() {
            Some(BEvent::Pushed) => Ok(self.take_a()),
            other => Err(format!("b:{other:?}")),
        }
    }
}
