//! C25 — the real `libp2p_mplex` codec (through the `verif_c25` hook) vs the Lean model `C25`.
//!
//! ops (one fresh `Codec` + `BytesMut` per case):
//!   const                              -> max_frame=<MAX_FRAME_SIZE>
//!   enc <O|D|C|R> <num> <d|l> <bytes>  -> ok <bytes> | err:InvalidData:size
//!   feed <bytes>                       -> <frames|-> <need|err:..> rem=<n>
use bytes::BytesMut;
use hcore::{Args, Out, Rng};
use libp2p_mplex::verif_c25::{Kind, VCodec, VFrame, MAX_FRAME_SIZE};

const RUN: usize = 32;

/// canonical byte token: `-`, or `+`-joined parts (hex | rXXxN for runs of >= 32 equal bytes)
pub fn show_bytes(bs: &[u8]) -> String {
    if bs.is_empty() {
        return "-".into();
    }
    let mut parts: Vec<String> = vec![];
    let mut cur = String::new();
    let mut i = 0;
    while i < bs.len() {
        let b = bs[i];
        let mut k = 1;
        while i + k < bs.len() && bs[i + k] == b {
            k += 1;
        }
        if k >= RUN {
            if !cur.is_empty() {
                parts.push(std::mem::take(&mut cur));
            }
            parts.push(format!("r{:02x}x{}", b, k));
        } else {
            for _ in 0..k {
                cur.push_str(&format!("{:02x}", b));
            }
        }
        i += k;
    }
    if !cur.is_empty() {
        parts.push(cur);
    }
    parts.join("+")
}

pub fn parse_bytes(tok: &str) -> Vec<u8> {
    let mut out = vec![];
    if tok == "-" {
        return out;
    }
    for p in tok.split('+') {
        if let Some(rest) = p.strip_prefix('r') {
            let (b, n) = rest.split_once('x').expect("run token");
            let b = u8::from_str_radix(b, 16).expect("run byte");
            let n: usize = n.parse().expect("run count");
            out.extend(std::iter::repeat(b).take(n));
        } else {
            out.extend(hcore::unhex(p));
        }
    }
    out
}

fn role_tok(dialer: bool) -> &'static str {
    if dialer {
        "d"
    } else {
        "l"
    }
}

pub fn frame_tok(f: &VFrame) -> String {
    match f.kind {
        Kind::Open => format!("O:{}:{}", f.num, role_tok(f.dialer)),
        Kind::Data => format!("D:{}:{}:{}", f.num, role_tok(f.dialer), show_bytes(&f.data)),
        Kind::Close => format!("C:{}:{}", f.num, role_tok(f.dialer)),
        Kind::Reset => format!("R:{}:{}", f.num, role_tok(f.dialer)),
    }
}

fn kind_tok(k: Kind) -> &'static str {
    match k {
        Kind::Open => "O",
        Kind::Data => "D",
        Kind::Close => "C",
        Kind::Reset => "R",
    }
}

fn enc_op(f: &VFrame) -> String {
    format!("enc {} {} {} {}", kind_tok(f.kind), f.num, role_tok(f.dialer), show_bytes(&f.data))
}

pub fn status_tok(e: &std::io::Error) -> String {
    let msg = e.to_string();
    let kind = format!("{:?}", e.kind());
    let class = if msg == "input bytes exceed maximum" {
        "overflow".to_string()
    } else if msg == "encoding is not minimal" {
        "notminimal".to_string()
    } else if let Some(r) = msg.strip_prefix("Mplex frame length ") {
        format!("len:{}", r.split(' ').next().unwrap_or("?"))
    } else if let Some(r) = msg.strip_prefix("Invalid mplex header value 0x") {
        match u64::from_str_radix(r, 16) {
            Ok(h) => format!("type:{h}"),
            Err(_) => "type:?".into(),
        }
    } else if msg == "Mplex codec poisoned" {
        "poisoned".to_string()
    } else if msg == "data size exceed maximum" {
        "size".to_string()
    } else {
        format!("unknown:{}", msg.replace(' ', "_"))
    };
    format!("err:{kind}:{class}")
}

struct Runner {
    codec: VCodec,
    buf: BytesMut,
    /// the encoder and the ONE output buffer of the `encs`/`decs` ops
    enc: VCodec,
    out: BytesMut,
}

impl Runner {
    fn new() -> Self {
        Runner { codec: VCodec::new(), buf: BytesMut::new(), enc: VCodec::new(), out: BytesMut::new() }
    }

    /// executes one op (tokens after `op`), returns the impl line
    fn exec(&mut self, t: &[String]) -> String {
        match t[0].as_str() {
            "const" => format!("max_frame={}", MAX_FRAME_SIZE),
            "enc" => {
                let kind = match t[1].as_str() {
                    "O" => Kind::Open,
                    "D" => Kind::Data,
                    "C" => Kind::Close,
                    _ => Kind::Reset,
                };
                let f = VFrame {
                    kind,
                    num: t[2].parse().expect("num"),
                    dialer: t[3] == "d",
                    data: parse_bytes(&t[4]),
                };
                let r = hcore::guarded(|| {
                    let mut dst = BytesMut::new();
                    let r = VCodec::new().encode(&f, &mut dst);
                    (r, dst)
                });
                match r {
                    Ok((Some(Ok(())), dst)) => format!("ok {}", show_bytes(&dst)),
                    Ok((Some(Err(e)), _)) => status_tok(&e),
                    Ok((None, _)) => "unconstructible".into(),
                    Err(m) => format!("panic {m}"),
                }
            }
            "encs" => {
                // encode into the shared buffer; report what appeared at its end, its new length
                // and whether the old contents are still there untouched
                let kind = match t[1].as_str() {
                    "O" => Kind::Open,
                    "D" => Kind::Data,
                    "C" => Kind::Close,
                    _ => Kind::Reset,
                };
                let f = VFrame {
                    kind,
                    num: t[2].parse().expect("num"),
                    dialer: t[3] == "d",
                    data: parse_bytes(&t[4]),
                };
                let before = self.out.to_vec();
                let enc = &mut self.enc;
                let out = &mut self.out;
                let r = hcore::guarded(|| enc.encode(&f, out));
                let res = match r {
                    Ok(Some(Ok(()))) => "ok".to_string(),
                    Ok(Some(Err(e))) => status_tok(&e),
                    Ok(None) => return "unconstructible".into(),
                    Err(m) => return format!("panic {m}"),
                };
                let after = &self.out[..];
                let same = after.len() >= before.len() && after[..before.len()] == before[..];
                let add: &[u8] = if after.len() >= before.len() { &after[before.len()..] } else { &[] };
                format!(
                    "{res} add={} len={} prefix={}",
                    show_bytes(add),
                    after.len(),
                    if same { "same" } else { "changed" }
                )
            }
            "decs" => {
                // decode the whole shared buffer with a fresh decoder, cut as requested
                let sizes: Vec<usize> =
                    if t[1] == "-" { vec![] } else { t[1].split(',').map(|x| x.parse().expect("size")).collect() };
                let all = self.out.to_vec();
                let r = hcore::guarded(|| {
                    let mut codec = VCodec::new();
                    let mut buf = BytesMut::new();
                    let mut frames = vec![];
                    let mut status = "need".to_string();
                    let mut pos = 0usize;
                    let mut chunks: Vec<&[u8]> = vec![];
                    for n in &sizes {
                        let e = (pos + n).min(all.len());
                        chunks.push(&all[pos..e]);
                        pos = e;
                    }
                    chunks.push(&all[pos..]);
                    let mut failed = false;
                    for c in chunks {
                        buf.extend_from_slice(c);
                        if failed {
                            continue;
                        }
                        loop {
                            match codec.decode(&mut buf) {
                                Ok(Some(f)) => frames.push(frame_tok(&f)),
                                Ok(None) => break,
                                Err(e) => {
                                    status = status_tok(&e);
                                    failed = true;
                                    break;
                                }
                            }
                        }
                    }
                    (frames, status, buf.len())
                });
                match r {
                    Ok((frames, st, rem)) => format!("{} {} rem={}", hcore::list(&frames), st, rem),
                    Err(m) => format!("panic {m}"),
                }
            }
            "feed" => {
                let chunk = parse_bytes(&t[1]);
                self.buf.extend_from_slice(&chunk);
                let codec = &mut self.codec;
                let buf = &mut self.buf;
                let r = hcore::guarded(|| {
                    let mut frames = vec![];
                    loop {
                        match codec.decode(buf) {
                            Ok(Some(f)) => frames.push(frame_tok(&f)),
                            Ok(None) => return (frames, "need".to_string()),
                            Err(e) => return (frames, status_tok(&e)),
                        }
                    }
                });
                match r {
                    Ok((frames, st)) => format!("{} {} rem={}", hcore::list(&frames), st, self.buf.len()),
                    Err(m) => format!("panic {m}"),
                }
            }
            other => panic!("c25: unknown op {other}"),
        }
    }
}

fn toks(s: &str) -> Vec<String> {
    s.split_whitespace().map(|x| x.to_string()).collect()
}

fn run_case(out: &mut Out, idx: u64, class: &str, ops: &[String]) {
    let mut r = Runner::new();
    let mut lines = vec![];
    let mut nt = false;
    for op in ops {
        let imp = r.exec(&toks(op));
        // non-trivial: produced a frame, an error, or encoded something
        if imp.starts_with("ok ") || imp.contains("err:") || imp.contains(':') {
            nt = true;
        }
        lines.push((op.clone(), imp));
    }
    out.case(idx, &format!("{class} nt={}", nt as u8));
    for (o, i) in lines {
        out.op(&o);
        out.imp(&i);
    }
    out.end();
}

fn encode_real(f: &VFrame) -> Vec<u8> {
    let mut dst = BytesMut::new();
    VCodec::new().encode(f, &mut dst).expect("constructible").expect("encodable");
    dst.to_vec()
}

fn uvi(mut n: u64) -> Vec<u8> {
    let mut v = vec![];
    loop {
        let b = (n & 0x7f) as u8;
        n >>= 7;
        if n == 0 {
            v.push(b);
            return v;
        }
        v.push(b | 0x80);
    }
}

const WIRE_IDS: [u64; 12] = [
    0,
    1,
    2,
    15,
    16,
    127,
    128,
    (1 << 32) - 1,
    1 << 32,
    1 << 60,
    (1 << 61) - 2,
    (1 << 61) - 1,
];
const SMALL_SIZES: [usize; 8] = [0, 0, 1, 2, 3, 5, 8, 13];
const EDGE_SIZES: [usize; 10] = [0, 1, 31, 32, 33, 127, 128, 129, 16383, 16384];

fn gen_payload(rng: &mut Rng, n: usize) -> Vec<u8> {
    match rng.below(4) {
        0 => vec![rng.next_u64() as u8; n],
        1 => (0..n).map(|i| (i % 251) as u8).collect(),
        _ => rng.bytes(n),
    }
}

fn gen_frame(rng: &mut Rng, sizes: &[usize]) -> VFrame {
    let kind = *rng.pick(&[Kind::Open, Kind::Data, Kind::Data, Kind::Data, Kind::Close, Kind::Reset]);
    let num = if rng.chance(1, 2) { *rng.pick(&WIRE_IDS) } else { rng.below(1 << 61) >> rng.below(61) };
    let dialer = if kind == Kind::Open { true } else { rng.bool() };
    let data = if kind == Kind::Data { let n = *rng.pick(sizes); gen_payload(rng, n) } else { vec![] };
    VFrame { kind, num, dialer, data }
}

fn chunked(rng: &mut Rng, bytes: &[u8]) -> Vec<Vec<u8>> {
    let mut out = vec![];
    let mut i = 0;
    while i < bytes.len() {
        let n = match rng.below(8) {
            0 => 0,
            1 | 2 => 1,
            3 => 2,
            4 => rng.usize(8) + 1,
            5 => rng.usize(200) + 1,
            6 => rng.usize(20000) + 1,
            _ => bytes.len() - i,
        };
        let n = n.min(bytes.len() - i);
        out.push(bytes[i..i + n].to_vec());
        i += n;
    }
    if rng.chance(1, 4) {
        out.push(vec![]);
    }
    out
}

fn feed_ops(chunks: &[Vec<u8>]) -> Vec<String> {
    chunks.iter().map(|c| format!("feed {}", show_bytes(c))).collect()
}

pub fn run(args: &Args, out: &mut Out) {
    if let Some(cases) = args.replay_cases() {
        for (i, (hdr, ops)) in cases.iter().enumerate() {
            let ops: Vec<String> = ops.iter().map(|o| o.join(" ")).collect();
            let class = hdr.get(1).cloned().unwrap_or_else(|| "replay".into());
            run_case(out, i as u64, &class, &ops);
        }
        return;
    }
    let mut idx = 0u64;
    let mut case = |out: &mut Out, class: &str, ops: Vec<String>| {
        run_case(out, idx, class, &ops);
        idx += 1;
    };

    // -- the constant
    case(out, "const", vec!["const".into()]);

    // -- every kind x role x boundary id: encode, then decode in one piece and byte by byte
    for kind in [Kind::Open, Kind::Data, Kind::Close, Kind::Reset] {
        for dialer in [true, false] {
            for &num in WIRE_IDS.iter() {
                let data = if kind == Kind::Data { vec![0xAB, 0x00, 0x7f] } else { vec![] };
                let f = VFrame { kind, num, dialer, data };
                let bytes = encode_real(&f);
                let mut ops = vec![enc_op(&f), format!("feed {}", show_bytes(&bytes))];
                case(out, "ids-whole", ops.clone());
                ops.truncate(1);
                ops.extend(bytes.iter().map(|b| format!("feed {:02x}", b)));
                case(out, "ids-bytewise", ops);
            }
        }
    }
    // ids beyond 61 bits (dialer only: the hook cannot build such listener ids): `num << 3` wraps
    for &num in &[1u64 << 61, (1 << 61) + 5, 1 << 63, u64::MAX] {
        for kind in [Kind::Open, Kind::Data, Kind::Close, Kind::Reset] {
            let f = VFrame { kind, num, dialer: true, data: if kind == Kind::Data { vec![1, 2] } else { vec![] } };
            let bytes = encode_real(&f);
            case(out, "ids-wrap", vec![enc_op(&f), format!("feed {}", show_bytes(&bytes))]);
        }
    }

    // -- all two-way split points of short frame sequences
    let n_lists = args.n(40, 600);
    for li in 0..n_lists {
        let mut rng = Rng::for_case(args.seed, 1_000_000 + li);
        let k = 1 + rng.usize(3);
        let frames: Vec<VFrame> = (0..k).map(|_| gen_frame(&mut rng, &SMALL_SIZES)).collect();
        let bytes: Vec<u8> = frames.iter().flat_map(encode_real).collect();
        let encs: Vec<String> = frames.iter().map(enc_op).collect();
        for p in 0..=bytes.len() {
            let mut ops = encs.clone();
            ops.push(format!("feed {}", show_bytes(&bytes[..p])));
            ops.push(format!("feed {}", show_bytes(&bytes[p..])));
            case(out, "allsplit2", ops);
        }
        // a few three-way splits
        for _ in 0..4 {
            let a = rng.usize(bytes.len() + 1);
            let b = a + rng.usize(bytes.len() - a + 1);
            let mut ops = encs.clone();
            for c in [&bytes[..a], &bytes[a..b], &bytes[b..]] {
                ops.push(format!("feed {}", show_bytes(c)));
            }
            case(out, "split3", ops);
        }
    }

    // -- random chunkings of longer sequences with boundary payload sizes
    let n = args.n(300, 6000);
    for i in 0..n {
        let mut rng = Rng::for_case(args.seed, 2_000_000 + i);
        let k = 1 + rng.usize(6);
        let sizes: &[usize] = if rng.chance(1, 3) { &EDGE_SIZES } else { &SMALL_SIZES };
        let frames: Vec<VFrame> = (0..k).map(|_| gen_frame(&mut rng, sizes)).collect();
        let bytes: Vec<u8> = frames.iter().flat_map(encode_real).collect();
        let mut ops: Vec<String> = if rng.chance(1, 2) { frames.iter().map(enc_op).collect() } else { vec![] };
        ops.extend(feed_ops(&chunked(&mut rng, &bytes)));
        case(out, "chunks", ops);
    }

    // -- a SEQUENCE of frames encoded into one buffer, rejected ones included, then decoded as a whole
    let n = args.n(60, 1500);
    for i in 0..n {
        let mut rng = Rng::for_case(args.seed, 8_000_000 + i);
        let k = 2 + rng.usize(5);
        // where the rejected frame(s) go: first / middle / last / several / none
        let mode = i % 5;
        let mut frames: Vec<VFrame> = (0..k).map(|_| gen_frame(&mut rng, &SMALL_SIZES)).collect();
        let reject = |rng: &mut Rng| -> VFrame {
            let sz = *rng.pick(&[MAX_FRAME_SIZE + 1, MAX_FRAME_SIZE + 1, MAX_FRAME_SIZE + 2, 2 * MAX_FRAME_SIZE]);
            VFrame {
                kind: Kind::Data,
                num: *rng.pick(&WIRE_IDS),
                dialer: rng.bool(),
                data: vec![0x40 + (rng.next_u64() % 16) as u8; sz],
            }
        };
        match mode {
            0 => frames.insert(0, reject(&mut rng)),
            1 => {
                let p = 1 + rng.usize(k - 1);
                frames.insert(p, reject(&mut rng));
            }
            2 => frames.push(reject(&mut rng)),
            3 => {
                frames.insert(0, reject(&mut rng));
                let p = 1 + rng.usize(k);
                frames.insert(p, reject(&mut rng));
                frames.push(reject(&mut rng));
            }
            _ => {
                if rng.chance(1, 6) {
                    // an accepted frame of exactly the maximum size
                    let p = rng.usize(k);
                    frames[p] = VFrame { kind: Kind::Data, num: 7, dialer: true, data: vec![0x5a; MAX_FRAME_SIZE] };
                }
            }
        }
        let mut ops: Vec<String> = frames
            .iter()
            .map(|f| format!("encs {} {} {} {}", kind_tok(f.kind), f.num, role_tok(f.dialer), show_bytes(&f.data)))
            .collect();
        // expected length of the buffer = the encodings of the accepted frames
        let total: usize =
            frames.iter().filter(|f| f.data.len() <= MAX_FRAME_SIZE).map(|f| uvi(f.num << 3).len() + uvi(f.data.len() as u64).len() + f.data.len()).sum();
        ops.push("decs -".into());
        if total <= 200 {
            ops.push(format!("decs {}", vec!["1"; total].join(",")));
        }
        for _ in 0..3 {
            let a = rng.usize(total + 1);
            let b = rng.usize(total + 1 - a);
            let c = rng.usize(4);
            ops.push(format!("decs {a},{c},{b}"));
        }
        // and once more after a further accepted frame
        let extra = gen_frame(&mut rng, &SMALL_SIZES);
        ops.push(format!("encs {} {} {} {}", kind_tok(extra.kind), extra.num, role_tok(extra.dialer), show_bytes(&extra.data)));
        ops.push("decs -".into());
        case(out, "encseq", ops);
    }

    // -- the 1 MiB boundary, encoder and decoder
    let bigs: &[usize] = if args.thorough {
        &[MAX_FRAME_SIZE - 1, MAX_FRAME_SIZE, MAX_FRAME_SIZE + 1, MAX_FRAME_SIZE + 2, 2 * MAX_FRAME_SIZE]
    } else {
        &[MAX_FRAME_SIZE, MAX_FRAME_SIZE + 1]
    };
    for (j, &sz) in bigs.iter().enumerate() {
        let mut rng = Rng::for_case(args.seed, 3_000_000 + j as u64);
        let fill = 0x41 + j as u8;
        let f = VFrame { kind: Kind::Data, num: 3, dialer: rng.bool(), data: vec![fill; sz] };
        let mut ops = vec![enc_op(&f)];
        // hand-made encoding (the encoder refuses > 1 MiB): header, length, payload
        let mut bytes = uvi((3 << 3) | if f.dialer { 2 } else { 1 });
        bytes.extend(uvi(sz as u64));
        let hl = bytes.len();
        bytes.extend(std::iter::repeat(fill).take(sz));
        bytes.extend([0x08, 0x00]); // an Open frame right behind it
        let cut = hl + rng.usize(sz.min(1000));
        ops.push(format!("feed {}", show_bytes(&bytes[..hl - 1])));
        ops.push(format!("feed {}", show_bytes(&bytes[hl - 1..hl])));
        ops.push(format!("feed {}", show_bytes(&bytes[hl..cut])));
        ops.push(format!("feed {}", show_bytes(&bytes[cut..bytes.len() - 3])));
        ops.push(format!("feed {}", show_bytes(&bytes[bytes.len() - 3..])));
        case(out, "big", ops);
    }

    // -- hostile length prefixes: rejected exactly when the length varint completes
    let lens: [u64; 9] = [
        MAX_FRAME_SIZE as u64,
        MAX_FRAME_SIZE as u64 + 1,
        MAX_FRAME_SIZE as u64 + 2,
        1 << 21,
        1 << 32,
        (1 << 56) - 1,
        1 << 62,
        1 << 63,
        u64::MAX,
    ];
    for (j, &len) in lens.iter().enumerate() {
        for flag in 0..8u64 {
            let mut rng = Rng::for_case(args.seed, 4_000_000 + (j as u64) * 8 + flag);
            let num = *rng.pick(&WIRE_IDS);
            let mut bytes = uvi((num << 3) | flag);
            bytes.extend(uvi(len));
            let tn = rng.usize(6);
            let tail = rng.bytes(tn);
            // byte by byte, then some payload, then more (poisoned)
            let mut ops: Vec<String> = bytes.iter().map(|b| format!("feed {:02x}", b)).collect();
            ops.push(format!("feed {}", show_bytes(&tail)));
            ops.push("feed 0800".into());
            case(out, "hostile-len", ops);
            // and in one piece
            let mut all = bytes.clone();
            all.extend(&tail);
            case(out, "hostile-len-whole", vec![format!("feed {}", show_bytes(&all)), "feed -".into()]);
        }
    }

    // -- malformed varints (overflow, non-minimal, lost high bits) in header and length position
    let bad_varints: Vec<Vec<u8>> = vec![
        vec![0x80, 0x00],
        vec![0xff, 0x80, 0x00],
        vec![0x80; 10],
        vec![0xff; 10],
        [vec![0x80; 9], vec![0x01]].concat(),
        [vec![0x80; 9], vec![0x02]].concat(),
        [vec![0xff; 9], vec![0x7f]].concat(),
        [vec![0x80; 9], vec![0x00]].concat(),
        [vec![0x80; 10], vec![0x01]].concat(),
        [vec![0x88], vec![0x80; 8], vec![0x7e]].concat(),
        vec![0x80, 0x80, 0x01],
    ];
    for (j, v) in bad_varints.iter().enumerate() {
        for pos in 0..2 {
            let mut rng = Rng::for_case(args.seed, 5_000_000 + j as u64 * 2 + pos);
            let mut bytes = vec![];
            if pos == 1 {
                bytes.extend(uvi((rng.below(1000) << 3) | rng.below(7)));
            }
            bytes.extend(v);
            bytes.extend([0x00, 0x08, 0x00, 0x0a, 0x01, 0x55]);
            let mut ops: Vec<String> = bytes.iter().map(|b| format!("feed {:02x}", b)).collect();
            ops.push("feed -".into());
            case(out, "bad-varint", ops);
            case(out, "bad-varint-whole", vec![format!("feed {}", show_bytes(&bytes))]);
        }
    }

    // -- unknown type (flag 7) and control frames carrying a payload
    for flag in [0u64, 3, 4, 5, 6, 7] {
        for plen in [0usize, 1, 3, 40] {
            let mut rng = Rng::for_case(args.seed, 6_000_000 + flag * 100 + plen as u64);
            let num = *rng.pick(&WIRE_IDS);
            let mut bytes = uvi((num << 3) | flag);
            bytes.extend(uvi(plen as u64));
            bytes.extend(rng.bytes(plen));
            bytes.extend([0x12, 0x01, 0x99]);
            let chunks = chunked(&mut rng, &bytes);
            let mut ops = feed_ops(&chunks);
            ops.push("feed 0800".into());
            case(out, "type-and-payload", ops);
            let ops: Vec<String> = bytes.iter().map(|b| format!("feed {:02x}", b)).collect();
            case(out, "type-and-payload-bytewise", ops);
        }
    }

    // -- arbitrary bytes and mutated valid streams
    let n = args.n(1500, 60000);
    for i in 0..n {
        let mut rng = Rng::for_case(args.seed, 7_000_000 + i);
        let mode = rng.below(4);
        let bytes: Vec<u8> = match mode {
            0 => {
                let n = rng.usize(40);
                rng.bytes(n)
            }
            1 => {
                let n = rng.usize(60);
                (0..n).map(|_| (rng.below(24)) as u8).collect()
            }
            _ => {
                let k = 1 + rng.usize(4);
                let mut b: Vec<u8> =
                    (0..k).flat_map(|_| encode_real(&gen_frame(&mut rng, &SMALL_SIZES))).collect();
                for _ in 0..1 + rng.usize(2) {
                    if b.is_empty() {
                        break;
                    }
                    let p = rng.usize(b.len());
                    match rng.below(4) {
                        0 => b[p] ^= 1 << rng.below(8),
                        1 => {
                            b.remove(p);
                        }
                        2 => b.insert(p, rng.next_u64() as u8),
                        _ => b.truncate(p),
                    }
                }
                b
            }
        };
        let ops = feed_ops(&chunked(&mut rng, &bytes));
        case(out, if mode < 2 { "random-bytes" } else { "mutated" }, ops);
    }

    // -- bounded-exhaustive: every byte string over a small alphabet up to length 4 (thorough: 5)
    let alpha: [u8; 9] = [0x00, 0x01, 0x02, 0x07, 0x08, 0x0f, 0x7f, 0x80, 0xff];
    let maxlen = if args.thorough { 5 } else { 3 };
    for len in 0..=maxlen {
        let total = alpha.len().pow(len as u32);
        for code in 0..total {
            let mut c = code;
            let bytes: Vec<u8> = (0..len)
                .map(|_| {
                    let b = alpha[c % alpha.len()];
                    c /= alpha.len();
                    b
                })
                .collect();
            case(out, "exhaustive", vec![format!("feed {}", show_bytes(&bytes)), "feed 0800".into()]);
        }
    }
}
