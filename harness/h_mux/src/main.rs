//! Harness binary `h_mux <PROP> --seed S --tier T [--count N] [--replay F]`.
//! One module per property (`cNN.rs`, `pub fn run(args: &hcore::Args, out: &mut hcore::Out)`).
mod c24;
mod c25;
mod c26;

fn main() {
    let args = hcore::Args::parse();
    hcore::quiet_panics();
    let mut out = hcore::Out::new();
    match args.prop.as_str() {
        "C24" => c24::run(&args, &mut out),
        "C25" => c25::run(&args, &mut out),
        "C26" => c26::run(&args, &mut out),
        p => {
            eprintln!("h_mux: unknown property {p}");
            std::process::exit(2);
        }
    }
    out.flush();
}
