//! C26 (and the mplex part of C24) — the real `libp2p_mplex` muxer over an in-memory connection; the
//! harness plays the remote by writing raw frames and reads back what the muxer writes.
//!
//! case cfg: ms=<max_substreams> mb=<max_buffer_len> beh=<block|reset> split=<split_send_size>
//! ops: wire <bytes> | eof | wblock <0|1> | inbound | outbound | read <sid> <n> | write <sid> <bytes>
//!      | flush <sid> | close <sid> | drop <sid> | closeconn
//! impl: <ok|pending|err:Kind|sid:<n>:<r>|data:<bytes>|eof|wrote:<n>|panic> out=<frames>
use std::{
    collections::VecDeque,
    io,
    pin::Pin,
    sync::{Arc, Mutex},
    task::{Context, Poll},
};

use bytes::BytesMut;
use futures::{task::noop_waker, AsyncRead, AsyncWrite, FutureExt};
use hcore::{Args, Out, Rng};
use libp2p_core::{muxing::StreamMuxer, upgrade::OutboundConnectionUpgrade};
use libp2p_mplex::{
    verif_c25::{Kind, VCodec, VFrame},
    verif_c26::substream_id,
    Config, MaxBufferBehaviour, Multiplex, Substream,
};

use crate::c25::{frame_tok, parse_bytes, show_bytes};

#[derive(Default)]
pub struct PipeInner {
    pub inbox: VecDeque<u8>,
    pub outbox: Vec<u8>,
    pub eof: bool,
    pub wblock: bool,
}

#[derive(Clone, Default)]
pub struct Pipe(pub Arc<Mutex<PipeInner>>);

impl AsyncRead for Pipe {
    fn poll_read(self: Pin<&mut Self>, _: &mut Context<'_>, buf: &mut [u8]) -> Poll<io::Result<usize>> {
        let mut p = self.0.lock().unwrap();
        if p.inbox.is_empty() {
            return if p.eof { Poll::Ready(Ok(0)) } else { Poll::Pending };
        }
        let n = buf.len().min(p.inbox.len());
        for b in buf.iter_mut().take(n) {
            *b = p.inbox.pop_front().unwrap();
        }
        Poll::Ready(Ok(n))
    }
}

impl AsyncWrite for Pipe {
    fn poll_write(self: Pin<&mut Self>, _: &mut Context<'_>, buf: &[u8]) -> Poll<io::Result<usize>> {
        let mut p = self.0.lock().unwrap();
        if p.wblock {
            return Poll::Pending;
        }
        p.outbox.extend_from_slice(buf);
        Poll::Ready(Ok(buf.len()))
    }
    fn poll_flush(self: Pin<&mut Self>, _: &mut Context<'_>) -> Poll<io::Result<()>> {
        Poll::Ready(Ok(()))
    }
    fn poll_close(self: Pin<&mut Self>, _: &mut Context<'_>) -> Poll<io::Result<()>> {
        Poll::Ready(Ok(()))
    }
}

pub type Sid = (u64, bool);

pub fn sid_tok(s: Sid) -> String {
    format!("{}:{}", s.0, if s.1 { "d" } else { "l" })
}

pub fn parse_sid(t: &str) -> Sid {
    let (n, r) = t.split_once(':').expect("sid");
    (n.parse().expect("sid num"), r == "d")
}

fn err_tok(e: &io::Error) -> String {
    format!("err:{:?}", e.kind())
}

#[derive(Clone, Copy, Debug)]
pub struct Cfg {
    pub ms: usize,
    pub mb: usize,
    pub block: bool,
    pub split: usize,
}

impl Cfg {
    pub fn tok(&self) -> String {
        format!("ms={} mb={} beh={} split={}", self.ms, self.mb, if self.block { "block" } else { "reset" }, self.split)
    }
    pub fn parse(hdr: &[String]) -> Cfg {
        let mut c = Cfg { ms: 128, mb: 32, block: true, split: 8192 };
        for t in hdr {
            if let Some((k, v)) = t.split_once('=') {
                match k {
                    "ms" => c.ms = v.parse().unwrap(),
                    "mb" => c.mb = v.parse().unwrap(),
                    "beh" => c.block = v != "reset",
                    "split" => c.split = v.parse().unwrap(),
                    _ => {}
                }
            }
        }
        c
    }
}

pub struct Session {
    pipe: Pipe,
    mux: Multiplex<Pipe>,
    /// live handles, newest last; a handle is never dropped implicitly
    handles: Vec<(Sid, Substream<Pipe>)>,
    out_codec: VCodec,
    out_buf: BytesMut,
}

impl Session {
    pub fn new(cfg: Cfg) -> Session {
        let pipe = Pipe::default();
        let mut c = Config::new();
        c.set_max_num_streams(cfg.ms)
            .set_max_buffer_size(cfg.mb)
            .set_max_buffer_behaviour(if cfg.block { MaxBufferBehaviour::Block } else { MaxBufferBehaviour::ResetStream })
            .set_split_send_size(cfg.split);
        let mux = c
            .upgrade_outbound(pipe.clone(), "/mplex/6.7.0")
            .now_or_never()
            .expect("ready")
            .expect("upgrade");
        Session { pipe, mux, handles: vec![], out_codec: VCodec::new(), out_buf: BytesMut::new() }
    }

    fn handle(&mut self, id: Sid) -> Option<&mut Substream<Pipe>> {
        self.handles.iter_mut().rev().find(|(s, _)| *s == id).map(|(_, h)| h)
    }

    /// frames newly written to the connection
    fn drain_out(&mut self) -> String {
        let bytes = std::mem::take(&mut self.pipe.0.lock().unwrap().outbox);
        self.out_buf.extend_from_slice(&bytes);
        let mut frames = vec![];
        loop {
            match self.out_codec.decode(&mut self.out_buf) {
                Ok(Some(f)) => frames.push(frame_tok(&f)),
                Ok(None) => break,
                Err(e) => {
                    frames.push(format!("undecodable:{}", e.to_string().replace(' ', "_")));
                    break;
                }
            }
        }
        hcore::list(&frames)
    }

    fn exec_inner(&mut self, t: &[String]) -> String {
        let waker = noop_waker();
        let mut cx = Context::from_waker(&waker);
        match t[0].as_str() {
            "wire" => {
                let b = parse_bytes(&t[1]);
                self.pipe.0.lock().unwrap().inbox.extend(b);
                "ok".into()
            }
            "eof" => {
                self.pipe.0.lock().unwrap().eof = true;
                "ok".into()
            }
            "wblock" => {
                self.pipe.0.lock().unwrap().wblock = t[1] == "1";
                "ok".into()
            }
            "inbound" | "outbound" => {
                let r = if t[0] == "inbound" {
                    Pin::new(&mut self.mux).poll_inbound(&mut cx)
                } else {
                    Pin::new(&mut self.mux).poll_outbound(&mut cx)
                };
                match r {
                    Poll::Pending => "pending".into(),
                    Poll::Ready(Err(e)) => err_tok(&e),
                    Poll::Ready(Ok(s)) => {
                        let id = substream_id(&s);
                        self.handles.push((id, s));
                        format!("sid:{}", sid_tok(id))
                    }
                }
            }
            "read" => {
                let id = parse_sid(&t[1]);
                let n: usize = t[2].parse().expect("n");
                let Some(h) = self.handle(id) else { return "nohandle".into() };
                let mut buf = vec![0u8; n];
                match Pin::new(h).poll_read(&mut cx, &mut buf) {
                    Poll::Pending => "pending".into(),
                    Poll::Ready(Err(e)) => err_tok(&e),
                    Poll::Ready(Ok(0)) => "eof".into(),
                    Poll::Ready(Ok(k)) => format!("data:{}", show_bytes(&buf[..k])),
                }
            }
            "write" => {
                let id = parse_sid(&t[1]);
                let data = parse_bytes(&t[2]);
                let Some(h) = self.handle(id) else { return "nohandle".into() };
                match Pin::new(h).poll_write(&mut cx, &data) {
                    Poll::Pending => "pending".into(),
                    Poll::Ready(Err(e)) => err_tok(&e),
                    Poll::Ready(Ok(k)) => format!("wrote:{k}"),
                }
            }
            "flush" | "close" => {
                let id = parse_sid(&t[1]);
                let is_flush = t[0] == "flush";
                let Some(h) = self.handle(id) else { return "nohandle".into() };
                let r = if is_flush { Pin::new(h).poll_flush(&mut cx) } else { Pin::new(h).poll_close(&mut cx) };
                match r {
                    Poll::Pending => "pending".into(),
                    Poll::Ready(Err(e)) => err_tok(&e),
                    Poll::Ready(Ok(())) => "ok".into(),
                }
            }
            "drop" => {
                let id = parse_sid(&t[1]);
                if let Some(pos) = self.handles.iter().rposition(|(s, _)| *s == id) {
                    let (_, h) = self.handles.remove(pos);
                    drop(h);
                    "ok".into()
                } else {
                    "nohandle".into()
                }
            }
            "closeconn" => match Pin::new(&mut self.mux).poll_close(&mut cx) {
                Poll::Pending => "pending".into(),
                Poll::Ready(Err(e)) => err_tok(&e),
                Poll::Ready(Ok(())) => "ok".into(),
            },
            other => panic!("c26: unknown op {other}"),
        }
    }

    pub fn exec(&mut self, t: &[String]) -> String {
        let r = hcore::guarded(|| self.exec_inner(t));
        let res = match r {
            Ok(s) => s,
            Err(_m) => "panic".to_string(),
        };
        let out = hcore::guarded(|| self.drain_out()).unwrap_or_else(|_| "panic".into());
        format!("{res} out={out}")
    }
}

pub fn toks(s: &str) -> Vec<String> {
    s.split_whitespace().map(|x| x.to_string()).collect()
}

// ---------------------------------------------------------------------------------------------
// generators

pub fn enc(kind: Kind, num: u64, dialer: bool, data: &[u8]) -> Vec<u8> {
    let mut dst = BytesMut::new();
    VCodec::new()
        .encode(&VFrame { kind, num, dialer, data: data.to_vec() }, &mut dst)
        .expect("constructible")
        .expect("encodable");
    dst.to_vec()
}

/// The scripted remote: knows which streams exist from its point of view.
pub struct Script {
    pub cfg: Cfg,
    pub sess: Session,
    pub lines: Vec<(String, String)>,
    /// streams the remote opened (its dialer ids) and streams the local side opened
    pub remote_opened: Vec<u64>,
    pub next_remote: u64,
    pub local: Vec<Sid>,
    pub held: Vec<u8>,
    pub failed: bool,
    pub eof: bool,
}

impl Script {
    pub fn new(cfg: Cfg) -> Script {
        Script {
            cfg,
            sess: Session::new(cfg),
            lines: vec![],
            remote_opened: vec![],
            next_remote: 0,
            local: vec![],
            held: vec![],
            failed: false,
            eof: false,
        }
    }
    pub fn op(&mut self, op: String) -> String {
        let imp = self.sess.exec(&toks(&op));
        if let Some(rest) = imp.strip_prefix("sid:") {
            let id = parse_sid(rest.split(' ').next().unwrap());
            self.local.push(id);
        }
        if op == "eof" {
            self.eof = true;
        }
        if imp.starts_with("err:") || imp.starts_with("panic") {
            self.failed = true;
        }
        self.lines.push((op, imp.clone()));
        imp
    }
    /// remote writes these bytes, holding back the last `hold` bytes until the next write
    pub fn wire(&mut self, bytes: &[u8], hold: usize) {
        if self.eof {
            return; // the remote has closed its write side
        }
        let mut all = std::mem::take(&mut self.held);
        all.extend_from_slice(bytes);
        let hold = hold.min(all.len());
        let cut = all.len() - hold;
        self.held = all[cut..].to_vec();
        self.op(format!("wire {}", show_bytes(&all[..cut])));
    }
    pub fn emit(self, out: &mut Out, idx: u64, class: &str) {
        self.emit_with(out, idx, class, "")
    }
    /// `prefix` = extra cfg tokens (with a trailing space) put in front of the configuration
    pub fn emit_with(self, out: &mut Out, idx: u64, class: &str, prefix: &str) {
        out.case(idx, &format!("{class} nt=1 {prefix}{}", self.cfg.tok()));
        for (o, i) in self.lines {
            out.op(&o);
            out.imp(&i);
        }
        out.end();
    }
}

fn gen_cfg(rng: &mut Rng) -> Cfg {
    Cfg {
        ms: *rng.pick(&[1usize, 1, 2, 2, 3, 4]),
        mb: *rng.pick(&[0usize, 1, 1, 2, 2, 3]),
        block: rng.bool(),
        split: *rng.pick(&[1usize, 2, 3, 8, 64]),
    }
}

fn payload(rng: &mut Rng) -> Vec<u8> {
    let n = *rng.pick(&[0usize, 1, 1, 2, 3, 5]);
    rng.bytes(n)
}

/// one random remote frame (mostly meaningful for the current session)
fn remote_frame(rng: &mut Rng, sc: &mut Script) -> Vec<u8> {
    // ids the local side knows, seen from the remote: streams the remote opened carry the
    // remote's dialer role, streams the local side opened the listener role
    let pick_known = |rng: &mut Rng, sc: &Script| -> (u64, bool) {
        let mut ids: Vec<(u64, bool)> = sc.remote_opened.iter().map(|n| (*n, true)).collect();
        ids.extend(sc.local.iter().filter(|s| s.1).map(|s| (s.0, false)));
        if ids.is_empty() || rng.chance(1, 12) {
            (rng.below(6), rng.bool())
        } else {
            *rng.pick(&ids)
        }
    };
    match rng.below(20) {
        0..=4 => {
            let n = if rng.chance(1, 10) && !sc.remote_opened.is_empty() {
                *rng.pick(&sc.remote_opened) // duplicate Open: protocol error or id reuse
            } else {
                sc.next_remote += 1;
                sc.next_remote - 1
            };
            if !sc.remote_opened.contains(&n) {
                sc.remote_opened.push(n);
            }
            enc(Kind::Open, n, true, &[])
        }
        5..=14 => {
            let (n, d) = pick_known(rng, sc);
            enc(Kind::Data, n, d, &payload(rng))
        }
        15..=17 => {
            let (n, d) = pick_known(rng, sc);
            enc(Kind::Close, n, d, &[])
        }
        _ => {
            let (n, d) = pick_known(rng, sc);
            enc(Kind::Reset, n, d, &[])
        }
    }
}

fn random_session(rng: &mut Rng, cfg: Cfg, steps: usize, hostile: bool) -> Script {
    let mut sc = Script::new(cfg);
    for _ in 0..steps {
        let known: Vec<Sid> = sc.local.clone();
        let pick = |rng: &mut Rng| -> Option<Sid> { if known.is_empty() { None } else { Some(*rng.pick(&known)) } };
        match rng.below(100) {
            0..=29 => {
                let k = 1 + rng.usize(4);
                let mut bytes = vec![];
                for _ in 0..k {
                    bytes.extend(remote_frame(rng, &mut sc));
                }
                if hostile && rng.chance(1, 25) {
                    bytes.extend(rng.bytes(3));
                }
                let hold = if rng.chance(1, 4) { rng.usize(4) } else { 0 };
                sc.wire(&bytes, hold);
            }
            30..=41 => {
                sc.op("inbound".into());
            }
            42..=49 => {
                sc.op("outbound".into());
            }
            50..=74 => {
                if let Some(id) = pick(rng) {
                    let n = *rng.pick(&[1usize, 2, 3, 64]);
                    sc.op(format!("read {} {}", sid_tok(id), n));
                }
            }
            75..=82 => {
                if let Some(id) = pick(rng) {
                    let n = rng.usize(7);
                    let d = rng.bytes(n);
                    sc.op(format!("write {} {}", sid_tok(id), show_bytes(&d)));
                }
            }
            83..=86 => {
                if let Some(id) = pick(rng) {
                    sc.op(format!("flush {}", sid_tok(id)));
                }
            }
            87..=90 => {
                if let Some(id) = pick(rng) {
                    sc.op(format!("close {}", sid_tok(id)));
                }
            }
            91..=95 => {
                if let Some(id) = pick(rng) {
                    if let Some(pos) = sc.local.iter().rposition(|s| *s == id) {
                        sc.local.remove(pos);
                    }
                    sc.op(format!("drop {}", sid_tok(id)));
                }
            }
            96..=97 => {
                let b = rng.bool();
                sc.op(format!("wblock {}", b as u8));
            }
            98 => {
                if hostile {
                    sc.op("eof".into());
                }
            }
            _ => {
                if hostile && rng.chance(1, 3) {
                    sc.op("closeconn".into());
                }
            }
        }
    }
    sc
}

/// the remote opens `3 * ms` streams and floods them with data while the local side reads slowly
fn flood_session(rng: &mut Rng, cfg: Cfg) -> Script {
    let mut sc = Script::new(cfg);
    let n_open = 3 * cfg.ms as u64;
    let mut bytes = vec![];
    for n in 0..n_open {
        bytes.extend(enc(Kind::Open, n, true, &[]));
        sc.remote_opened.push(n);
    }
    sc.next_remote = n_open;
    sc.wire(&bytes, 0);
    for _ in 0..cfg.ms + 1 {
        sc.op("inbound".into());
    }
    let rounds = 3 + rng.usize(4);
    for _ in 0..rounds {
        let mut bytes = vec![];
        for _ in 0..(cfg.mb + 2) {
            let n = rng.below(n_open);
            bytes.extend(enc(Kind::Data, n, true, &[rng.next_u64() as u8, n as u8]));
        }
        if rng.chance(1, 3) {
            let n = rng.below(n_open);
            bytes.extend(enc(Kind::Close, n, true, &[]));
        }
        sc.wire(&bytes, 0);
        let known = sc.local.clone();
        for _ in 0..1 + rng.usize(3) {
            if known.is_empty() {
                sc.op("inbound".into());
            } else {
                let id = *rng.pick(&known);
                match rng.below(6) {
                    0 => {
                        sc.op("inbound".into());
                    }
                    1 => {
                        sc.op(format!("flush {}", sid_tok(id)));
                    }
                    _ => {
                        sc.op(format!("read {} {}", sid_tok(id), 1 + rng.usize(3)));
                    }
                }
            }
        }
    }
    // finally read everything that is left, stream by stream
    let known = sc.local.clone();
    for id in known {
        for _ in 0..(2 * (cfg.mb + 3)) {
            let r = sc.op(format!("read {} 64", sid_tok(id)));
            if !r.starts_with("data:") {
                break;
            }
        }
    }
    sc
}

/// the sink's high-water mark (128 KiB) with a blocked connection: `poll_ready` turns `Pending`,
/// pending Reset/Close frames pile up, and beyond `max_substreams + 1000` the connection fails
fn backpressure_session(rng: &mut Rng, cfg: Cfg, overflow: bool) -> Script {
    let mut sc = Script::new(cfg);
    sc.wire(&enc(Kind::Open, 0, true, &[]), 0);
    sc.op("inbound".into());
    sc.op("outbound".into());
    sc.op("wblock 1".into());
    let big = 131072 - rng.usize(3);
    sc.op(format!("write 0:d r41x{big}"));
    sc.op("write 0:d 0102".into());
    sc.op("write 0:d 0304".into());
    sc.op("write 0:l 05".into());
    sc.op("close 0:d".into());
    sc.op("flush 0:l".into());
    sc.op("outbound".into());
    sc.op("read 0:l 4".into());
    if overflow {
        // excess Opens: each queues a Reset that cannot be sent
        let n = cfg.ms as u64 + 1000 + 3;
        let mut bytes = vec![];
        for i in 0..n {
            bytes.extend(enc(Kind::Open, 10 + i, true, &[]));
        }
        sc.wire(&bytes, 0);
        for _ in 0..4 {
            sc.op("inbound".into());
        }
        sc.op("read 0:l 4".into());
    } else {
        sc.wire(&enc(Kind::Open, 1, true, &[]), 0);
        sc.wire(&enc(Kind::Data, 0, true, &[9, 9]), 0);
        sc.op("inbound".into());
        sc.op("drop 0:d".into());
        sc.op("read 0:l 4".into());
        sc.op("inbound".into());
    }
    sc.op("wblock 0".into());
    sc.op("write 0:l 06".into());
    sc.op("flush 0:l".into());
    sc.op("read 0:l 4".into());
    sc.op("inbound".into());
    sc.op("closeconn".into());
    sc
}

/// `poll_close` of a substream that HOLDS BUFFERED FRAMES while the write side is stalled: the sink
/// is filled to its high-water mark over a blocked connection, so `poll_close_stream` (or the flush
/// after it) returns `Pending`; later the connection unblocks, the close completes and the
/// substream is read to the end.  Every buffered byte must still be there.
///   variant 0: Open -> SendClosed, frames buffered through reads on another substream
///   variant 1: RecvClosed -> Closed (the remote's Close is already processed)
///   variant 2: the closed substream is the one whose full buffer blocks all reading (Block mode)
///   variant 3: frames buffered through `poll_inbound`; close itself succeeds, the flush is Pending
fn close_pending_session(rng: &mut Rng, cfg: Cfg, variant: u32) -> Script {
    let mut sc = Script::new(cfg);
    let mut bytes = enc(Kind::Open, 0, true, &[]);
    bytes.extend(enc(Kind::Open, 1, true, &[]));
    sc.wire(&bytes, 0);
    sc.op("inbound".into());
    sc.op("inbound".into());
    sc.op("outbound".into()); // 0:d, used to fill the sink
    // k frames for substream 0 (A), then one for substream 1 (B)
    let k = match variant {
        2 => cfg.mb + 1,
        _ => 1 + rng.usize(cfg.mb.max(1)),
    };
    let mut bytes = vec![];
    for j in 0..k {
        bytes.extend(enc(Kind::Data, 0, true, &[0xA0 + j as u8, rng.next_u64() as u8, j as u8]));
    }
    if variant == 1 {
        bytes.extend(enc(Kind::Close, 0, true, &[]));
    }
    bytes.extend(enc(Kind::Data, 1, true, &[0xB1, 0xB2]));
    if variant == 3 {
        bytes.extend(enc(Kind::Open, 2, true, &[]));
    }
    sc.wire(&bytes, 0);
    // buffer A's frames by polling something else
    if variant == 3 {
        for _ in 0..k + 2 {
            if sc.op("inbound".into()).starts_with("sid:") {
                break;
            }
        }
    } else {
        for _ in 0..k + 2 {
            if sc.op("read 1:l 8".into()).starts_with("data:") {
                break;
            }
        }
    }
    // stall the write side
    sc.op("wblock 1".into());
    if variant == 3 {
        sc.op("write 0:d 0102".into()); // sink below the high-water mark: close succeeds, flush stalls
    } else {
        let big = 131072 + rng.usize(3);
        sc.op(format!("write 0:d r41x{big}"));
    }
    sc.op("close 0:l".into()); // Pending
    if rng.bool() {
        sc.op("flush 1:l".into()); // Pending as well
    }
    if rng.bool() {
        sc.op("close 0:l".into()); // still Pending
    }
    if rng.chance(1, 3) {
        sc.op("read 0:l 2".into()); // a read in between
    }
    if rng.chance(1, 3) {
        sc.op("inbound".into());
    }
    sc.op("wblock 0".into());
    sc.op("close 0:l".into()); // Ready
    // the remote finishes A as well, then A is read to the end
    if variant != 1 {
        sc.wire(&enc(Kind::Data, 0, true, &[0xEE]), 0);
        sc.wire(&enc(Kind::Close, 0, true, &[]), 0);
    }
    for _ in 0..3 * (k + 3) {
        let n = 1 + rng.usize(4);
        let r = sc.op(format!("read 0:l {n}"));
        if r.starts_with("eof") || r.starts_with("err") {
            break;
        }
    }
    sc.op("read 1:l 8".into());
    sc
}

pub fn run(args: &Args, out: &mut Out) {
    if let Some(cases) = args.replay_cases() {
        for (i, (hdr, ops)) in cases.iter().enumerate() {
            let cfg = Cfg::parse(hdr);
            let mut sc = Script::new(cfg);
            for o in ops {
                sc.op(o.join(" "));
            }
            let class = hdr.get(1).cloned().unwrap_or_else(|| "replay".into());
            sc.emit(out, i as u64, &class);
        }
        return;
    }
    let mut idx = 0u64;
    generate(args, out, &mut idx, "", 1200, 40_000, 0);
}

/// bounded-exhaustive: every sequence of `depth` operations over a small alphabet (remote frames for
/// substreams 0/1, and every local call that is applicable to the handles obtained so far)
fn exhaustive(out: &mut Out, idx: &mut u64, prefix: &str, cfg: Cfg, depth: usize) {
    fn candidates(sc: &Script) -> Vec<String> {
        let mut ops: Vec<String> = vec![
            "wire 0000".into(),   // Open 0
            "wire 0201aa".into(), // Data 0 (remote initiator)
            "wire 0400".into(),   // Close 0
            "wire 0600".into(),   // Reset 0
            "wire 0800".into(),   // Open 1
            "wire 0101cc".into(), // Data 0 (remote receiver: for the locally opened substream 0)
            "inbound".into(),
            "outbound".into(),
        ];
        let mut seen: Vec<Sid> = vec![];
        for id in sc.local.iter() {
            if seen.contains(id) {
                continue;
            }
            seen.push(*id);
            let t = sid_tok(*id);
            ops.push(format!("read {t} 1"));
            ops.push(format!("write {t} bb"));
            ops.push(format!("close {t}"));
            ops.push(format!("drop {t}"));
        }
        ops
    }
    fn replay(cfg: Cfg, ops: &[String]) -> Script {
        let mut sc = Script::new(cfg);
        for o in ops {
            if let Some(rest) = o.strip_prefix("drop ") {
                let id = parse_sid(rest);
                if let Some(pos) = sc.local.iter().rposition(|s| *s == id) {
                    sc.local.remove(pos);
                }
            }
            sc.op(o.clone());
        }
        sc
    }
    let mut stack: Vec<Vec<String>> = vec![vec![]];
    while let Some(seq) = stack.pop() {
        let sc = replay(cfg, &seq);
        if seq.len() == depth {
            sc.emit_with(out, *idx, "exhaustive", prefix);
            *idx += 1;
            continue;
        }
        for c in candidates(&sc) {
            let mut n = seq.clone();
            n.push(c);
            stack.push(n);
        }
    }
}

/// the generated sessions (also used, with another salt and the `mux=mplex1` prefix, by C24)
pub fn generate(args: &Args, out: &mut Out, idx: &mut u64, prefix: &str, quick: u64, thorough: u64, salt: u64) {
    // floods over the whole small configuration grid
    for ms in 1..=3usize {
        for mb in 0..=2usize {
            for block in [true, false] {
                for rep in 0..args.n(2, 20) {
                    let mut rng = Rng::for_case(args.seed ^ salt, 10_000_000 + *idx * 31 + rep);
                    let cfg = Cfg { ms, mb, block, split: 8 };
                    flood_session(&mut rng, cfg).emit_with(out, *idx, "flood", prefix);
                    *idx += 1;
                }
            }
        }
    }
    for (j, (ms, overflow)) in [(2usize, false), (3, false), (2, true), (4, true)].iter().enumerate() {
        for block in [true, false] {
            let mut rng = Rng::for_case(args.seed ^ salt, 20_000_000 + j as u64);
            let cfg = Cfg { ms: *ms, mb: 2, block, split: 1 << 20 };
            backpressure_session(&mut rng, cfg, *overflow).emit_with(out, *idx, "backpressure", prefix);
            *idx += 1;
        }
    }
    if salt == 0 && args.count == 0 {
        let depth = if args.thorough { 5 } else { 4 };
        for block in [true, false] {
            exhaustive(out, idx, prefix, Cfg { ms: 1, mb: 1, block, split: 8 }, depth);
        }
    }
    for variant in 0..4u32 {
        for mb in 1..=3usize {
            for block in [true, false] {
                for rep in 0..args.n(3, 40) {
                    let mut rng = Rng::for_case(args.seed ^ salt, 40_000_000 + (variant as u64) * 1000 + (mb as u64) * 100 + rep * 2 + block as u64);
                    let cfg = Cfg { ms: 4, mb, block, split: 1 << 20 };
                    close_pending_session(&mut rng, cfg, variant).emit_with(out, *idx, "close-pending", prefix);
                    *idx += 1;
                }
            }
        }
    }
    let n = args.n(quick, thorough);
    for i in 0..n {
        let mut rng = Rng::for_case(args.seed ^ salt, i);
        let cfg = gen_cfg(&mut rng);
        let hostile = rng.chance(1, 3);
        let steps = 10 + rng.usize(50);
        random_session(&mut rng, cfg, steps, hostile).emit_with(
            out,
            *idx,
            if hostile { "random-hostile" } else { "random" },
            prefix,
        );
        *idx += 1;
    }
}
