//! C24 — substreams deliver exactly their own bytes.
//!
//! Two kinds of cases:
//! * `mux=mplex1 …`: the one-endpoint mplex sessions of `c26.rs` (exact model prediction);
//! * `mux=mplex|yamux …`: two real endpoints of the same muxer joined by an in-memory connection with
//!   scripted chunking and link interruptions; judged by the end-to-end Spec only.
//!
//! pair ops: open <S> | accept <S> | write <name> <S> <bytes> | read <name> <S> <n> | flush <name> <S>
//!           | close <name> <S> | link <AB|BA> <0|1> | chunk <n> | finish
use std::{
    pin::Pin,
    task::{Context, Poll},
};

use futures::{task::noop_waker, AsyncRead, AsyncWrite, FutureExt};
use hcore::{Args, Out, Rng};
use libp2p_core::{
    muxing::StreamMuxer,
    upgrade::{InboundConnectionUpgrade, OutboundConnectionUpgrade},
};

use crate::{
    c25::{parse_bytes, show_bytes},
    c26::{self, Pipe},
};

/// one side of the pair, generic over the muxer
struct End<M: StreamMuxer> {
    mux: M,
    pipe: Pipe,
    /// (name, wire id, stream)
    streams: Vec<(String, u64, M::Substream)>,
    opened: u64,
}

struct Pair<M: StreamMuxer> {
    a: End<M>,
    b: End<M>,
    link_ab: bool,
    link_ba: bool,
    chunk: usize,
    id_of: fn(&M::Substream) -> u64,
}

fn err_tok<E: std::fmt::Display>(e: &E) -> String {
    let s = e.to_string();
    let short: String = s.chars().filter(|c| c.is_ascii_alphanumeric()).take(24).collect();
    format!("err:{short}")
}

impl<M> Pair<M>
where
    M: StreamMuxer + Unpin,
    M::Substream: AsyncRead + AsyncWrite + Unpin,
    M::Error: std::fmt::Display,
{
    fn end(&mut self, side: &str) -> &mut End<M> {
        if side == "A" {
            &mut self.a
        } else {
            &mut self.b
        }
    }

    /// move bytes along the open links and poll both muxers until nothing moves any more
    fn pump(&mut self) {
        let waker = noop_waker();
        let mut cx = Context::from_waker(&waker);
        for _ in 0..100_000 {
            let mut moved = false;
            for dir in 0..2 {
                let (open, from, to) = if dir == 0 {
                    (self.link_ab, &self.a.pipe, &self.b.pipe)
                } else {
                    (self.link_ba, &self.b.pipe, &self.a.pipe)
                };
                if !open {
                    continue;
                }
                let bytes: Vec<u8> = {
                    let mut f = from.0.lock().unwrap();
                    let n = self.chunk.min(f.outbox.len());
                    f.outbox.drain(..n).collect()
                };
                if !bytes.is_empty() {
                    moved = true;
                    to.0.lock().unwrap().inbox.extend(bytes);
                }
            }
            let _ = Pin::new(&mut self.a.mux).poll(&mut cx);
            let _ = Pin::new(&mut self.b.mux).poll(&mut cx);
            if !moved {
                // one more look: polling may have produced output
                let pending_ab = self.link_ab && !self.a.pipe.0.lock().unwrap().outbox.is_empty();
                let pending_ba = self.link_ba && !self.b.pipe.0.lock().unwrap().outbox.is_empty();
                if !pending_ab && !pending_ba {
                    break;
                }
            }
        }
    }

    fn exec_inner(&mut self, t: &[String]) -> String {
        let waker = noop_waker();
        let mut cx = Context::from_waker(&waker);
        let id_of = self.id_of;
        match t[0].as_str() {
            "open" => {
                let side = t[1].clone();
                let e = self.end(&side);
                match Pin::new(&mut e.mux).poll_outbound(&mut cx) {
                    Poll::Pending => "pending".into(),
                    Poll::Ready(Err(er)) => err_tok(&er),
                    Poll::Ready(Ok(s)) => {
                        let name = format!("{}{}", side.to_lowercase(), e.opened);
                        e.opened += 1;
                        e.streams.push((name.clone(), id_of(&s), s));
                        format!("opened {name}")
                    }
                }
            }
            "accept" => {
                let side = t[1].clone();
                let r = Pin::new(&mut self.end(&side).mux).poll_inbound(&mut cx);
                match r {
                    Poll::Pending => "pending".into(),
                    Poll::Ready(Err(er)) => err_tok(&er),
                    Poll::Ready(Ok(s)) => {
                        let id = id_of(&s);
                        let other = if side == "A" { &self.b } else { &self.a };
                        let name = other
                            .streams
                            .iter()
                            .find(|(n, i, _)| *i == id && !n.starts_with(&side.to_lowercase()))
                            .map(|(n, _, _)| n.clone());
                        // a name may be accepted only once on this side
                        let e = self.end(&side);
                        match name {
                            Some(n) if !e.streams.iter().any(|(m, _, _)| *m == n) => {
                                e.streams.push((n.clone(), id, s));
                                format!("accepted {n}")
                            }
                            _ => {
                                e.streams.push((format!("?{id}"), id, s));
                                "accepted ?".into()
                            }
                        }
                    }
                }
            }
            "write" | "read" | "flush" | "close" => {
                let name = t[1].clone();
                let side = t[2].clone();
                let e = self.end(&side);
                let Some((_, _, s)) = e.streams.iter_mut().find(|(n, _, _)| *n == name) else {
                    return "nostream".into();
                };
                match t[0].as_str() {
                    "write" => {
                        let data = parse_bytes(&t[3]);
                        match Pin::new(s).poll_write(&mut cx, &data) {
                            Poll::Pending => "pending".into(),
                            Poll::Ready(Err(er)) => err_tok(&er),
                            Poll::Ready(Ok(k)) => format!("wrote:{k}"),
                        }
                    }
                    "read" => {
                        let n: usize = t[3].parse().expect("n");
                        let mut buf = vec![0u8; n];
                        match Pin::new(s).poll_read(&mut cx, &mut buf) {
                            Poll::Pending => "pending".into(),
                            Poll::Ready(Err(er)) => err_tok(&er),
                            Poll::Ready(Ok(0)) => "eof".into(),
                            Poll::Ready(Ok(k)) => format!("data:{}", show_bytes(&buf[..k])),
                        }
                    }
                    "flush" => match Pin::new(s).poll_flush(&mut cx) {
                        Poll::Pending => "pending".into(),
                        Poll::Ready(Err(er)) => err_tok(&er),
                        Poll::Ready(Ok(())) => "ok".into(),
                    },
                    _ => match Pin::new(s).poll_close(&mut cx) {
                        Poll::Pending => "pending".into(),
                        Poll::Ready(Err(er)) => err_tok(&er),
                        Poll::Ready(Ok(())) => "ok".into(),
                    },
                }
            }
            "link" => {
                let on = t[2] == "1";
                if t[1] == "AB" {
                    self.link_ab = on;
                } else {
                    self.link_ba = on;
                }
                "ok".into()
            }
            "chunk" => {
                self.chunk = t[1].parse::<usize>().expect("chunk").max(1);
                "ok".into()
            }
            "finish" => "ok".into(),
            other => panic!("c24: unknown op {other}"),
        }
    }

    fn exec(&mut self, t: &[String]) -> String {
        let r = hcore::guarded(|| {
            let r = self.exec_inner(t);
            self.pump();
            r
        });
        r.unwrap_or_else(|_| "panic".into())
    }
}

fn mplex_id(s: &libp2p_mplex::Substream<Pipe>) -> u64 {
    libp2p_mplex::verif_c26::substream_id(s).0
}

fn yamux_id(s: &libp2p_yamux::Stream) -> u64 {
    // `Stream(Stream { id: <n>, connection: .. })`
    let d = format!("{s:?}");
    let rest = d.split("id: ").nth(1).unwrap_or("0");
    rest.chars().take_while(|c| c.is_ascii_digit()).collect::<String>().parse().unwrap_or(0)
}

#[derive(Clone, Copy, Debug)]
pub struct PCfg {
    yamux: bool,
    ms: usize,
    mb: usize,
    split: usize,
}

impl PCfg {
    fn tok(&self) -> String {
        if self.yamux {
            "mux=yamux".into()
        } else {
            format!("mux=mplex ms={} mb={} split={}", self.ms, self.mb, self.split)
        }
    }
    fn parse(hdr: &[String]) -> PCfg {
        let mut c = PCfg { yamux: false, ms: 128, mb: 32, split: 8192 };
        for t in hdr {
            if let Some((k, v)) = t.split_once('=') {
                match k {
                    "mux" => c.yamux = v == "yamux",
                    "ms" => c.ms = v.parse().unwrap(),
                    "mb" => c.mb = v.parse().unwrap(),
                    "split" => c.split = v.parse().unwrap(),
                    _ => {}
                }
            }
        }
        c
    }
}

/// object-safe face of a `Pair`
trait Session {
    fn exec(&mut self, t: &[String]) -> String;
}

impl<M> Session for Pair<M>
where
    M: StreamMuxer + Unpin,
    M::Substream: AsyncRead + AsyncWrite + Unpin,
    M::Error: std::fmt::Display,
{
    fn exec(&mut self, t: &[String]) -> String {
        Pair::exec(self, t)
    }
}

fn new_session(cfg: PCfg) -> Box<dyn Session> {
    let pa = Pipe::default();
    let pb = Pipe::default();
    if cfg.yamux {
        let a = libp2p_yamux::Config::default()
            .upgrade_outbound(pa.clone(), "/yamux/1.0.0")
            .now_or_never()
            .unwrap()
            .unwrap();
        let b = libp2p_yamux::Config::default()
            .upgrade_inbound(pb.clone(), "/yamux/1.0.0")
            .now_or_never()
            .unwrap()
            .unwrap();
        Box::new(Pair {
            a: End { mux: a, pipe: pa, streams: vec![], opened: 0 },
            b: End { mux: b, pipe: pb, streams: vec![], opened: 0 },
            link_ab: true,
            link_ba: true,
            chunk: 1 << 20,
            id_of: yamux_id,
        })
    } else {
        let mut c = libp2p_mplex::Config::new();
        c.set_max_num_streams(cfg.ms).set_max_buffer_size(cfg.mb).set_split_send_size(cfg.split);
        let a = c.clone().upgrade_outbound(pa.clone(), "/mplex/6.7.0").now_or_never().unwrap().unwrap();
        let b = c.upgrade_inbound(pb.clone(), "/mplex/6.7.0").now_or_never().unwrap().unwrap();
        Box::new(Pair {
            a: End { mux: a, pipe: pa, streams: vec![], opened: 0 },
            b: End { mux: b, pipe: pb, streams: vec![], opened: 0 },
            link_ab: true,
            link_ba: true,
            chunk: 1 << 20,
            id_of: mplex_id,
        })
    }
}

struct PScript {
    cfg: PCfg,
    sess: Box<dyn Session>,
    lines: Vec<(String, String)>,
    /// streams known on each side: name -> (known at A, known at B)
    names: Vec<(String, bool, bool)>,
    /// write side closed: (name, side)
    closed: Vec<(String, String)>,
    /// directions on which at least one byte was accepted: (name, side)
    written: Vec<(String, String)>,
}

impl PScript {
    fn new(cfg: PCfg) -> PScript {
        PScript { cfg, sess: new_session(cfg), lines: vec![], names: vec![], closed: vec![], written: vec![] }
    }
    fn op(&mut self, op: String) -> String {
        let t = c26::toks(&op);
        let imp = self.sess.exec(&t);
        if let Some(n) = imp.strip_prefix("opened ") {
            self.names.push((n.to_string(), t[1] == "A", t[1] == "B"));
        }
        if let Some(n) = imp.strip_prefix("accepted ") {
            if let Some(e) = self.names.iter_mut().find(|e| e.0 == n) {
                if t[1] == "A" {
                    e.1 = true
                } else {
                    e.2 = true
                }
            }
        }
        if t[0] == "write" && imp.starts_with("wrote:") && imp != "wrote:0" {
            self.written.push((t[1].clone(), t[2].clone()));
        }
        if t[0] == "close" && (imp == "ok" || imp == "pending") {
            self.closed.push((t[1].clone(), t[2].clone()));
        }
        self.lines.push((op, imp.clone()));
        imp
    }
    fn emit(self, out: &mut Out, idx: u64, class: &str) {
        out.case(idx, &format!("{class} nt=1 {}", self.cfg.tok()));
        for (o, i) in self.lines {
            out.op(&o);
            out.imp(&i);
        }
        out.end();
    }
    fn known(&self, side: &str) -> Vec<String> {
        self.names.iter().filter(|e| if side == "A" { e.1 } else { e.2 }).map(|e| e.0.clone()).collect()
    }
}

fn pair_session(rng: &mut Rng, cfg: PCfg, steps: usize) -> PScript {
    let mut sc = PScript::new(cfg);
    let sides = ["A", "B"];
    if rng.chance(1, 2) {
        let c = *rng.pick(&[1usize, 2, 3, 7, 64, 4096]);
        sc.op(format!("chunk {c}"));
    }
    for _ in 0..steps {
        let side = *rng.pick(&sides);
        let known = sc.known(side);
        let pick = |rng: &mut Rng, known: &Vec<String>| -> Option<String> {
            if known.is_empty() {
                None
            } else {
                Some(rng.pick(known).clone())
            }
        };
        match rng.below(100) {
            0..=9 => {
                if sc.names.len() < 6 {
                    sc.op(format!("open {side}"));
                }
            }
            10..=21 => {
                sc.op(format!("accept {side}"));
            }
            22..=51 => {
                if let Some(n) = pick(rng, &known) {
                    if !sc.closed.iter().any(|(m, s)| *m == n && s == side) {
                        let k = *rng.pick(&[0usize, 1, 2, 3, 5, 9, 17, 40]);
                        // bytes that identify stream, direction and position
                        let tag = (n.as_bytes()[0] as usize * 7 + n.as_bytes()[1] as usize * 3 + side.as_bytes()[0] as usize) as u8;
                        let d: Vec<u8> = (0..k).map(|i| tag.wrapping_add((rng.next_u64() % 3) as u8).wrapping_add(i as u8)).collect();
                        sc.op(format!("write {n} {side} {}", show_bytes(&d)));
                    }
                }
            }
            52..=79 => {
                if let Some(n) = pick(rng, &known) {
                    let k = *rng.pick(&[1usize, 2, 3, 8, 64]);
                    sc.op(format!("read {n} {side} {k}"));
                }
            }
            80..=85 => {
                if let Some(n) = pick(rng, &known) {
                    sc.op(format!("flush {n} {side}"));
                }
            }
            86..=91 => {
                // a substream half-closed before anything was written is never announced by the
                // (external) yamux crate — see findings/C24-yamux-empty-stream-unannounced.md; the
                // generated sessions stay clear of that input class (for both muxers alike)
                if let Some(n) = pick(rng, &known) {
                    if sc.written.iter().any(|(m, s)| *m == n && s == side) {
                        sc.op(format!("close {n} {side}"));
                    }
                }
            }
            92..=96 => {
                let l = *rng.pick(&["AB", "BA"]);
                sc.op(format!("link {l} {}", rng.below(2)));
            }
            _ => {
                let c = *rng.pick(&[1usize, 2, 5, 13, 100, 1 << 20]);
                sc.op(format!("chunk {c}"));
            }
        }
    }
    // drain: links up; then rounds of {accept everything, flush + half-close every write side, read
    // everything} until a whole round makes no progress
    sc.op("link AB 1".into());
    sc.op("link BA 1".into());
    sc.op("chunk 1048576".into());
    for _round in 0..40 {
        let mut progress = false;
        for side in sides {
            for _ in 0..8 {
                if sc.op(format!("accept {side}")).starts_with("accepted") {
                    progress = true;
                } else {
                    break;
                }
            }
        }
        for side in sides {
            for n in sc.known(side) {
                if !sc.closed.iter().any(|(m, s)| *m == n && s == side) {
                    if !sc.written.iter().any(|(m, s)| *m == n && s == side) {
                        sc.op(format!("write {n} {side} 7e"));
                    }
                    if sc.written.iter().any(|(m, s)| *m == n && s == side) {
                        sc.op(format!("close {n} {side}"));
                    }
                    progress = true;
                }
            }
        }
        for side in sides {
            for n in sc.known(side) {
                for _ in 0..64 {
                    let r = sc.op(format!("read {n} {side} 64"));
                    if r.starts_with("data:") {
                        progress = true;
                    } else {
                        break;
                    }
                }
            }
        }
        if !progress {
            break;
        }
    }
    sc.op("finish".into());
    sc
}

pub fn run(args: &Args, out: &mut Out) {
    if let Some(cases) = args.replay_cases() {
        for (i, (hdr, ops)) in cases.iter().enumerate() {
            let class = hdr.get(1).cloned().unwrap_or_else(|| "replay".into());
            if hdr.iter().any(|t| t == "mux=mplex1") {
                let cfg = c26::Cfg::parse(hdr);
                let mut sc = c26::Script::new(cfg);
                for o in ops {
                    sc.op(o.join(" "));
                }
                sc.emit_with(out, i as u64, &class, "mux=mplex1 ");
            } else {
                let cfg = PCfg::parse(hdr);
                let mut sc = PScript::new(cfg);
                for o in ops {
                    sc.op(o.join(" "));
                }
                sc.emit(out, i as u64, &class);
            }
        }
        return;
    }
    let mut idx = 0u64;
    // one-endpoint sessions with exact model prediction (the C26 generator, other seeds)
    c26::generate(args, out, &mut idx, "mux=mplex1 ", 500, 15_000, 0xC24);
    // end-to-end pairs: the same scripts' generator for both muxers
    let n = args.n(500, 15_000);
    for i in 0..n {
        for yamux in [false, true] {
            let mut rng = Rng::for_case(args.seed, 30_000_000 + i);
            let cfg = PCfg {
                yamux,
                ms: *rng.pick(&[8usize, 16, 128]),
                mb: *rng.pick(&[1usize, 2, 4, 32]),
                split: *rng.pick(&[1usize, 3, 8, 8192]),
            };
            let steps = 10 + rng.usize(60);
            pair_session(&mut rng, cfg, steps).emit(out, idx, if yamux { "pair-yamux" } else { "pair-mplex" });
            idx += 1;
        }
    }
}
