//! C23 — `libp2p_dns::Transport::do_dial` against the Lean model `C23.doDial`.
//!
//! One case = one dial.  The op line carries the whole scenario (address, inner-transport script,
//! resolver record graph + call-indexed overrides); every run — generated or replayed — goes
//! through `run_op`, which PARSES the op tokens, builds a mock `Resolver` and a recording inner
//! `Transport`, drives the real dial future to completion and prints result, `dial_errors` and
//! the ordered event trace (resolver calls and `inner.dial` calls).
//!
//! op   dial <addr> inner:<default>:<seq|-> {<kind>:<hexname>=<answer> | #<idx>=<answer>}*
//!      answer = err | r:<rec>,<rec>…  | r:-        rec = a<u32> | q<u128> | c | t[<chunk>+<chunk>…]
//!      chunk  = g<maddr>  ("dnsaddr=" + text of the address) | b<0..6> (malformed variants)
//! impl <ok:k|dial|norecords|panic|unexpected> <errs|-> <trace|~>
//!      trace = `;`-joined  L:<kind>:<hexname>  |  D:<maddr>=<o|f|r|x>
use std::{
    collections::HashMap,
    io,
    pin::Pin,
    sync::{Arc, Mutex},
    task::{Context, Poll},
};

use futures::future::{self, BoxFuture, Ready};
use hcore::{hex, maddr_tok, Args, Multiaddr, Out, Protocol, Rng};
use libp2p_core::{
    transport::{DialOpts, ListenerId, PortUse, TransportError, TransportEvent},
    Endpoint, Transport,
};
use libp2p_dns::verif_c23::{
    Lookup, LookupIp, Name, Query, RData, Record, RecordType, ResolveError, Resolver, A, AAAA, CNAME,
    TXT,
};

// ------------------------------------------------------------------ scenario

#[derive(Clone, Debug)]
enum Chunk {
    Good(Multiaddr),
    Bad(u8),
}

#[derive(Clone, Debug)]
enum Rec {
    A(u32),
    Aaaa(u128),
    Other,
    Txt(Vec<Chunk>),
}

#[derive(Clone, Debug)]
enum Answer {
    Err,
    Recs(Vec<Rec>),
}

#[derive(Clone, Debug)]
struct Scenario {
    addr: Multiaddr,
    inner_default: char,
    inner_seq: Vec<char>,
    /// (kind, name bytes as the resolver sees them) → answer
    graph: Vec<(String, Vec<u8>, Answer)>,
    overrides: Vec<(usize, Answer)>,
}

fn chunk_tok(c: &Chunk) -> String {
    match c {
        Chunk::Good(a) => format!("g{}", maddr_tok(a)),
        Chunk::Bad(k) => format!("b{k}"),
    }
}

fn rec_tok(r: &Rec) -> String {
    match r {
        Rec::A(ip) => format!("a{ip}"),
        Rec::Aaaa(ip) => format!("q{ip}"),
        Rec::Other => "c".into(),
        Rec::Txt(cs) => format!("t{}", cs.iter().map(chunk_tok).collect::<Vec<_>>().join("+")),
    }
}

fn answer_tok(a: &Answer) -> String {
    match a {
        Answer::Err => "err".into(),
        Answer::Recs(rs) if rs.is_empty() => "r:-".into(),
        Answer::Recs(rs) => format!("r:{}", rs.iter().map(rec_tok).collect::<Vec<_>>().join(",")),
    }
}

impl Scenario {
    fn op_line(&self) -> String {
        let seq: String = if self.inner_seq.is_empty() { "-".into() } else { self.inner_seq.iter().collect() };
        let mut s = format!("dial {} inner:{}:{}", maddr_tok(&self.addr), self.inner_default, seq);
        for (k, n, a) in &self.graph {
            s.push_str(&format!(" {}:{}={}", k, hex(n), answer_tok(a)));
        }
        for (i, a) in &self.overrides {
            s.push_str(&format!(" #{}={}", i, answer_tok(a)));
        }
        s
    }
}

// ------------------------------------------------------------------ parsing (every run goes through this)

fn parse_maddr(tok: &str) -> Multiaddr {
    let mut a = Multiaddr::empty();
    if tok == "-" {
        return a;
    }
    for c in tok.split('/') {
        let mut it = c.splitn(2, ':');
        let name = it.next().unwrap();
        let v = it.next().unwrap_or("");
        let s = |v: &str| String::from_utf8(hcore::unhex(v)).unwrap();
        a.push(match name {
            "ip4" => Protocol::Ip4(v.parse::<u32>().unwrap().into()),
            "ip6" => Protocol::Ip6(v.parse::<u128>().unwrap().into()),
            "dns" => Protocol::Dns(s(v).into()),
            "dns4" => Protocol::Dns4(s(v).into()),
            "dns6" => Protocol::Dns6(s(v).into()),
            "dnsaddr" => Protocol::Dnsaddr(s(v).into()),
            "tcp" => Protocol::Tcp(v.parse().unwrap()),
            "udp" => Protocol::Udp(v.parse().unwrap()),
            "p2p" => Protocol::P2p(libp2p_core::PeerId::from_bytes(&hcore::unhex(v)).unwrap()),
            "quic" => Protocol::Quic,
            "quic-v1" => Protocol::QuicV1,
            "p2p-circuit" => Protocol::P2pCircuit,
            "ws" => Protocol::Ws("/".into()),
            "wss" => Protocol::Wss("/".into()),
            "tls" => Protocol::Tls,
            "webtransport" => Protocol::WebTransport,
            "webrtc-direct" => Protocol::WebRTCDirect,
            "memory" => Protocol::Memory(v.parse().unwrap()),
            "ip6zone" => Protocol::Ip6zone(s(v).into()),
            "certhash" => Protocol::Certhash(libp2p_core::multihash::Multihash::from_bytes(&hcore::unhex(v)).unwrap()),
            other => panic!("c23: unsupported component {other}"),
        });
    }
    a
}

fn parse_chunk(t: &str) -> Chunk {
    if let Some(a) = t.strip_prefix('g') {
        Chunk::Good(parse_maddr(a))
    } else {
        Chunk::Bad(t[1..].parse().unwrap())
    }
}

fn parse_rec(t: &str) -> Rec {
    match t.as_bytes()[0] {
        b'a' => Rec::A(t[1..].parse().unwrap()),
        b'q' => Rec::Aaaa(t[1..].parse().unwrap()),
        b'c' => Rec::Other,
        b't' => {
            if t.len() == 1 {
                Rec::Txt(vec![])
            } else {
                Rec::Txt(t[1..].split('+').map(parse_chunk).collect())
            }
        }
        _ => panic!("c23: bad rec {t}"),
    }
}

fn parse_answer(t: &str) -> Answer {
    if t == "err" {
        Answer::Err
    } else if t == "r:-" {
        Answer::Recs(vec![])
    } else {
        Answer::Recs(t[2..].split(',').map(parse_rec).collect())
    }
}

fn parse_op(toks: &[String]) -> Scenario {
    assert_eq!(toks[0], "dial");
    let addr = parse_maddr(&toks[1]);
    let inner: Vec<&str> = toks[2].split(':').collect();
    assert_eq!(inner[0], "inner");
    let inner_default = inner[1].chars().next().unwrap();
    let inner_seq: Vec<char> = if inner[2] == "-" { vec![] } else { inner[2].chars().collect() };
    let mut graph = vec![];
    let mut overrides = vec![];
    for t in &toks[3..] {
        let (key, ans) = t.split_once('=').unwrap();
        let ans = parse_answer(ans);
        if let Some(i) = key.strip_prefix('#') {
            overrides.push((i.parse().unwrap(), ans));
        } else {
            let (k, n) = key.split_once(':').unwrap();
            graph.push((k.to_string(), hcore::unhex(n), ans));
        }
    }
    Scenario { addr, inner_default, inner_seq, graph, overrides }
}

// ------------------------------------------------------------------ mocks

struct Shared {
    graph: HashMap<(String, Vec<u8>), Answer>,
    overrides: HashMap<usize, Answer>,
    inner_default: char,
    inner_seq: Vec<char>,
    st: Mutex<(usize, usize, Vec<String>)>, // resolver calls, inner dial calls, trace
}

#[derive(Clone)]
struct MockResolver(Arc<Shared>);

/// the bytes of a TXT `<character-string>` for a chunk
fn chunk_bytes(c: &Chunk) -> Vec<u8> {
    match c {
        Chunk::Good(a) => format!("dnsaddr={a}").into_bytes(),
        Chunk::Bad(0) => vec![0x64, 0x6e, 0x73, 0xff, 0xfe],                 // invalid UTF-8
        Chunk::Bad(1) => b"/ip4/1.2.3.4/tcp/1".to_vec(),                     // no prefix
        Chunk::Bad(2) => b"dnsaddr=/ip4/not-an-ip/tcp/1".to_vec(),           // unparsable address
        Chunk::Bad(3) => vec![],                                             // empty string
        Chunk::Bad(4) => b"DNSADDR=/ip4/1.2.3.4/tcp/1".to_vec(),             // prefix is case-sensitive
        Chunk::Bad(5) => b" dnsaddr=/ip4/1.2.3.4/tcp/1".to_vec(),            // leading space
        Chunk::Bad(_) => b"dnsaddr=ip4/1.2.3.4".to_vec(),                    // no leading slash
    }
}

fn to_record(r: &Rec) -> Record {
    let name = Name::root();
    let data = match r {
        Rec::A(ip) => RData::A(A(std::net::Ipv4Addr::from(*ip))),
        Rec::Aaaa(ip) => RData::AAAA(AAAA(std::net::Ipv6Addr::from(*ip))),
        Rec::Other => RData::CNAME(CNAME(Name::root())),
        Rec::Txt(cs) => {
            let bytes: Vec<Vec<u8>> = cs.iter().map(chunk_bytes).collect();
            RData::TXT(TXT::from_bytes(bytes.iter().map(|b| b.as_slice()).collect()))
        }
    };
    Record::from_rdata(name, 60, data)
}

impl MockResolver {
    fn answer(&self, kind: &str, rt: RecordType, name: String) -> Result<Lookup, ResolveError> {
        let idx;
        {
            let mut st = self.0.st.lock().unwrap();
            idx = st.0;
            st.0 += 1;
            st.2.push(format!("L:{}:{}", kind, hex(name.as_bytes())));
        }
        let ans = self
            .0
            .overrides
            .get(&idx)
            .or_else(|| self.0.graph.get(&(kind.to_string(), name.as_bytes().to_vec())))
            .cloned()
            .unwrap_or(Answer::Err);
        match ans {
            Answer::Err => Err(ResolveError::from("mock resolver error")),
            Answer::Recs(rs) => Ok(Lookup::new_with_max_ttl(
                Query::query(Name::root(), rt),
                rs.iter().map(to_record).collect::<Vec<_>>(),
            )),
        }
    }
}

impl Resolver for MockResolver {
    fn lookup_ip(&self, name: String) -> impl std::future::Future<Output = Result<LookupIp, ResolveError>> + Send {
        future::ready(self.answer("ip", RecordType::A, name).map(LookupIp::from))
    }
    fn ipv4_lookup(&self, name: String) -> impl std::future::Future<Output = Result<Lookup, ResolveError>> + Send {
        future::ready(self.answer("a", RecordType::A, name))
    }
    fn ipv6_lookup(&self, name: String) -> impl std::future::Future<Output = Result<Lookup, ResolveError>> + Send {
        future::ready(self.answer("aaaa", RecordType::AAAA, name))
    }
    fn txt_lookup(&self, name: String) -> impl std::future::Future<Output = Result<Lookup, ResolveError>> + Send {
        future::ready(self.answer("txt", RecordType::TXT, name))
    }
}

struct Inner(Arc<Shared>);

impl Transport for Inner {
    type Output = usize;
    type Error = io::Error;
    type ListenerUpgrade = BoxFuture<'static, Result<usize, io::Error>>;
    type Dial = Ready<Result<usize, io::Error>>;

    fn listen_on(&mut self, _: ListenerId, a: Multiaddr) -> Result<(), TransportError<io::Error>> {
        Err(TransportError::MultiaddrNotSupported(a))
    }
    fn remove_listener(&mut self, _: ListenerId) -> bool {
        false
    }
    fn dial(&mut self, addr: Multiaddr, _: DialOpts) -> Result<Self::Dial, TransportError<io::Error>> {
        let mut st = self.0.st.lock().unwrap();
        let idx = st.1;
        st.1 += 1;
        let v = *self.0.inner_seq.get(idx).unwrap_or(&self.0.inner_default);
        st.2.push(format!("D:{}={}", maddr_tok(&addr), v));
        match v {
            'o' => Ok(future::ready(Ok(idx))),
            'f' => Ok(future::ready(Err(io::Error::other("mock dial failure")))),
            'r' => Err(TransportError::MultiaddrNotSupported(addr)),
            _ => Err(TransportError::Other(io::Error::other("mock transport error"))),
        }
    }
    fn poll(self: Pin<&mut Self>, _: &mut Context<'_>) -> Poll<TransportEvent<Self::ListenerUpgrade, io::Error>> {
        Poll::Pending
    }
}

fn err_tok(e: &libp2p_dns::Error<io::Error>) -> String {
    match e {
        libp2p_dns::Error::Transport(_) => "tr".into(),
        libp2p_dns::Error::ResolveError(_) => "re".into(),
        libp2p_dns::Error::MultiaddrNotSupported(a) => format!("ns:{}", maddr_tok(a)),
        libp2p_dns::Error::TooManyLookups => "tl".into(),
        libp2p_dns::Error::Dial(_) => "nested".into(),
    }
}

/// run the REAL `Transport::dial` on the scenario of one op line
fn run_op(toks: &[String]) -> String {
    let sc = parse_op(toks);
    let shared = Arc::new(Shared {
        graph: sc.graph.iter().map(|(k, n, a)| ((k.clone(), n.clone()), a.clone())).collect(),
        overrides: sc.overrides.iter().cloned().collect(),
        inner_default: sc.inner_default,
        inner_seq: sc.inner_seq.clone(),
        st: Mutex::new((0, 0, vec![])),
    });
    let mut t = libp2p_dns::Transport::verif_new(Inner(shared.clone()), MockResolver(shared.clone()));
    let opts = DialOpts { role: Endpoint::Dialer, port_use: PortUse::Reuse };
    let addr = sc.addr.clone();
    let r = hcore::guarded(move || {
        let fut = t.dial(addr, opts);
        match fut {
            Ok(f) => Ok(futures::executor::block_on(f)),
            Err(_) => Err(()),
        }
    });
    let (res, errs) = match r {
        Err(_panic_msg) => ("panic".to_string(), "-".to_string()),
        Ok(Err(())) => ("unexpected".to_string(), "-".to_string()),
        Ok(Ok(Ok(k))) => (format!("ok:{k}"), "-".to_string()),
        Ok(Ok(Err(libp2p_dns::Error::Dial(es)))) => {
            ("dial".to_string(), es.iter().map(err_tok).collect::<Vec<_>>().join(","))
        }
        Ok(Ok(Err(libp2p_dns::Error::ResolveError(_)))) => ("norecords".to_string(), "-".to_string()),
        Ok(Ok(Err(_))) => ("unexpected".to_string(), "-".to_string()),
    };
    let st = shared.st.lock().unwrap_or_else(|p| p.into_inner());
    let trace = if st.2.is_empty() { "~".to_string() } else { st.2.join(";") };
    format!("{res} {errs} {trace}")
}

fn emit(out: &mut Out, idx: u64, class: &str, sc: &Scenario) {
    let line = sc.op_line();
    let toks: Vec<String> = line.split(' ').map(|s| s.to_string()).collect();
    let imp = run_op(&toks);
    let nt = imp.contains("L:");
    out.case(idx, &format!("{class} nt={}", nt as u8));
    out.op(&line);
    out.imp(&imp);
    out.end();
}

// ------------------------------------------------------------------ generators

fn name(i: usize) -> String {
    match i {
        0..=5 => format!("n{i}"),
        6 => "a.b.example".into(),
        7 => "ü.example".into(),
        _ => format!("m{i}"),
    }
}

fn txt_name(n: &str) -> Vec<u8> {
    format!("_dnsaddr.{n}").into_bytes()
}

fn tails() -> Vec<Vec<Protocol<'static>>> {
    vec![
        vec![],
        vec![Protocol::Tcp(1)],
        vec![Protocol::P2p(hcore::peer(1))],
        vec![Protocol::Tcp(1), Protocol::P2p(hcore::peer(1))],
        vec![Protocol::Tcp(1), Protocol::P2p(hcore::peer(2))],
        vec![Protocol::Udp(2), Protocol::QuicV1, Protocol::P2p(hcore::peer(1))],
        vec![Protocol::Tcp(443), Protocol::Tls, Protocol::Ws("/".into())],
        vec![Protocol::P2p(hcore::peer(2))],
    ]
}

fn mk(parts: &[Protocol<'static>]) -> Multiaddr {
    let mut a = Multiaddr::empty();
    for p in parts {
        a.push(p.clone());
    }
    a
}

fn cat(a: &Multiaddr, tail: &[Protocol<'static>]) -> Multiaddr {
    let mut a = a.clone();
    for p in tail {
        a.push(p.clone());
    }
    a
}

fn dns_comp(rng: &mut Rng, n: usize) -> Protocol<'static> {
    let nm = name(n);
    match rng.usize(4) {
        0 => Protocol::Dns(nm.into()),
        1 => Protocol::Dns4(nm.into()),
        2 => Protocol::Dns6(nm.into()),
        _ => Protocol::Dnsaddr(nm.into()),
    }
}

fn rand_ip(rng: &mut Rng) -> Rec {
    if rng.bool() {
        Rec::A(*rng.pick(&[0x0a000001u32, 0x01020304, 0x7f000001, 0xc0a80101, 0, u32::MAX, 0x09060006]))
    } else {
        Rec::Aaaa(*rng.pick(&[1u128, 0x20010db8_00000000_00000000_00000001, u128::MAX, 0]))
    }
}

fn rand_inner(rng: &mut Rng) -> (char, Vec<char>) {
    let d = *rng.pick(&['o', 'f', 'f', 'f', 'r', 'x']);
    let n = rng.usize(8);
    let seq = (0..n).map(|_| *rng.pick(&['o', 'f', 'f', 'r', 'x', 'f', 'r'])).collect();
    (d, seq)
}

/// an address a TXT record may point to
fn txt_target(rng: &mut Rng, nnames: usize, suffix: &[Protocol<'static>], tails: &[Vec<Protocol<'static>>]) -> Multiaddr {
    let head: Vec<Protocol<'static>> = match rng.usize(6) {
        0 | 1 => vec![Protocol::Ip4(std::net::Ipv4Addr::from(rng.below(5) as u32 + 0x0a000000)), Protocol::Tcp(1 + rng.below(3) as u16)],
        2 => vec![Protocol::Dnsaddr(name(rng.usize(nnames)).into())],
        3 => { let k = rng.usize(nnames); vec![dns_comp(rng, k), Protocol::Tcp(1)] }
        4 => vec![Protocol::Ip6(std::net::Ipv6Addr::from(1u128)), Protocol::Udp(2), Protocol::QuicV1],
        _ => vec![],
    };
    let a = mk(&head);
    match rng.usize(8) {
        0 => cat(&a, &tails[rng.usize(tails.len())]),                      // arbitrary (mostly non-matching) tail
        1 => {
            // a proper suffix of the suffix (shorter: must not match unless equal)
            let k = if suffix.is_empty() { 0 } else { rng.usize(suffix.len() + 1) };
            cat(&a, &suffix[k..])
        }
        _ => cat(&a, suffix),                               // matching
    }
}

fn rand_answer(rng: &mut Rng, kind: &str, nnames: usize, suffix: &[Protocol<'static>], tails: &[Vec<Protocol<'static>>]) -> Answer {
    match rng.usize(20) {
        0 | 1 => return Answer::Err,
        2 => return Answer::Recs(vec![]),
        3 => return Answer::Recs(vec![Rec::Other]),
        _ => {}
    }
    let mut recs = vec![];
    if kind == "txt" {
        let n = *rng.pick(&[0usize, 1, 1, 2, 2, 3, 4, 6, 15, 16, 17, 20]);
        for _ in 0..n {
            recs.push(match rng.usize(12) {
                0 => Rec::Txt(vec![]),
                1 => Rec::Txt(vec![Chunk::Bad(rng.below(7) as u8)]),
                2 => Rec::Txt(vec![Chunk::Bad(rng.below(7) as u8), Chunk::Good(txt_target(rng, nnames, suffix, tails))]),
                3 => Rec::Txt(vec![Chunk::Good(txt_target(rng, nnames, suffix, tails)), Chunk::Bad(0)]),
                4 => Rec::Other,
                5 => rand_ip(rng),
                _ => Rec::Txt(vec![Chunk::Good(txt_target(rng, nnames, suffix, tails))]),
            });
        }
    } else {
        let n = *rng.pick(&[0usize, 1, 1, 1, 2, 2, 3, 4]);
        for _ in 0..n {
            recs.push(match rng.usize(10) {
                0 => Rec::Other,
                1 => Rec::Txt(vec![Chunk::Good(mk(&[Protocol::Tcp(9)]))]),
                _ => rand_ip(rng),
            });
        }
    }
    Answer::Recs(recs)
}

fn gen_graph(rng: &mut Rng) -> Scenario {
    let tails = tails();
    let nnames = 1 + rng.usize(6);
    let suffix = rng.pick(&tails).clone();
    // the original address
    let addr = match rng.usize(10) {
        0 => cat(&mk(&[Protocol::Ip4([1, 2, 3, 4].into()), Protocol::Tcp(7)]), &suffix),
        1 => cat(&mk(&[dns_comp(rng, 0), Protocol::Tcp(1), Protocol::P2p(hcore::peer(3)), Protocol::P2pCircuit, { let k = rng.usize(nnames); dns_comp(rng, k) }]), &suffix),
        2 => cat(&mk(&[Protocol::Ip4([1, 2, 3, 4].into()), Protocol::Tcp(7), Protocol::P2pCircuit, dns_comp(rng, 0)]), &suffix),
        3 | 4 | 5 => cat(&mk(&[Protocol::Dnsaddr(name(0).into())]), &suffix),
        _ => cat(&mk(&[dns_comp(rng, 0)]), &suffix),
    };
    let mut graph = vec![];
    for i in 0..nnames {
        for k in ["ip", "a", "aaaa", "txt"] {
            if rng.chance(1, 8) {
                continue; // no entry: resolver error
            }
            let n = if k == "txt" { txt_name(&name(i)) } else { name(i).into_bytes() };
            graph.push((k.to_string(), n, rand_answer(rng, k, nnames, &suffix, &tails)));
        }
    }
    let mut overrides = vec![];
    if rng.chance(1, 4) {
        for _ in 0..1 + rng.usize(3) {
            let k = *rng.pick(&["ip", "a", "aaaa", "txt"]);
            overrides.push((rng.usize(12), rand_answer(rng, k, nnames, &suffix, &tails)));
        }
        overrides.sort_by_key(|x| x.0);
        overrides.dedup_by_key(|x| x.0);
    }
    let (inner_default, inner_seq) = rand_inner(rng);
    Scenario { addr, inner_default, inner_seq, graph, overrides }
}

/// `/dnsaddr` chain of `len` links ending in an IP address (32/33 = the lookup limit boundary)
fn gen_chain(len: usize, suffix: &[Protocol<'static>], last_dns4: bool, inner: char) -> Scenario {
    let mut graph = vec![];
    for i in 0..len {
        let target = if i + 1 < len {
            cat(&mk(&[Protocol::Dnsaddr(name(100 + i + 1).into())]), suffix)
        } else if last_dns4 {
            cat(&mk(&[Protocol::Dns4(name(0).into()), Protocol::Tcp(1)]), suffix)
        } else {
            cat(&mk(&[Protocol::Ip4([10, 0, 0, 1].into()), Protocol::Tcp(1)]), suffix)
        };
        graph.push(("txt".to_string(), txt_name(&name(100 + i)), Answer::Recs(vec![Rec::Txt(vec![Chunk::Good(target)])])));
    }
    graph.push(("a".to_string(), name(0).into_bytes(), Answer::Recs(vec![Rec::A(0x0a000002)])));
    Scenario {
        addr: cat(&mk(&[Protocol::Dnsaddr(name(100).into())]), suffix),
        inner_default: inner,
        inner_seq: vec![],
        graph,
        overrides: vec![],
    }
}

/// cyclic `/dnsaddr` records with fan-out `fan`, plus `leaves` resolved addresses per level
fn gen_cycle(period: usize, fan: usize, leaves: usize, suffix: &[Protocol<'static>], inner: (char, Vec<char>)) -> Scenario {
    let mut graph = vec![];
    for i in 0..period {
        let mut recs = vec![];
        for l in 0..leaves {
            recs.push(Rec::Txt(vec![Chunk::Good(cat(&mk(&[Protocol::Ip4([10, 0, i as u8, l as u8].into()), Protocol::Tcp(1)]), suffix))]));
        }
        for f in 0..fan {
            let nxt = (i + 1 + f) % period;
            recs.push(Rec::Txt(vec![Chunk::Good(cat(&mk(&[Protocol::Dnsaddr(name(nxt).into())]), suffix))]));
        }
        graph.push(("txt".to_string(), txt_name(&name(i)), Answer::Recs(recs)));
    }
    Scenario { addr: cat(&mk(&[Protocol::Dnsaddr(name(0).into())]), suffix), inner_default: inner.0, inner_seq: inner.1, graph, overrides: vec![] }
}

/// one name with `k` address records, or one TXT answer with `k` matching entries
fn gen_fanout(kind: usize, k: usize, suffix: &[Protocol<'static>], inner: (char, Vec<char>)) -> Scenario {
    let nm = name(0);
    let (comp, key, n, recs): (Protocol<'static>, &str, Vec<u8>, Vec<Rec>) = match kind {
        0 => (Protocol::Dns4(nm.clone().into()), "a", nm.clone().into_bytes(), (0..k).map(|i| Rec::A(0x0a000000 + i as u32)).collect()),
        1 => (Protocol::Dns6(nm.clone().into()), "aaaa", nm.clone().into_bytes(), (0..k).map(|i| Rec::Aaaa(0x20010db8_00000000_00000000_00000000 + i as u128)).collect()),
        2 => (
            Protocol::Dns(nm.clone().into()),
            "ip",
            nm.clone().into_bytes(),
            (0..k).map(|i| if i % 2 == 0 { Rec::A(0x0a000000 + i as u32) } else { Rec::Aaaa(i as u128) }).collect(),
        ),
        _ => (
            Protocol::Dnsaddr(nm.clone().into()),
            "txt",
            txt_name(&nm),
            (0..k)
                .map(|i| Rec::Txt(vec![Chunk::Good(cat(&mk(&[Protocol::Ip4((0x0a000000 + i as u32).into()), Protocol::Tcp(1)]), suffix))]))
                .collect(),
        ),
    };
    let addr = if kind == 3 { cat(&mk(&[comp]), suffix) } else { cat(&mk(&[comp, Protocol::Tcp(1)]), suffix) };
    Scenario { addr, inner_default: inner.0, inner_seq: inner.1, graph: vec![(key.to_string(), n, Answer::Recs(recs))], overrides: vec![] }
}

/// successful but empty / partial answers at the first level or behind one `/dnsaddr` indirection
fn gen_empty(kind: usize, variant: usize, behind_txt: bool) -> Scenario {
    let nm = name(1);
    let (comp, key): (Protocol<'static>, &str) = match kind {
        0 => (Protocol::Dns(nm.clone().into()), "ip"),
        1 => (Protocol::Dns4(nm.clone().into()), "a"),
        2 => (Protocol::Dns6(nm.clone().into()), "aaaa"),
        _ => (Protocol::Dnsaddr(nm.clone().into()), "txt"),
    };
    let recs = match variant {
        0 => vec![],
        1 => vec![Rec::Other],
        2 => vec![Rec::Other, Rec::Txt(vec![Chunk::Good(mk(&[Protocol::Tcp(1)]))])],
        3 => match kind {
            1 => vec![Rec::Aaaa(1)],       // an AAAA record in an A answer is filtered out
            2 => vec![Rec::A(0x0a000001)], // and vice versa
            _ => vec![Rec::Txt(vec![])],
        },
        _ => vec![Rec::Other, Rec::A(0x0a000001)], // partial: one usable record after a CNAME
    };
    let n = if kind == 3 { txt_name(&nm) } else { nm.clone().into_bytes() };
    let target = if kind == 3 { mk(&[comp]) } else { mk(&[comp, Protocol::Tcp(1)]) };
    let mut graph = vec![(key.to_string(), n, Answer::Recs(recs))];
    let addr = if behind_txt {
        graph.push((
            "txt".to_string(),
            txt_name(&name(0)),
            Answer::Recs(vec![
                Rec::Txt(vec![Chunk::Good(mk(&[Protocol::Ip4([10, 0, 0, 9].into()), Protocol::Tcp(1)]))]),
                Rec::Txt(vec![Chunk::Good(target)]),
            ]),
        ));
        mk(&[Protocol::Dnsaddr(name(0).into())])
    } else {
        target
    };
    Scenario { addr, inner_default: 'f', inner_seq: vec![], graph, overrides: vec![] }
}

/// TXT answers whose BINARY encoding ends with the encoding of the suffix although their last
/// components are different (`Multiaddr::ends_with` is byte-wise): must not be dialed.
fn gen_bytesuffix(variant: usize, inner: char) -> Scenario {
    let p1 = hcore::peer(1);
    let (suffix, spoof): (Vec<Protocol<'static>>, Multiaddr) = match variant {
        // `/ip4/9.6.0.6` = 04 09 06 00 06 ends with `/tcp/6` = 06 00 06
        0 => (vec![Protocol::Tcp(6)], mk(&[Protocol::Ip4([9, 6, 0, 6].into())])),
        // `/ip6/::9102:1` ends with `/udp/1` = 91 02 00 01
        1 => (vec![Protocol::Udp(1)], mk(&[Protocol::Ip6(std::net::Ipv6Addr::from(0x9102_0001u128))])),
        // a certhash whose (identity) multihash digest is the encoding of `/p2p/<P1>`
        2 => {
            let enc = mk(&[Protocol::P2p(p1)]).to_vec();
            let mh = libp2p_core::multihash::Multihash::<64>::wrap(0, &enc).unwrap();
            (
                vec![Protocol::P2p(p1)],
                mk(&[Protocol::Ip4([1, 2, 3, 4].into()), Protocol::Udp(1), Protocol::QuicV1, Protocol::WebTransport, Protocol::Certhash(mh)]),
            )
        }
        // `/ip4/1.2.3.4/tcp/6/ip4/9.6.0.6`: longer, still only a byte coincidence
        3 => (vec![Protocol::Tcp(6)], mk(&[Protocol::Ip4([1, 2, 3, 4].into()), Protocol::Tcp(6), Protocol::Ip4([9, 6, 0, 6].into())])),
        // `/tcp/1542` = 06 06 06 ends with … `/tcp/6`? no (06 00 06): a near miss that nobody accepts
        _ => (vec![Protocol::Tcp(6)], mk(&[Protocol::Ip4([1, 2, 3, 4].into()), Protocol::Tcp(1542)])),
    };
    let good = cat(&mk(&[Protocol::Ip4([10, 0, 0, 1].into())]), &suffix);
    let recs = vec![
        Rec::Txt(vec![Chunk::Good(good)]),
        Rec::Txt(vec![Chunk::Good(spoof)]),
        Rec::Txt(vec![Chunk::Good(mk(&[Protocol::Ip4([10, 0, 0, 2].into()), Protocol::Tcp(7)]))]),
    ];
    Scenario {
        addr: cat(&mk(&[Protocol::Dnsaddr(name(0).into())]), &suffix),
        inner_default: inner,
        inner_seq: vec![],
        graph: vec![("txt".to_string(), txt_name(&name(0)), Answer::Recs(recs))],
        overrides: vec![],
    }
}

/// bounded-exhaustive enumeration of small record graphs over two names (thorough tier)
fn gen_enum(out: &mut Out, idx: &mut u64) {
    let p1 = hcore::peer(1);
    let origs: Vec<(Multiaddr, Vec<Protocol<'static>>)> = vec![
        (mk(&[Protocol::Dnsaddr(name(0).into())]), vec![]),
        (mk(&[Protocol::Dnsaddr(name(0).into()), Protocol::P2p(p1)]), vec![Protocol::P2p(p1)]),
        (mk(&[Protocol::Dns4(name(0).into()), Protocol::Tcp(1)]), vec![Protocol::Tcp(1)]),
        (mk(&[Protocol::Dns(name(0).into()), Protocol::Tcp(1)]), vec![Protocol::Tcp(1)]),
    ];
    let a_answers: Vec<Answer> = vec![
        Answer::Err,
        Answer::Recs(vec![]),
        Answer::Recs(vec![Rec::A(0x0a000001)]),
        Answer::Recs(vec![Rec::Other, Rec::A(0x0a000001), Rec::A(0x0a000002)]),
    ];
    for (orig, suf) in &origs {
        let entry = |k: usize| -> Rec {
            match k {
                0 => Rec::Txt(vec![Chunk::Good(cat(&mk(&[Protocol::Ip4([10, 0, 0, 7].into()), Protocol::Tcp(1)]), suf))]),
                1 => Rec::Txt(vec![Chunk::Good(mk(&[Protocol::Ip4([10, 0, 0, 8].into()), Protocol::Tcp(1), Protocol::P2p(hcore::peer(2))]))]),
                2 => Rec::Txt(vec![Chunk::Good(cat(&mk(&[Protocol::Dnsaddr(name(0).into())]), suf))]),
                3 => Rec::Txt(vec![Chunk::Good(cat(&mk(&[Protocol::Dnsaddr(name(1).into())]), suf))]),
                4 => Rec::Txt(vec![Chunk::Good(cat(&mk(&[Protocol::Dns4(name(1).into()), Protocol::Tcp(1)]), suf))]),
                _ => Rec::Txt(vec![Chunk::Bad(1)]),
            }
        };
        let mut txt0: Vec<Answer> = vec![Answer::Err, Answer::Recs(vec![])];
        for i in 0..6 {
            txt0.push(Answer::Recs(vec![entry(i)]));
            for j in 0..6 {
                txt0.push(Answer::Recs(vec![entry(i), entry(j)]));
            }
        }
        let txt1: Vec<Answer> = vec![Answer::Err, Answer::Recs(vec![entry(0)]), Answer::Recs(vec![entry(2)])];
        for t0 in &txt0 {
            for t1 in &txt1 {
                for a0 in &a_answers {
                    for a1 in &a_answers {
                        for inner in ['o', 'f', 'r'] {
                            let graph = vec![
                                ("txt".to_string(), txt_name(&name(0)), t0.clone()),
                                ("txt".to_string(), txt_name(&name(1)), t1.clone()),
                                ("a".to_string(), name(0).into_bytes(), a0.clone()),
                                ("ip".to_string(), name(0).into_bytes(), a0.clone()),
                                ("a".to_string(), name(1).into_bytes(), a1.clone()),
                            ];
                            let sc = Scenario { addr: orig.clone(), inner_default: inner, inner_seq: vec![], graph, overrides: vec![] };
                            emit(out, *idx, "enum", &sc);
                            *idx += 1;
                        }
                    }
                }
            }
        }
    }
}

pub fn run(args: &Args, out: &mut Out) {
    if let Some(cases) = args.replay_cases() {
        for (i, (_, ops)) in cases.iter().enumerate() {
            out.case(i as u64, "replay nt=1");
            for op in ops {
                out.op(&op.join(" "));
                out.imp(&run_op(op));
            }
            out.end();
        }
        return;
    }
    let tails = tails();
    let mut idx = 0u64;
    // --- fixed boundary families
    for len in [1usize, 2, 31, 32, 33, 34, 40] {
        for (ti, t) in tails.iter().enumerate().take(4) {
            for last_dns4 in [false, true] {
                for inner in ['o', 'f'] {
                    if ti > 1 && inner == 'f' {
                        continue;
                    }
                    emit(out, idx, "chain", &gen_chain(len, t, last_dns4, inner));
                    idx += 1;
                }
            }
        }
    }
    for period in [1usize, 2, 3] {
        for fan in [1usize, 2, 3] {
            for leaves in [0usize, 1, 2] {
                for inner in [('f', vec![]), ('r', vec![]), ('f', vec!['f'; 15].into_iter().chain(['o']).collect()), ('o', vec!['r', 'x', 'f'])] {
                    emit(out, idx, "cycle", &gen_cycle(period, fan, leaves, &tails[2], inner));
                    idx += 1;
                }
            }
        }
    }
    for kind in 0..4 {
        for k in [1usize, 2, 15, 16, 17, 18, 20, 40] {
            let inners: Vec<(char, Vec<char>)> = vec![
                ('f', vec![]),
                ('r', vec![]),
                ('x', vec![]),
                ('f', vec!['r', 'r', 'x']),                                            // refused dials are not attempts
                ('f', vec!['f'; 15].into_iter().chain(['o']).collect()),               // the 16th attempt succeeds
                ('f', vec!['f'; 16].into_iter().chain(['o']).collect()),               // the 17th would
                ('r', vec!['f'; 15].into_iter().chain(['r', 'r', 'f', 'o']).collect()),
            ];
            for inner in inners {
                emit(out, idx, "fanout", &gen_fanout(kind, k, &tails[3], inner));
                idx += 1;
            }
        }
    }
    for kind in 0..4 {
        for variant in 0..5 {
            for behind in [false, true] {
                emit(out, idx, "empty", &gen_empty(kind, variant, behind));
                idx += 1;
            }
        }
    }
    for variant in 0..5 {
        for inner in ['f', 'r', 'o'] {
            emit(out, idx, "bytesuffix", &gen_bytesuffix(variant, inner));
            idx += 1;
        }
    }
    // --- addresses without DNS components, every verdict
    for t in &tails {
        for v in ['o', 'f', 'r', 'x'] {
            let sc = Scenario { addr: cat(&mk(&[Protocol::Ip4([1, 2, 3, 4].into())]), t), inner_default: v, inner_seq: vec![], graph: vec![], overrides: vec![] };
            emit(out, idx, "nodns", &sc);
            idx += 1;
        }
    }
    emit(out, idx, "nodns", &Scenario { addr: Multiaddr::empty(), inner_default: 'f', inner_seq: vec![], graph: vec![], overrides: vec![] });
    idx += 1;
    // --- bounded-exhaustive small graphs (thorough tier)
    if args.thorough && args.count == 0 {
        gen_enum(out, &mut idx);
    }
    // --- random record graphs
    let n = args.n(6000, 400_000);
    for i in 0..n {
        let mut rng = Rng::for_case(args.seed, i);
        let sc = gen_graph(&mut rng);
        emit(out, idx, "graph", &sc);
        idx += 1;
    }
}
