//! C45 — every request gets exactly one outcome: `request_response::Behaviour` bookkeeping vs the
//! Lean model `C45.step`.
//!
//! The real `Behaviour<Cd>` is driven directly (no Swarm): `send_request`,
//! `handle_established_{in,out}bound_connection` + `on_swarm_event(ConnectionEstablished)`,
//! `on_swarm_event(ConnectionClosed / DialFailure)` with synthetic `ConnectionId`s, and handler
//! events built with the `verif_c45` hook constructors and injected through
//! `on_connection_handler_event`.  After every op the behaviour is polled dry (Dial /
//! NotifyHandler / GenerateEvent), the preloaded handler is interrogated, and `is_pending_*` is
//! sampled for every (peer, id).
//!
//! Class `realh` keeps the REAL `Handler` returned by `handle_established_*` per connection, feeds it
//! the behaviour's `NotifyHandler` messages and lets it produce the outbound failure events itself
//! (`DialUpgradeError` → `OutboundTimeout`/`OutboundUnsupportedProtocols`/`OutboundStreamFailed`).
use std::{
    collections::BTreeSet,
    io,
    sync::Arc,
    task::{Context, Poll, Wake, Waker},
};

use futures::prelude::*;
use hcore::{Args, Out, Rng};
use libp2p_core::{transport::PortUse, ConnectedPoint, Endpoint, Multiaddr, PeerId};
use libp2p_request_response::{self as rr, verif_c45 as hk, Codec, ProtocolSupport};
use libp2p_swarm::{
    behaviour::{ConnectionClosed, ConnectionEstablished, DialFailure, FromSwarm},
    dial_opts::PeerCondition,
    handler::{ConnectionEvent, DialUpgradeError, StreamUpgradeError},
    ConnectionHandler, ConnectionHandlerEvent, ConnectionId, DialError, NetworkBehaviour, NotifyHandler, THandler,
    THandlerInEvent, THandlerOutEvent, ToSwarm,
};

const NP: usize = 3;

/// Trivial codec: no stream is ever opened at this level.
#[derive(Clone, Default)]
pub struct Cd;

impl Codec for Cd {
    type Protocol = &'static str;
    type Request = Vec<u8>;
    type Response = Vec<u8>;
    async fn read_request<T: AsyncRead + Unpin + Send>(&mut self, _: &Self::Protocol, _: &mut T) -> io::Result<Vec<u8>> {
        Err(io::Error::other("unused"))
    }
    async fn read_response<T: AsyncRead + Unpin + Send>(&mut self, _: &Self::Protocol, _: &mut T) -> io::Result<Vec<u8>> {
        Err(io::Error::other("unused"))
    }
    async fn write_request<T: AsyncWrite + Unpin + Send>(&mut self, _: &Self::Protocol, _: &mut T, _: Vec<u8>) -> io::Result<()> {
        Err(io::Error::other("unused"))
    }
    async fn write_response<T: AsyncWrite + Unpin + Send>(&mut self, _: &Self::Protocol, _: &mut T, _: Vec<u8>) -> io::Result<()> {
        Err(io::Error::other("unused"))
    }
}

type B = rr::Behaviour<Cd>;
type H = THandler<B>;

struct NoWake;
impl Wake for NoWake {
    fn wake(self: Arc<Self>) {}
}

#[derive(Clone, Debug, PartialEq)]
enum Op {
    Send(usize),
    Est(usize, usize, bool),
    Closed(usize, usize),
    DialFail(Option<usize>, usize, &'static str),
    HOut(usize, usize, u64, &'static str),
    HReq(usize, usize, u64),
    HIn(usize, usize, u64, &'static str),
    /// real handler: fail the oldest request the handler of (p, c) has asked a stream for
    RealFail(usize, usize, &'static str),
}

fn intern(s: &str) -> &'static str {
    for k in [
        "cond", "noaddr", "aborted", "response", "timeout", "unsupported", "io", "sent", "omission", "in", "out",
    ] {
        if k == s {
            return k;
        }
    }
    panic!("replay: unknown token {s}")
}

impl Op {
    fn tok(&self) -> String {
        match self {
            Op::Send(p) => format!("send {p}"),
            Op::Est(p, c, outb) => format!("est {p} {c} {}", if *outb { "out" } else { "in" }),
            Op::Closed(p, c) => format!("closed {p} {c}"),
            Op::DialFail(p, c, k) => format!("dialfail {} {c} {k}", p.map(|x| x.to_string()).unwrap_or("-".into())),
            Op::HOut(p, c, id, k) => format!("hout {p} {c} {id} {k}"),
            Op::HReq(p, c, id) => format!("hreq {p} {c} {id}"),
            Op::HIn(p, c, id, k) => format!("hin {p} {c} {id} {k}"),
            Op::RealFail(p, c, k) => format!("realfail {p} {c} {k}"),
        }
    }
    fn parse(t: &[String]) -> Op {
        let n = |i: usize| t[i].parse::<usize>().unwrap();
        match t[0].as_str() {
            "send" => Op::Send(n(1)),
            "est" => Op::Est(n(1), n(2), t[3] == "out"),
            "closed" => Op::Closed(n(1), n(2)),
            "dialfail" => Op::DialFail(if t[1] == "-" { None } else { Some(n(1)) }, n(2), intern(&t[3])),
            "hout" => Op::HOut(n(1), n(2), n(3) as u64, intern(&t[4])),
            "hreq" => Op::HReq(n(1), n(2), n(3) as u64),
            "hin" => Op::HIn(n(1), n(2), n(3) as u64, intern(&t[4])),
            "realfail" => Op::RealFail(n(1), n(2), intern(&t[3])),
            o => panic!("replay: unknown op {o}"),
        }
    }
}

struct World {
    b: B,
    peers: Vec<PeerId>,
    issued: u64,
    in_ids: BTreeSet<u64>,
    /// number of connections the harness (playing the Swarm) believes open, per peer
    open: Vec<usize>,
    /// real handlers (class realh), by (peer, conn)
    handlers: Vec<(usize, usize, H)>,
    real: bool,
    last_pre_count: usize,
    channels: Vec<rr::ResponseChannel<Vec<u8>>>,
    receivers: Vec<futures::channel::oneshot::Receiver<Vec<u8>>>,
    waker: Waker,
}

fn addr(c: usize) -> Multiaddr {
    format!("/memory/{}", c + 1).parse().unwrap()
}

fn cid_num(c: ConnectionId) -> usize {
    format!("{c}").parse().unwrap()
}

impl World {
    fn new(real: bool) -> World {
        World {
            b: B::new([("/c45/1", ProtocolSupport::Full)], rr::Config::default()),
            peers: (0..NP).map(|i| hcore::peer(i as u8 + 1)).collect(),
            issued: 0,
            in_ids: BTreeSet::new(),
            open: vec![0; NP],
            handlers: vec![],
            real,
            last_pre_count: 0,
            channels: vec![],
            receivers: vec![],
            waker: Waker::from(Arc::new(NoWake)),
        }
    }

    fn pidx(&self, p: &PeerId) -> usize {
        self.peers.iter().position(|x| x == p).expect("unknown peer in output")
    }

    /// poll the behaviour dry; canonical event tokens
    fn drain(&mut self) -> Vec<String> {
        let mut evs = vec![];
        let waker = self.waker.clone();
        let mut cx = Context::from_waker(&waker);
        loop {
            let ev: ToSwarm<rr::Event<Vec<u8>, Vec<u8>>, THandlerInEvent<B>> = match self.b.poll(&mut cx) {
                Poll::Ready(ev) => ev,
                Poll::Pending => break,
            };
            match ev {
                ToSwarm::Dial { opts } => {
                    let p = opts.get_peer_id().map(|p| self.pidx(&p).to_string()).unwrap_or("-".into());
                    evs.push(format!("dial:{p}"));
                }
                ToSwarm::NotifyHandler { peer_id, handler, event } => {
                    let p = self.pidx(&peer_id);
                    let id = hk::message_id(&event);
                    match handler {
                        NotifyHandler::One(c) => {
                            let c = cid_num(c);
                            evs.push(format!("notify:{p}:{c}:{id}"));
                            if self.real {
                                if let Some(h) = self.handlers.iter_mut().find(|h| h.0 == p && h.1 == c) {
                                    h.2.on_behaviour_event(event);
                                }
                            }
                        }
                        NotifyHandler::Any => evs.push(format!("notifyany:{p}:{id}")),
                    }
                }
                ToSwarm::GenerateEvent(e) => evs.push(self.ev_tok(e)),
                _ => evs.push("other".into()),
            }
        }
        evs
    }

    fn ev_tok(&mut self, e: rr::Event<Vec<u8>, Vec<u8>>) -> String {
        match e {
            rr::Event::Message { peer, connection_id, message } => {
                let (p, c) = (self.pidx(&peer), cid_num(connection_id));
                match message {
                    rr::Message::Request { request_id, channel, .. } => {
                        self.channels.push(channel);
                        format!("req:{p}:{c}:{request_id}")
                    }
                    rr::Message::Response { request_id, .. } => format!("resp:{p}:{c}:{request_id}"),
                }
            }
            rr::Event::OutboundFailure { peer, connection_id, request_id, error } => {
                let k = match error {
                    rr::OutboundFailure::DialFailure => "dial",
                    rr::OutboundFailure::Timeout => "timeout",
                    rr::OutboundFailure::ConnectionClosed => "closed",
                    rr::OutboundFailure::UnsupportedProtocols => "unsupported",
                    rr::OutboundFailure::Io(_) => "io",
                };
                format!("of:{}:{}:{request_id}:{k}", self.pidx(&peer), cid_num(connection_id))
            }
            rr::Event::InboundFailure { peer, connection_id, request_id, error } => {
                let k = match error {
                    rr::InboundFailure::Timeout => "timeout",
                    rr::InboundFailure::ConnectionClosed => "closed",
                    rr::InboundFailure::UnsupportedProtocols => "unsupported",
                    rr::InboundFailure::ResponseOmission => "omission",
                    rr::InboundFailure::Io(_) => "io",
                };
                format!("if:{}:{}:{request_id}:{k}", self.pidx(&peer), cid_num(connection_id))
            }
            rr::Event::ResponseSent { peer, connection_id, request_id } => {
                format!("sent:{}:{}:{request_id}", self.pidx(&peer), cid_num(connection_id))
            }
        }
    }

    /// ids the freshly built handler was preloaded with, in order: the handler asks for one
    /// outbound stream per message; failing each negotiation makes it name the request id.
    fn preloaded(&self, h: &mut H) -> Vec<u64> {
        let mut cx = Context::from_waker(&self.waker);
        let mut n = 0;
        let mut ids = vec![];
        loop {
            match h.poll(&mut cx) {
                Poll::Ready(ConnectionHandlerEvent::OutboundSubstreamRequest { .. }) => n += 1,
                Poll::Ready(ConnectionHandlerEvent::NotifyBehaviour(e)) => ids.push(hk::ev_kind(&e).1),
                Poll::Ready(_) => {}
                Poll::Pending => {
                    if n == 0 {
                        break;
                    }
                    n -= 1;
                    h.on_connection_event(ConnectionEvent::DialUpgradeError(DialUpgradeError {
                        info: (),
                        error: StreamUpgradeError::Timeout,
                    }));
                }
            }
        }
        ids
    }

    fn inject(&mut self, p: usize, c: usize, ev: THandlerOutEvent<B>) {
        let peer = self.peers[p];
        self.b.on_connection_handler_event(peer, ConnectionId::new_unchecked(c), ev);
    }

    /// returns (ret, pre, panic)
    fn apply(&mut self, op: &Op) -> (Option<u64>, Vec<u64>, Option<String>) {
        let mut ret = None;
        let mut pre = vec![];
        let r = hcore::guarded(|| match op.clone() {
            Op::Send(p) => {
                let peer = self.peers[p];
                let id = self.b.send_request(&peer, vec![p as u8]);
                let id: u64 = format!("{id}").parse().unwrap();
                self.issued = self.issued.max(id);
                ret = Some(id);
            }
            Op::Est(p, c, outb) => {
                let peer = self.peers[p];
                let cid = ConnectionId::new_unchecked(c);
                let (a_local, a_remote) = (addr(0), addr(c));
                let (mut h, cp) = if outb {
                    let h = self
                        .b
                        .handle_established_outbound_connection(cid, peer, &a_remote, Endpoint::Dialer, PortUse::Reuse)
                        .unwrap_or_else(|_| panic!("denied"));
                    (h, ConnectedPoint::Dialer { address: a_remote.clone(), role_override: Endpoint::Dialer, port_use: PortUse::Reuse })
                } else {
                    let h = self
                        .b
                        .handle_established_inbound_connection(cid, peer, &a_local, &a_remote)
                        .unwrap_or_else(|_| panic!("denied"));
                    (h, ConnectedPoint::Listener { local_addr: a_local.clone(), send_back_addr: a_remote.clone() })
                };
                let other = self.open[p];
                self.b.on_swarm_event(FromSwarm::ConnectionEstablished(ConnectionEstablished {
                    peer_id: peer,
                    connection_id: cid,
                    endpoint: &cp,
                    failed_addresses: &[],
                    other_established: other,
                }));
                self.open[p] += 1;
                if self.real {
                    // the real handler keeps its preloaded messages: count its stream requests only
                    let mut cx = Context::from_waker(&self.waker);
                    let mut n = 0;
                    while let Poll::Ready(e) = h.poll(&mut cx) {
                        if let ConnectionHandlerEvent::OutboundSubstreamRequest { .. } = e {
                            n += 1;
                        }
                    }
                    self.last_pre_count = n;
                    self.handlers.push((p, c, h));
                } else {
                    pre = self.preloaded(&mut h);
                }
            }
            Op::Closed(p, c) => {
                let peer = self.peers[p];
                let cp = ConnectedPoint::Listener { local_addr: addr(0), send_back_addr: addr(c) };
                let remaining = self.open[p].saturating_sub(1);
                self.b.on_swarm_event(FromSwarm::ConnectionClosed(ConnectionClosed {
                    peer_id: peer,
                    connection_id: ConnectionId::new_unchecked(c),
                    endpoint: &cp,
                    cause: None,
                    remaining_established: remaining,
                }));
                // only reached when the behaviour knew the connection
                self.open[p] = remaining;
                if let Some(i) = self.handlers.iter().position(|h| h.0 == p && h.1 == c) {
                    self.handlers.remove(i);
                }
            }
            Op::DialFail(p, c, k) => {
                let err = match k {
                    "cond" => DialError::DialPeerConditionFalse(PeerCondition::DisconnectedAndNotDialing),
                    "noaddr" => DialError::NoAddresses,
                    _ => DialError::Aborted,
                };
                self.b.on_swarm_event(FromSwarm::DialFailure(DialFailure {
                    peer_id: p.map(|p| self.peers[p]),
                    error: &err,
                    connection_id: ConnectionId::new_unchecked(c),
                }));
            }
            Op::HOut(p, c, id, k) => {
                let ev = match k {
                    "response" => hk::ev_response::<Cd>(id, vec![1]),
                    "timeout" => hk::ev_outbound_timeout::<Cd>(id),
                    "unsupported" => hk::ev_outbound_unsupported::<Cd>(id),
                    _ => hk::ev_outbound_stream_failed::<Cd>(id, io::Error::other("x")),
                };
                self.inject(p, c, ev);
            }
            Op::HReq(p, c, id) => {
                self.in_ids.insert(id);
                let (ev, rx) = hk::ev_request::<Cd>(id, vec![2]);
                self.receivers.push(rx);
                self.inject(p, c, ev);
            }
            Op::HIn(p, c, id, k) => {
                let ev = match k {
                    "sent" => hk::ev_response_sent::<Cd>(id),
                    "omission" => hk::ev_response_omission::<Cd>(id),
                    "timeout" => hk::ev_inbound_timeout::<Cd>(id),
                    _ => hk::ev_inbound_stream_failed::<Cd>(id, io::Error::other("y")),
                };
                self.inject(p, c, ev);
            }
            Op::RealFail(..) => unreachable!("resolved before apply"),
        });
        (ret, pre, r.err())
    }

    /// class realh: let the real handler of (p, c) fail its oldest requested stream; the event it
    /// produces (if any) is returned as the concrete op to perform.
    fn real_fail(&mut self, p: usize, c: usize, k: &'static str) -> Option<Op> {
        let waker = self.waker.clone();
        let mut cx = Context::from_waker(&waker);
        let h = self.handlers.iter_mut().find(|h| h.0 == p && h.1 == c)?;
        // let the handler request streams for everything it holds
        let mut requested = 0;
        let mut produced = vec![];
        loop {
            match h.2.poll(&mut cx) {
                Poll::Ready(ConnectionHandlerEvent::OutboundSubstreamRequest { .. }) => requested += 1,
                Poll::Ready(ConnectionHandlerEvent::NotifyBehaviour(e)) => produced.push(e),
                Poll::Ready(_) => {}
                Poll::Pending => break,
            }
        }
        let _ = requested;
        assert!(produced.is_empty(), "handler produced an event without a stream outcome");
        // the harness does not know how many streams are outstanding; `requested_outbound` being
        // empty makes the handler panic (`expect`), which we treat as "nothing to fail".
        let r = hcore::guarded(|| {
            h.2.on_connection_event(ConnectionEvent::DialUpgradeError(DialUpgradeError {
                info: (),
                error: match k {
                    "timeout" => StreamUpgradeError::Timeout,
                    "unsupported" => StreamUpgradeError::NegotiationFailed,
                    _ => StreamUpgradeError::Io(io::Error::other("z")),
                },
            }))
        });
        if r.is_err() {
            return None;
        }
        match h.2.poll(&mut cx) {
            Poll::Ready(ConnectionHandlerEvent::NotifyBehaviour(e)) => {
                let (kind, id) = hk::ev_kind(&e);
                let k2 = match kind {
                    "outTimeout" => "timeout",
                    "outUnsupported" => "unsupported",
                    "outStreamFailed" => "io",
                    other => panic!("unexpected handler event {other}"),
                };
                assert_eq!(k, k2, "handler reported a different failure kind");
                Some(Op::HOut(p, c, id, k2))
            }
            _ => panic!("handler did not report the failed negotiation"),
        }
    }

    fn snapshot(&self) -> (String, String) {
        let mut po = vec![];
        let mut pi = vec![];
        for p in 0..NP {
            for id in 1..=self.issued {
                if self.b.is_pending_outbound(&self.peers[p], &hk::outbound_id(id)) {
                    po.push(format!("{p}:{id}"));
                }
            }
            for id in &self.in_ids {
                if self.b.is_pending_inbound(&self.peers[p], &hk::inbound_id(*id)) {
                    pi.push(format!("{p}:{id}"));
                }
            }
        }
        (hcore::list(&po), hcore::list(&pi))
    }

    /// performs one op; returns the `(p, c, id)` triples of requests handed to a handler by it
    fn step(&mut self, out: &mut Out, op: &Op) -> Vec<(usize, usize, u64)> {
        let op = match op {
            Op::RealFail(p, c, k) => match self.real_fail(*p, *c, k) {
                Some(o) => o,
                None => return vec![],
            },
            o => o.clone(),
        };
        out.op(&op.tok());
        let (ret, pre, panic) = self.apply(&op);
        let mut evs = self.drain();
        if let Op::Closed(..) = op {
            // HashSet iteration order: canonicalise (inbound failures first, then outbound, by id)
            evs.sort_by_key(|e| {
                let t: Vec<&str> = e.split(':').collect();
                (if t[0] == "if" { 0 } else { 1 }, t.get(3).and_then(|x| x.parse::<u64>().ok()).unwrap_or(0))
            });
        }
        let (po, pi) = self.snapshot();
        let mut handed = vec![];
        if let Op::Est(p, c, _) = op {
            handed.extend(pre.iter().map(|id| (p, c, *id)));
        }
        for e in &evs {
            let t: Vec<&str> = e.split(':').collect();
            if t[0] == "notify" {
                handed.push((t[1].parse().unwrap(), t[2].parse().unwrap(), t[3].parse().unwrap()));
            }
        }
        let pre_tok = if self.real {
            if let Op::Est(..) = op { format!("n{}", self.last_pre_count) } else { "n0".into() }
        } else {
            hcore::list(&pre)
        };
        out.imp(&format!(
            "ret={} pre={} evs={} panic={} po={} pi={}",
            ret.map(|x| x.to_string()).unwrap_or("-".into()),
            pre_tok,
            hcore::list(&evs),
            panic.unwrap_or("-".into()),
            po,
            pi
        ));
        handed
    }
}

fn run_case(out: &mut Out, idx: u64, cls: &str, nt: bool, ops: &[Op]) {
    let real = cls == "realh";
    out.case(idx, &format!("{cls} nt={} dbg={} np={NP} real={}", nt as u8, cfg!(debug_assertions) as u8, real as u8));
    let mut w = World::new(real);
    for op in ops {
        w.step(out, op);
    }
    out.end();
}

/// alphabet for the bounded-exhaustive enumeration: one peer, two connections, ids 1 and 2
fn alphabet(full: bool) -> Vec<Op> {
    let mut a = vec![
        Op::Send(0),
        Op::Est(0, 1, true),
        Op::Closed(0, 1),
        Op::DialFail(Some(0), 9, "noaddr"),
        Op::HOut(0, 1, 1, "response"),
        Op::HReq(0, 1, 1),
        Op::HIn(0, 1, 1, "sent"),
        Op::Est(0, 2, false),
    ];
    if full {
        a.extend([
            Op::Closed(0, 2),
            Op::DialFail(Some(0), 9, "cond"),
            Op::HOut(0, 1, 1, "timeout"),
            Op::HOut(0, 2, 1, "io"),
            Op::HOut(0, 1, 2, "unsupported"),
            Op::HIn(0, 1, 1, "timeout"),
            Op::HIn(0, 2, 1, "omission"),
        ]);
    }
    a
}

fn enumerate(out: &mut Out, idx: &mut u64, alpha: &[Op], len: usize, cls: &str) {
    let n = alpha.len();
    let mut digits = vec![0usize; len];
    loop {
        let ops: Vec<Op> = digits.iter().map(|d| alpha[*d].clone()).collect();
        let nt = ops.iter().any(|o| matches!(o, Op::Send(_) | Op::HReq(..)));
        run_case(out, *idx, cls, nt, &ops);
        *idx += 1;
        let mut i = 0;
        loop {
            if i == len {
                return;
            }
            digits[i] += 1;
            if digits[i] < n {
                break;
            }
            digits[i] = 0;
            i += 1;
        }
    }
}

/// random interleavings: mostly well-formed (handler events for ids the behaviour reports
/// pending), with late / duplicate / unknown handler events, unknown closes and reused ids mixed in.
fn random_case(out: &mut Out, idx: u64, rng: &mut Rng, real: bool) {
    let cls = if real { "realh" } else { "random" };
    out.case(idx, &format!("{cls} nt=1 dbg={} np={NP} real={}", cfg!(debug_assertions) as u8, real as u8));
    let mut w = World::new(real);
    let len = 8 + rng.usize(40);
    let mut next_c = 1usize;
    let mut next_in = 1u64;
    let mut conns: Vec<(usize, usize)> = vec![]; // currently open (harness view)
    let mut past: Vec<(usize, usize)> = vec![]; // every connection ever opened
    let mut out_hist: Vec<(usize, usize, u64)> = vec![]; // (p, c, id) ever notified / preloaded
    let mut in_hist: Vec<(usize, usize, u64)> = vec![];
    let outk = ["response", "timeout", "unsupported", "io"];
    let ink = ["sent", "omission", "timeout", "io"];
    for _ in 0..len {
        let p = if rng.chance(3, 4) { 0 } else { rng.usize(NP) };
        let roll = rng.usize(100);
        let op = if roll < 24 {
            Op::Send(p)
        } else if roll < 38 {
            let c = if rng.chance(1, 25) && !past.is_empty() { rng.pick(&past).1 } else { next_c };
            next_c += 1;
            conns.push((p, c));
            past.push((p, c));
            Op::Est(p, c, rng.bool())
        } else if roll < 48 {
            if !conns.is_empty() && rng.chance(9, 10) {
                let i = rng.usize(conns.len());
                let (p, c) = conns.remove(i);
                Op::Closed(p, c)
            } else if rng.chance(1, 3) {
                Op::Closed(p, rng.usize(next_c + 1))
            } else {
                Op::Send(p)
            }
        } else if roll < 56 {
            let k = *rng.pick(&["cond", "noaddr", "aborted", "noaddr"]);
            Op::DialFail(if rng.chance(1, 10) { None } else { Some(p) }, 100 + rng.usize(5), k)
        } else if roll < 76 {
            // outbound completion
            if real {
                if conns.is_empty() {
                    Op::Send(p)
                } else {
                    let (p, c) = *rng.pick(&conns);
                    Op::RealFail(p, c, *rng.pick(&["timeout", "unsupported", "io"]))
                }
            } else {
                let pend: Vec<(usize, usize, u64)> = out_hist
                    .iter()
                    .copied()
                    .filter(|(p, _, id)| w.b.is_pending_outbound(&w.peers[*p], &hk::outbound_id(*id)))
                    .collect();
                let k = *rng.pick(&outk);
                if !pend.is_empty() && rng.chance(4, 5) {
                    let (p, c, id) = *rng.pick(&pend);
                    Op::HOut(p, c, id, k)
                } else if !out_hist.is_empty() && rng.chance(2, 3) {
                    // late or duplicate
                    let (p, c, id) = *rng.pick(&out_hist);
                    Op::HOut(p, c, id, k)
                } else {
                    Op::HOut(p, rng.usize(next_c + 1), 1 + rng.below(w.issued + 2), k)
                }
            }
        } else if roll < 88 {
            // inbound request
            if !conns.is_empty() && rng.chance(9, 10) {
                let (p, c) = *rng.pick(&conns);
                let id = if rng.chance(1, 30) && next_in > 1 { 1 + rng.below(next_in - 1) } else { next_in };
                next_in += 1;
                in_hist.push((p, c, id));
                Op::HReq(p, c, id)
            } else {
                // request event of a connection the behaviour no longer knows
                let id = next_in;
                next_in += 1;
                let (p, c) = if past.is_empty() { (p, 77) } else { *rng.pick(&past) };
                in_hist.push((p, c, id));
                Op::HReq(p, c, id)
            }
        } else {
            let pend: Vec<(usize, usize, u64)> = in_hist
                .iter()
                .copied()
                .filter(|(p, _, id)| w.b.is_pending_inbound(&w.peers[*p], &hk::inbound_id(*id)))
                .collect();
            let k = *rng.pick(&ink);
            if !pend.is_empty() && rng.chance(4, 5) {
                let (p, c, id) = *rng.pick(&pend);
                Op::HIn(p, c, id, k)
            } else if !in_hist.is_empty() {
                let (p, c, id) = *rng.pick(&in_hist);
                Op::HIn(p, c, id, k)
            } else {
                Op::HIn(p, rng.usize(next_c + 1), 1 + rng.below(3), k)
            }
        };
        let handed = w.step(out, &op);
        out_hist.extend(handed);
    }
    out.end();
}

pub fn run(args: &Args, out: &mut Out) {
    if let Some(cases) = args.replay_cases() {
        for (i, (hdr, ops)) in cases.iter().enumerate() {
            let cls = hdr.get(1).map(|s| s.as_str()).unwrap_or("replay");
            let cls = if cls == "realh" { "realh" } else { "replay" };
            let ops: Vec<Op> = ops.iter().map(|t| Op::parse(t)).collect();
            run_case(out, i as u64, cls, true, &ops);
        }
        return;
    }
    let mut idx = 0u64;
    // bounded-exhaustive part: every sequence of length <= L over an alphabet
    if args.count == 0 {
        let full = alphabet(true); // 15 ops
        let core8 = alphabet(false); // 8 ops
        let core5: Vec<Op> = core8[..5].to_vec(); // send, est, closed, dialfail, response
        let (l15, l8, l5) = if args.thorough { (5, 6, 0) } else { (3, 5, 6) };
        for len in 1..=l15 {
            enumerate(out, &mut idx, &full, len, "exh15");
        }
        for len in (l15 + 1)..=l8 {
            enumerate(out, &mut idx, &core8, len, "exh8");
        }
        for len in (l8 + 1)..=l5 {
            enumerate(out, &mut idx, &core5, len, "exh5");
        }
    }
    let n = args.n(1500, 40_000);
    for i in 0..n {
        let mut rng = Rng::for_case(args.seed, i);
        random_case(out, idx, &mut rng, i % 4 == 3);
        idx += 1;
    }
}
