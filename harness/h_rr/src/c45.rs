//! C45 — every request gets exactly one outcome: `request_response::Behaviour` bookkeeping vs the
//! Lean model `C45.step`.
//!
//! The real `Behaviour<Cd>` is driven directly (no Swarm): `send_request`,
//! `handle_established_{in,out}bound_connection` + `on_swarm_event(ConnectionEstablished)`,
//! `on_swarm_event(ConnectionClosed / DialFailure)` with synthetic `ConnectionId`s, and handler
//! events built with the `verif_c45` hook constructors and injected through
//! `on_connection_handler_event`.  Only IN-CONTRACT sequences are generated (`World::in_contract`:
//! what a real Swarm + Handler can deliver — fresh connection ids, handler events only for open
//! connections and, for completions, only for requests that handler holds, delivered before the
//! `ConnectionClosed`; fresh inbound ids); `--replay` executes its ops verbatim.  After every op the behaviour is polled dry (Dial /
//! NotifyHandler / GenerateEvent), the preloaded handler is interrogated, and `is_pending_*` is
//! sampled for every (peer, id).
//!
//! Class `realh` keeps the REAL `Handler` returned by `handle_established_*` per connection, feeds it
//! the behaviour's `NotifyHandler` messages and lets it produce the outbound failure events itself
//! (`DialUpgradeError` → `OutboundTimeout`/`OutboundUnsupportedProtocols`/`OutboundStreamFailed`).
use std::{
    collections::BTreeSet,
    io,
    sync::Arc,
    task::{Context, Poll, Wake, Waker},
};

use futures::prelude::*;
use hcore::{Args, Out, Rng};
use libp2p_core::{transport::PortUse, ConnectedPoint, Endpoint, Multiaddr, PeerId};
use libp2p_request_response::{self as rr, verif_c45 as hk, Codec, ProtocolSupport};
use libp2p_swarm::{
    behaviour::{ConnectionClosed, ConnectionEstablished, DialFailure, FromSwarm},
    dial_opts::PeerCondition,
    handler::{ConnectionEvent, DialUpgradeError, StreamUpgradeError},
    ConnectionHandler, ConnectionHandlerEvent, ConnectionId, DialError, NetworkBehaviour, NotifyHandler, THandler,
    THandlerInEvent, THandlerOutEvent, ToSwarm,
};

const NP: usize = 3;

/// Trivial codec: no stream is ever opened at this level.
#[derive(Clone, Default)]
pub struct Cd;

impl Codec for Cd {
    type Protocol = &'static str;
    type Request = Vec<u8>;
    type Response = Vec<u8>;
    async fn read_request<T: AsyncRead + Unpin + Send>(&mut self, _: &Self::Protocol, _: &mut T) -> io::Result<Vec<u8>> {
        Err(io::Error::other("unused"))
    }
    async fn read_response<T: AsyncRead + Unpin + Send>(&mut self, _: &Self::Protocol, _: &mut T) -> io::Result<Vec<u8>> {
        Err(io::Error::other("unused"))
    }
    async fn write_request<T: AsyncWrite + Unpin + Send>(&mut self, _: &Self::Protocol, _: &mut T, _: Vec<u8>) -> io::Result<()> {
        Err(io::Error::other("unused"))
    }
    async fn write_response<T: AsyncWrite + Unpin + Send>(&mut self, _: &Self::Protocol, _: &mut T, _: Vec<u8>) -> io::Result<()> {
        Err(io::Error::other("unused"))
    }
}

type B = rr::Behaviour<Cd>;
type H = THandler<B>;

struct NoWake;
impl Wake for NoWake {
    fn wake(self: Arc<Self>) {}
}

#[derive(Clone, Debug, PartialEq)]
enum Op {
    Send(usize),
    Est(usize, usize, bool),
    Closed(usize, usize),
    DialFail(Option<usize>, usize, &'static str),
    HOut(usize, usize, u64, &'static str),
    HReq(usize, usize, u64),
    HIn(usize, usize, u64, &'static str),
    /// real handler: fail the oldest request the handler of (p, c) has asked a stream for
    RealFail(usize, usize, &'static str),
}

fn intern(s: &str) -> &'static str {
    for k in [
        "cond", "noaddr", "aborted", "response", "timeout", "unsupported", "io", "sent", "omission", "in", "out",
    ] {
        if k == s {
            return k;
        }
    }
    panic!("replay: unknown token {s}")
}

impl Op {
    fn tok(&self) -> String {
        match self {
            Op::Send(p) => format!("send {p}"),
            Op::Est(p, c, outb) => format!("est {p} {c} {}", if *outb { "out" } else { "in" }),
            Op::Closed(p, c) => format!("closed {p} {c}"),
            Op::DialFail(p, c, k) => format!("dialfail {} {c} {k}", p.map(|x| x.to_string()).unwrap_or("-".into())),
            Op::HOut(p, c, id, k) => format!("hout {p} {c} {id} {k}"),
            Op::HReq(p, c, id) => format!("hreq {p} {c} {id}"),
            Op::HIn(p, c, id, k) => format!("hin {p} {c} {id} {k}"),
            Op::RealFail(p, c, k) => format!("hfail {p} {c} {k}"),
        }
    }
    fn parse(t: &[String]) -> Op {
        let n = |i: usize| t[i].parse::<usize>().unwrap();
        match t[0].as_str() {
            "send" => Op::Send(n(1)),
            "est" => Op::Est(n(1), n(2), t[3] == "out"),
            "closed" => Op::Closed(n(1), n(2)),
            "dialfail" => Op::DialFail(if t[1] == "-" { None } else { Some(n(1)) }, n(2), intern(&t[3])),
            "hout" => Op::HOut(n(1), n(2), n(3) as u64, intern(&t[4])),
            "hreq" => Op::HReq(n(1), n(2), n(3) as u64),
            "hin" => Op::HIn(n(1), n(2), n(3) as u64, intern(&t[4])),
            "realfail" | "hfail" => Op::RealFail(n(1), n(2), intern(&t[3])),
            o => panic!("replay: unknown op {o}"),
        }
    }
}

struct World {
    b: B,
    peers: Vec<PeerId>,
    issued: u64,
    in_ids: BTreeSet<u64>,
    /// number of connections the harness (playing the Swarm) believes open, per peer
    open: Vec<usize>,
    /// real handlers (class realh), by (peer, conn)
    handlers: Vec<(usize, usize, H)>,
    real: bool,
    /// buffered protocol lines of the current case
    lines: Vec<String>,
    /// environment's knowledge (Swarm + handlers): open connections, requests a handler holds,
    /// inbound requests a handler has delivered and not completed, inbound ids used
    env_open: Vec<(usize, usize)>,
    env_conn_used: Vec<usize>,
    env_out: Vec<(usize, usize, u64)>,
    env_in: Vec<(usize, usize, u64)>,
    env_in_used: Vec<u64>,
    channels: Vec<rr::ResponseChannel<Vec<u8>>>,
    receivers: Vec<futures::channel::oneshot::Receiver<Vec<u8>>>,
    waker: Waker,
}

fn peers() -> Vec<PeerId> {
    static P: std::sync::OnceLock<Vec<PeerId>> = std::sync::OnceLock::new();
    P.get_or_init(|| (0..NP).map(|i| hcore::peer(i as u8 + 1)).collect()).clone()
}

fn addr(c: usize) -> Multiaddr {
    format!("/memory/{}", c + 1).parse().unwrap()
}

fn cid_num(c: ConnectionId) -> usize {
    format!("{c}").parse().unwrap()
}

impl World {
    fn new(real: bool) -> World {
        World {
            b: B::new([("/c45/1", ProtocolSupport::Full)], rr::Config::default()),
            peers: peers(),
            issued: 0,
            in_ids: BTreeSet::new(),
            open: vec![0; NP],
            handlers: vec![],
            real,
            lines: vec![],
            env_open: vec![],
            env_conn_used: vec![],
            env_out: vec![],
            env_in: vec![],
            env_in_used: vec![],
            channels: vec![],
            receivers: vec![],
            waker: Waker::from(Arc::new(NoWake)),
        }
    }

    fn pidx(&self, p: &PeerId) -> usize {
        self.peers.iter().position(|x| x == p).expect("unknown peer in output")
    }

    /// poll the behaviour dry; canonical event tokens
    fn drain(&mut self) -> Vec<String> {
        let mut evs = vec![];
        let waker = self.waker.clone();
        let mut cx = Context::from_waker(&waker);
        loop {
            let ev: ToSwarm<rr::Event<Vec<u8>, Vec<u8>>, THandlerInEvent<B>> = match self.b.poll(&mut cx) {
                Poll::Ready(ev) => ev,
                Poll::Pending => break,
            };
            match ev {
                ToSwarm::Dial { opts } => {
                    let p = opts.get_peer_id().map(|p| self.pidx(&p).to_string()).unwrap_or("-".into());
                    evs.push(format!("dial:{p}"));
                }
                ToSwarm::NotifyHandler { peer_id, handler, event } => {
                    let p = self.pidx(&peer_id);
                    let id = hk::message_id(&event);
                    match handler {
                        NotifyHandler::One(c) => {
                            let c = cid_num(c);
                            evs.push(format!("notify:{p}:{c}:{id}"));
                            if self.real {
                                if let Some(h) = self.handlers.iter_mut().find(|h| h.0 == p && h.1 == c) {
                                    h.2.on_behaviour_event(event);
                                }
                            }
                        }
                        NotifyHandler::Any => evs.push(format!("notifyany:{p}:{id}")),
                    }
                }
                ToSwarm::GenerateEvent(e) => evs.push(self.ev_tok(e)),
                _ => evs.push("other".into()),
            }
        }
        evs
    }

    fn ev_tok(&mut self, e: rr::Event<Vec<u8>, Vec<u8>>) -> String {
        match e {
            rr::Event::Message { peer, connection_id, message } => {
                let (p, c) = (self.pidx(&peer), cid_num(connection_id));
                match message {
                    rr::Message::Request { request_id, channel, .. } => {
                        self.channels.push(channel);
                        format!("req:{p}:{c}:{request_id}")
                    }
                    rr::Message::Response { request_id, .. } => format!("resp:{p}:{c}:{request_id}"),
                }
            }
            rr::Event::OutboundFailure { peer, connection_id, request_id, error } => {
                let k = match error {
                    rr::OutboundFailure::DialFailure => "dial",
                    rr::OutboundFailure::Timeout => "timeout",
                    rr::OutboundFailure::ConnectionClosed => "closed",
                    rr::OutboundFailure::UnsupportedProtocols => "unsupported",
                    rr::OutboundFailure::Io(_) => "io",
                };
                format!("of:{}:{}:{request_id}:{k}", self.pidx(&peer), cid_num(connection_id))
            }
            rr::Event::InboundFailure { peer, connection_id, request_id, error } => {
                let k = match error {
                    rr::InboundFailure::Timeout => "timeout",
                    rr::InboundFailure::ConnectionClosed => "closed",
                    rr::InboundFailure::UnsupportedProtocols => "unsupported",
                    rr::InboundFailure::ResponseOmission => "omission",
                    rr::InboundFailure::Io(_) => "io",
                };
                format!("if:{}:{}:{request_id}:{k}", self.pidx(&peer), cid_num(connection_id))
            }
            rr::Event::ResponseSent { peer, connection_id, request_id } => {
                format!("sent:{}:{}:{request_id}", self.pidx(&peer), cid_num(connection_id))
            }
        }
    }

    /// ids the freshly built handler was preloaded with, in order: the handler asks for one
    /// outbound stream per message; failing each negotiation makes it name the request id.
    fn preloaded(&self, h: &mut H) -> Vec<u64> {
        let mut cx = Context::from_waker(&self.waker);
        let mut n = 0;
        let mut ids = vec![];
        loop {
            match h.poll(&mut cx) {
                Poll::Ready(ConnectionHandlerEvent::OutboundSubstreamRequest { .. }) => n += 1,
                Poll::Ready(ConnectionHandlerEvent::NotifyBehaviour(e)) => ids.push(hk::ev_kind(&e).1),
                Poll::Ready(_) => {}
                Poll::Pending => {
                    if n == 0 {
                        break;
                    }
                    n -= 1;
                    h.on_connection_event(ConnectionEvent::DialUpgradeError(DialUpgradeError {
                        info: (),
                        error: StreamUpgradeError::Timeout,
                    }));
                }
            }
        }
        ids
    }

    fn inject(&mut self, p: usize, c: usize, ev: THandlerOutEvent<B>) {
        let peer = self.peers[p];
        self.b.on_connection_handler_event(peer, ConnectionId::new_unchecked(c), ev);
    }

    /// returns (ret, pre, panic)
    fn apply(&mut self, op: &Op) -> (Option<u64>, Vec<u64>, Option<String>) {
        let mut ret = None;
        let mut pre = vec![];
        let r = hcore::guarded(|| match op.clone() {
            Op::Send(p) => {
                let peer = self.peers[p];
                let id = self.b.send_request(&peer, vec![p as u8]);
                let id: u64 = format!("{id}").parse().unwrap();
                self.issued = self.issued.max(id);
                ret = Some(id);
            }
            Op::Est(p, c, outb) => {
                let peer = self.peers[p];
                let queued: Vec<u64> = (1..=self.issued)
                    .filter(|id| {
                        self.b.is_pending_outbound(&peer, &hk::outbound_id(*id))
                            && !self.env_out.iter().any(|x| x.0 == p && x.2 == *id)
                    })
                    .collect();
                let cid = ConnectionId::new_unchecked(c);
                let (a_local, a_remote) = (addr(0), addr(c));
                let (mut h, cp) = if outb {
                    let h = self
                        .b
                        .handle_established_outbound_connection(cid, peer, &a_remote, Endpoint::Dialer, PortUse::Reuse)
                        .unwrap_or_else(|_| panic!("denied"));
                    (h, ConnectedPoint::Dialer { address: a_remote.clone(), role_override: Endpoint::Dialer, port_use: PortUse::Reuse })
                } else {
                    let h = self
                        .b
                        .handle_established_inbound_connection(cid, peer, &a_local, &a_remote)
                        .unwrap_or_else(|_| panic!("denied"));
                    (h, ConnectedPoint::Listener { local_addr: a_local.clone(), send_back_addr: a_remote.clone() })
                };
                let other = self.open[p];
                self.b.on_swarm_event(FromSwarm::ConnectionEstablished(ConnectionEstablished {
                    peer_id: peer,
                    connection_id: cid,
                    endpoint: &cp,
                    failed_addresses: &[],
                    other_established: other,
                }));
                self.open[p] += 1;
                if self.real {
                    // the real handler keeps its preloaded messages: count its stream requests; the
                    // ids are the ones that were queued for `p` (pending, held by no handler)
                    let mut cx = Context::from_waker(&self.waker);
                    let mut n = 0;
                    while let Poll::Ready(e) = h.poll(&mut cx) {
                        if let ConnectionHandlerEvent::OutboundSubstreamRequest { .. } = e {
                            n += 1;
                        }
                    }
                    pre = queued;
                    assert_eq!(n, pre.len(), "handler asked for {n} streams, {} requests were queued", pre.len());
                    self.handlers.push((p, c, h));
                } else {
                    pre = self.preloaded(&mut h);
                }
            }
            Op::Closed(p, c) => {
                let peer = self.peers[p];
                let cp = ConnectedPoint::Listener { local_addr: addr(0), send_back_addr: addr(c) };
                let remaining = self.open[p].saturating_sub(1);
                self.b.on_swarm_event(FromSwarm::ConnectionClosed(ConnectionClosed {
                    peer_id: peer,
                    connection_id: ConnectionId::new_unchecked(c),
                    endpoint: &cp,
                    cause: None,
                    remaining_established: remaining,
                }));
                // only reached when the behaviour knew the connection
                self.open[p] = remaining;
                if let Some(i) = self.handlers.iter().position(|h| h.0 == p && h.1 == c) {
                    self.handlers.remove(i);
                }
            }
            Op::DialFail(p, c, k) => {
                let err = match k {
                    "cond" => DialError::DialPeerConditionFalse(PeerCondition::DisconnectedAndNotDialing),
                    "noaddr" => DialError::NoAddresses,
                    _ => DialError::Aborted,
                };
                self.b.on_swarm_event(FromSwarm::DialFailure(DialFailure {
                    peer_id: p.map(|p| self.peers[p]),
                    error: &err,
                    connection_id: ConnectionId::new_unchecked(c),
                }));
            }
            Op::HOut(p, c, id, k) => {
                let ev = match k {
                    "response" => hk::ev_response::<Cd>(id, vec![1]),
                    "timeout" => hk::ev_outbound_timeout::<Cd>(id),
                    "unsupported" => hk::ev_outbound_unsupported::<Cd>(id),
                    _ => hk::ev_outbound_stream_failed::<Cd>(id, io::Error::other("x")),
                };
                self.inject(p, c, ev);
            }
            Op::HReq(p, c, id) => {
                self.in_ids.insert(id);
                let (ev, rx) = hk::ev_request::<Cd>(id, vec![2]);
                self.receivers.push(rx);
                self.inject(p, c, ev);
            }
            Op::HIn(p, c, id, k) => {
                let ev = match k {
                    "sent" => hk::ev_response_sent::<Cd>(id),
                    "omission" => hk::ev_response_omission::<Cd>(id),
                    "timeout" => hk::ev_inbound_timeout::<Cd>(id),
                    _ => hk::ev_inbound_stream_failed::<Cd>(id, io::Error::other("y")),
                };
                self.inject(p, c, ev);
            }
            Op::RealFail(..) => unreachable!("resolved before apply"),
        });
        (ret, pre, r.err())
    }

    /// class realh, handler-level op `hfail p c k`: the negotiation of the oldest outbound stream the
    /// real handler of (p, c) has requested fails with `k` while the connection stays open.
    /// impl line: `hev=<kind>:<id>` = the event the handler then reports, `hev=none` if it reports
    /// nothing.  The event (if any) is returned as the behaviour-level op to perform next.
    fn real_fail(&mut self, p: usize, c: usize, k: &'static str) -> Option<Op> {
        self.lines.push(format!("op hfail {p} {c} {k}"));
        let waker = self.waker.clone();
        let mut cx = Context::from_waker(&waker);
        let Some(h) = self.handlers.iter_mut().find(|h| h.0 == p && h.1 == c) else {
            self.lines.push("impl hev=none".into());
            return None;
        };
        // let the handler request streams for everything it holds
        let mut produced = vec![];
        loop {
            match h.2.poll(&mut cx) {
                Poll::Ready(ConnectionHandlerEvent::NotifyBehaviour(e)) => produced.push(e),
                Poll::Ready(_) => {}
                Poll::Pending => break,
            }
        }
        if !produced.is_empty() {
            let (kind, id) = hk::ev_kind(&produced[0]);
            self.lines.push(format!("impl hev=spontaneous:{kind}:{id}"));
            return None;
        }
        let r = hcore::guarded(|| {
            h.2.on_connection_event(ConnectionEvent::DialUpgradeError(DialUpgradeError {
                info: (),
                error: match k {
                    "timeout" => StreamUpgradeError::Timeout,
                    "unsupported" => StreamUpgradeError::NegotiationFailed,
                    _ => StreamUpgradeError::Io(io::Error::other("z")),
                },
            }))
        });
        if let Err(m) = r {
            self.lines.push(format!("impl hev=panic:{m}"));
            return None;
        }
        match h.2.poll(&mut cx) {
            Poll::Ready(ConnectionHandlerEvent::NotifyBehaviour(e)) => {
                let (kind, id) = hk::ev_kind(&e);
                let k2 = match kind {
                    "outTimeout" => "timeout",
                    "outUnsupported" => "unsupported",
                    "outStreamFailed" => "io",
                    "response" => "response",
                    other => {
                        self.lines.push(format!("impl hev=other:{other}:{id}"));
                        return None;
                    }
                };
                self.lines.push(format!("impl hev={k2}:{id}"));
                Some(Op::HOut(p, c, id, k2))
            }
            _ => {
                self.lines.push("impl hev=none".into());
                None
            }
        }
    }

    fn snapshot(&self) -> (String, String) {
        let mut po = vec![];
        let mut pi = vec![];
        for p in 0..NP {
            for id in 1..=self.issued {
                if self.b.is_pending_outbound(&self.peers[p], &hk::outbound_id(id)) {
                    po.push(format!("{p}:{id}"));
                }
            }
            for id in &self.in_ids {
                if self.b.is_pending_inbound(&self.peers[p], &hk::inbound_id(*id)) {
                    pi.push(format!("{p}:{id}"));
                }
            }
        }
        (hcore::list(&po), hcore::list(&pi))
    }

    /// The environment contract (what a real Swarm + Handler can deliver): connection ids are
    /// fresh; `ConnectionClosed` and handler events only for an open connection; a completion event
    /// only for a request the handler of that connection holds; `Request` ids are fresh.
    fn in_contract(&self, op: &Op) -> bool {
        match op {
            Op::Send(_) | Op::DialFail(..) => true,
            // a negotiation can only fail for a stream the handler asked for
            Op::RealFail(p, c, _) => self.env_out.iter().any(|x| x.0 == *p && x.1 == *c),
            Op::Est(_, c, _) => !self.env_conn_used.contains(c),
            Op::Closed(p, c) => self.env_open.contains(&(*p, *c)),
            Op::HOut(p, c, id, _) => self.env_out.contains(&(*p, *c, *id)),
            Op::HReq(p, c, id) => self.env_open.contains(&(*p, *c)) && !self.env_in_used.contains(id),
            Op::HIn(p, c, id, k) => {
                self.env_open.contains(&(*p, *c))
                    && (self.env_in.contains(&(*p, *c, *id))
                        // the stream failed / timed out before the request was read: an id the
                        // behaviour never saw (and never will)
                        || ((*k == "timeout" || *k == "io") && !self.env_in_used.contains(id)))
            }
        }
    }

    fn env_update(&mut self, op: &Op, handed: &[(usize, usize, u64)]) {
        match op {
            Op::Est(p, c, _) => {
                self.env_open.push((*p, *c));
                self.env_conn_used.push(*c);
            }
            Op::Closed(p, c) => {
                self.env_open.retain(|x| x != &(*p, *c));
                self.env_out.retain(|x| !(x.0 == *p && x.1 == *c));
                self.env_in.retain(|x| !(x.0 == *p && x.1 == *c));
            }
            Op::HOut(p, c, id, _) => self.env_out.retain(|x| x != &(*p, *c, *id)),
            Op::HReq(p, c, id) => {
                self.env_in_used.push(*id);
                self.env_in.push((*p, *c, *id));
            }
            Op::HIn(p, c, id, _) => {
                if !self.env_in_used.contains(id) {
                    self.env_in_used.push(*id);
                }
                self.env_in.retain(|x| x != &(*p, *c, *id));
            }
            _ => {}
        }
        self.env_out.extend_from_slice(handed);
    }

    /// performs one op; returns the `(p, c, id)` triples of requests handed to a handler by it
    fn step(&mut self, op: &Op) -> Vec<(usize, usize, u64)> {
        let op = match op {
            Op::RealFail(p, c, k) => match self.real_fail(*p, *c, k) {
                Some(o) => o,
                None => return vec![],
            },
            o => o.clone(),
        };
        self.lines.push(format!("op {}", op.tok()));
        let (ret, pre, panic) = self.apply(&op);
        let mut evs = self.drain();
        if let Op::Closed(..) = op {
            // HashSet iteration order: canonicalise (inbound failures first, then outbound, by id)
            evs.sort_by_key(|e| {
                let t: Vec<&str> = e.split(':').collect();
                (if t[0] == "if" { 0 } else { 1 }, t.get(3).and_then(|x| x.parse::<u64>().ok()).unwrap_or(0))
            });
        }
        let (po, pi) = self.snapshot();
        let mut handed = vec![];
        if let Op::Est(p, c, _) = op {
            handed.extend(pre.iter().map(|id| (p, c, *id)));
        }
        for e in &evs {
            let t: Vec<&str> = e.split(':').collect();
            if t[0] == "notify" {
                handed.push((t[1].parse().unwrap(), t[2].parse().unwrap(), t[3].parse().unwrap()));
            }
        }
        let pre_tok = hcore::list(&pre);
        self.lines.push(format!(
            "impl ret={} pre={} evs={} panic={} po={} pi={}",
            ret.map(|x| x.to_string()).unwrap_or("-".into()),
            pre_tok,
            hcore::list(&evs),
            panic.unwrap_or("-".into()),
            po,
            pi
        ));
        self.env_update(&op, &handed);
        handed
    }

    /// `step` under `catch_unwind`: a panic of library or harness code outside the guarded calls
    /// becomes the implementation's output of that op (`impl harness-panic <msg>`, a Spec failure)
    /// and ends the case.  Returns false when the case must stop.
    fn step_guarded(&mut self, op: &Op) -> bool {
        match hcore::guarded(|| self.step(op)) {
            Ok(_) => true,
            Err(m) => {
                if !self.lines.last().map(|l| l.starts_with("op ")).unwrap_or(false) {
                    self.lines.push(format!("op {}", op.tok()));
                }
                self.lines.push(format!("impl harness-panic {m}"));
                false
            }
        }
    }

    fn flush(&mut self, out: &mut Out) {
        for l in self.lines.drain(..) {
            out.raw(&l);
        }
    }
}

/// `strict`: the case is emitted only if every op is in-contract (returns false otherwise)
fn run_case(out: &mut Out, idx: u64, cls: &str, nt: bool, ops: &[Op], strict: bool) -> bool {
    let real = cls == "realh";
    let mut w = World::new(real);
    for op in ops {
        if strict && !w.in_contract(op) {
            return false;
        }
        // in a realh replay the `hout` lines are regenerated by the `hfail` ops
        if real && !strict && matches!(op, Op::HOut(..)) {
            continue;
        }
        if !w.step_guarded(op) {
            break;
        }
    }
    out.case(idx, &format!("{cls} nt={} dbg={} np={NP} real={}", nt as u8, cfg!(debug_assertions) as u8, real as u8));
    w.flush(out);
    out.end();
    true
}

/// alphabet for the bounded-exhaustive enumeration: one peer, two connections, ids 1 and 2
fn alphabet(full: bool) -> Vec<Op> {
    let mut a = vec![
        Op::Send(0),
        Op::Est(0, 1, true),
        Op::Closed(0, 1),
        Op::DialFail(Some(0), 9, "noaddr"),
        Op::HOut(0, 1, 1, "response"),
        Op::HReq(0, 1, 1),
        Op::HIn(0, 1, 1, "sent"),
        Op::Est(0, 2, false),
    ];
    if full {
        a.extend([
            Op::Closed(0, 2),
            Op::DialFail(Some(0), 9, "cond"),
            Op::HOut(0, 1, 1, "timeout"),
            Op::HOut(0, 2, 1, "io"),
            Op::HOut(0, 1, 2, "unsupported"),
            Op::HIn(0, 1, 1, "timeout"),
            Op::HIn(0, 2, 1, "omission"),
        ]);
    }
    a
}

fn enumerate(out: &mut Out, idx: &mut u64, alpha: &[Op], len: usize, cls: &str) {
    let n = alpha.len();
    let mut digits = vec![0usize; len];
    loop {
        let ops: Vec<Op> = digits.iter().map(|d| alpha[*d].clone()).collect();
        let nt = ops.iter().any(|o| matches!(o, Op::Send(_) | Op::HReq(..)));
        if run_case(out, *idx, cls, nt, &ops, true) {
            *idx += 1;
        }
        let mut i = 0;
        loop {
            if i == len {
                return;
            }
            digits[i] += 1;
            if digits[i] < n {
                break;
            }
            digits[i] = 0;
            i += 1;
        }
    }
}

/// random in-contract interleavings over 3 peers: requests queued / routed to connections,
/// connections opening and closing with requests in flight (handler events delivered BEFORE the
/// `ConnectionClosed`, as the Swarm's per-connection FIFO guarantees), dial failures of every
/// kind, every completion kind, inbound requests, stream failures before a request was read.
fn random_case(out: &mut Out, idx: u64, rng: &mut Rng, real: bool) {
    let cls = if real { "realh" } else { "random" };
    let mut w = World::new(real);
    let len = 8 + rng.usize(40);
    let mut next_c = 1usize;
    let mut next_in = 1u64;
    let outk = ["response", "timeout", "unsupported", "io"];
    let ink = ["sent", "omission", "timeout", "io"];
    for _ in 0..len {
        let p = if rng.chance(3, 4) { 0 } else { rng.usize(NP) };
        let roll = rng.usize(100);
        let op = if roll < 24 {
            Op::Send(p)
        } else if roll < 38 {
            let c = next_c;
            next_c += 1;
            Op::Est(p, c, rng.bool())
        } else if roll < 48 {
            if w.env_open.is_empty() {
                Op::Send(p)
            } else {
                let (p, c) = *rng.pick(&w.env_open);
                Op::Closed(p, c)
            }
        } else if roll < 56 {
            let k = *rng.pick(&["cond", "noaddr", "aborted", "noaddr"]);
            Op::DialFail(if rng.chance(1, 10) { None } else { Some(p) }, 100 + rng.usize(5), k)
        } else if roll < 76 {
            // outbound completion
            if real {
                if w.env_out.is_empty() {
                    Op::Send(p)
                } else {
                    let (p, c, _) = *rng.pick(&w.env_out);
                    Op::RealFail(p, c, *rng.pick(&["timeout", "unsupported", "io", "io"]))
                }
            } else if w.env_out.is_empty() {
                Op::Send(p)
            } else {
                let (p, c, id) = *rng.pick(&w.env_out);
                Op::HOut(p, c, id, *rng.pick(&outk))
            }
        } else if roll < 88 {
            // inbound request on an open connection, fresh id
            if w.env_open.is_empty() {
                Op::Est(p, { next_c += 1; next_c - 1 }, false)
            } else {
                let (p, c) = *rng.pick(&w.env_open);
                let id = next_in;
                next_in += 1 + rng.below(2);
                Op::HReq(p, c, id)
            }
        } else if !w.env_in.is_empty() && rng.chance(5, 6) {
            let (p, c, id) = *rng.pick(&w.env_in);
            Op::HIn(p, c, id, *rng.pick(&ink))
        } else if !w.env_open.is_empty() {
            // inbound stream failed / timed out before its request was read
            let (p, c) = *rng.pick(&w.env_open);
            let id = next_in;
            next_in += 1;
            Op::HIn(p, c, id, *rng.pick(&["timeout", "io"]))
        } else {
            Op::Send(p)
        };
        if !w.in_contract(&op) {
            continue;
        }
        if !w.step_guarded(&op) {
            break;
        }
    }
    out.case(idx, &format!("{cls} nt=1 dbg={} np={NP} real={}", cfg!(debug_assertions) as u8, real as u8));
    w.flush(out);
    out.end();
}

pub fn run(args: &Args, out: &mut Out) {
    if let Some(cases) = args.replay_cases() {
        for (i, (hdr, ops)) in cases.iter().enumerate() {
            let cls = hdr.get(1).map(|s| s.as_str()).unwrap_or("replay");
            let cls = if cls == "realh" { "realh" } else { "replay" };
            let ops: Vec<Op> = ops.iter().map(|t| Op::parse(t)).collect();
            run_case(out, i as u64, cls, true, &ops, false);
        }
        return;
    }
    let mut idx = 0u64;
    // bounded-exhaustive part: every sequence of length <= L over an alphabet
    if args.count == 0 {
        let full = alphabet(true); // 15 ops
        let core8 = alphabet(false); // 8 ops
        let core5: Vec<Op> = core8[..5].to_vec(); // send, est, closed, dialfail, response
        let (l15, l8, l5) = if args.thorough { (5, 7, 8) } else { (4, 6, 7) };
        for len in 1..=l15 {
            enumerate(out, &mut idx, &full, len, "exh15");
        }
        for len in (l15 + 1)..=l8 {
            enumerate(out, &mut idx, &core8, len, "exh8");
        }
        for len in (l8 + 1)..=l5 {
            enumerate(out, &mut idx, &core5, len, "exh5");
        }
    }
    // handler-level: every in-contract sequence with the REAL handler: negotiation failures of every
    // kind while the connection stays open, followed by further requests on the same connection
    if args.count == 0 {
        let hl = vec![
            Op::Send(0),
            Op::Est(0, 1, true),
            Op::RealFail(0, 1, "io"),
            Op::RealFail(0, 1, "timeout"),
            Op::RealFail(0, 1, "unsupported"),
            Op::Closed(0, 1),
            Op::DialFail(Some(0), 9, "noaddr"),
        ];
        for len in 1..=(if args.thorough { 7 } else { 6 }) {
            enumerate(out, &mut idx, &hl, len, "realh");
        }
    }
    let n = args.n(1500, 40_000);
    for i in 0..n {
        let mut rng = Rng::for_case(args.seed, i);
        random_case(out, idx, &mut rng, i % 4 == 3);
        idx += 1;
    }
}
