//! Harness binary `h_rr <PROP> --seed S --tier T [--count N] [--replay F]`.
//! One module per property (`cNN.rs`, `pub fn run(args: &hcore::Args, out: &mut hcore::Out)`).
mod c45;

fn main() {
    let args = hcore::Args::parse();
    hcore::quiet_panics();
    let mut out = hcore::Out::new();
    match args.prop.as_str() {
        "C45" => c45::run(&args, &mut out),
        p => {
            eprintln!("h_rr: unknown property {p}");
            std::process::exit(2);
        }
    }
    out.flush();
}
