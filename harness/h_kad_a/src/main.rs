//! Harness binary `h_kad_a <PROP> --seed S --tier T [--count N] [--replay F]`.
//! One module per property (`cNN.rs`, `pub fn run(args: &hcore::Args, out: &mut hcore::Out)`).

mod c37;
mod c38;
mod c40;

fn main() {
    let args = hcore::Args::parse();
    hcore::quiet_panics();
    let mut out = hcore::Out::new();
    match args.prop.as_str() {
        "C37" => c37::run(&args, &mut out),
        "C38" => c38::run(&args, &mut out),
        "C40" => c40::run(&args, &mut out),
        p => {
            let _ = &mut out;
            eprintln!("h_kad_a: unknown property {p}");
            std::process::exit(2);
        }
    }
    #[allow(unreachable_code)]
    out.flush();
}
