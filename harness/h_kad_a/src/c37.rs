//! C37 — the k-bucket routing table (`KBucket::{insert, update, remove, apply_pending, …}`,
//! `Entry` API, `KBucketsTable::{entry, bucket, iter, take_applied_pending}`) on raw 256-bit keys
//! vs the Lean model `C37`. Time is a virtual monotonic clock (this binary's `clock_gettime`).
use std::collections::HashMap;
use std::num::NonZeroUsize;
use std::sync::atomic::{AtomicBool, AtomicU64, Ordering};
use std::time::Duration;

use hcore::{hex, Args, Out, Rng};
use libp2p_kad::verif_c37::VerifEntry;
use libp2p_kad::verif_c38::{VerifInsert, VerifTable};
use libp2p_kad::verif_c40::{self as raw, KeyBytes};
use libp2p_kad::{NodeStatus, U256};

// ---------------------------------------------------------------- virtual clock
pub(crate) static VIRTUAL: AtomicBool = AtomicBool::new(false);
/// virtual CLOCK_MONOTONIC in seconds (does not flow by itself)
pub(crate) static VNOW_S: AtomicU64 = AtomicU64::new(1_000_000);

extern "C" {
    fn __clock_gettime(clk: i32, ts: *mut [i64; 2]) -> i32;
}

/// `std::time::Instant::now()` reads CLOCK_MONOTONIC (= 1) through this symbol.
#[no_mangle]
pub unsafe extern "C" fn clock_gettime(clk: i32, ts: *mut [i64; 2]) -> i32 {
    if clk == 1 && VIRTUAL.load(Ordering::SeqCst) {
        (*ts)[0] = VNOW_S.load(Ordering::SeqCst) as i64;
        (*ts)[1] = 0;
        0
    } else {
        __clock_gettime(clk, ts)
    }
}

// ---------------------------------------------------------------- helpers
pub(crate) fn key(x: U256) -> KeyBytes {
    raw::key_from_raw(x.to_big_endian())
}
pub(crate) fn h(x: U256) -> String {
    hex(&x.to_big_endian())
}
pub(crate) fn parse(s: &str) -> U256 {
    U256::from_big_endian(&hcore::unhex(s))
}
fn st_tok(s: NodeStatus) -> &'static str {
    match s {
        NodeStatus::Connected => "c",
        NodeStatus::Disconnected => "d",
    }
}
fn st_of(s: &str) -> NodeStatus {
    if s == "c" {
        NodeStatus::Connected
    } else {
        NodeStatus::Disconnected
    }
}

pub(crate) struct Case {
    pub(crate) local: U256,
    pub(crate) keys: Vec<U256>,
    names: HashMap<[u8; 32], String>,
    pub(crate) table: VerifTable,
}

impl Case {
    pub(crate) fn new(local: U256, bsize: usize, timeout: u64, keys: Vec<U256>) -> Case {
        let mut names = HashMap::new();
        for (i, k) in keys.iter().enumerate().rev() {
            names.insert(k.to_big_endian(), i.to_string());
        }
        names.insert(local.to_big_endian(), "L".to_string());
        VNOW_S.store(1_000_000, Ordering::SeqCst);
        let table = VerifTable::new(key(local), NonZeroUsize::new(bsize).unwrap(), Duration::from_secs(timeout));
        Case { local, keys, names, table }
    }

    pub(crate) fn header(&self, bsize: usize, timeout: u64) -> String {
        format!(
            "local={} bsize={} timeout={} keys={}",
            h(self.local),
            bsize,
            timeout,
            self.keys.iter().map(|k| h(*k)).collect::<Vec<_>>().join(",")
        )
    }

    fn key_of(&self, tok: &str) -> KeyBytes {
        if tok == "L" {
            key(self.local)
        } else {
            key(self.keys[tok.parse::<usize>().unwrap()])
        }
    }

    fn name(&self, k: &KeyBytes) -> String {
        self.names.get(&raw::key_raw(k)).cloned().unwrap_or_else(|| "?".into())
    }

    fn entry_tok(e: &VerifEntry) -> String {
        match e {
            VerifEntry::Local => "local".into(),
            VerifEntry::Absent => "absent".into(),
            VerifEntry::Present { value, status } => format!("present:{}:{}", st_tok(*status), value),
            VerifEntry::Pending { value, status } => format!("pendingentry:{}:{}", st_tok(*status), value),
        }
    }

    fn info_tok(l: &[(usize, usize, bool)]) -> String {
        let v: Vec<String> = l
            .iter()
            .filter(|(_, n, hp)| *n > 0 || *hp)
            .map(|(i, n, hp)| format!("{}.{}.{}", i, n, *hp as u8))
            .collect();
        if v.is_empty() {
            "info:-".into()
        } else {
            format!("info:{}", v.join(","))
        }
    }

    pub(crate) fn run_op(&mut self, op: &[String]) -> String {
        let res = match op[0].as_str() {
            "ins" => {
                let k = self.key_of(&op[1]);
                let v: u32 = op[2].parse().unwrap();
                // the entry kind a non-absent key resolves to is reported by `lookup` semantics:
                match self.table.insert(&k, v, st_of(&op[3])) {
                    VerifInsert::Local => "local".to_string(),
                    VerifInsert::Present | VerifInsert::PendingPresent => {
                        // `entry()` was already called (and pending applied) by `insert`; a second
                        // `entry()` call at the same instant cannot apply anything else
                        Self::entry_tok(&self.table.lookup(&k))
                    }
                    VerifInsert::Inserted => "inserted".to_string(),
                    VerifInsert::Full => "full".to_string(),
                    VerifInsert::Pending(d) => format!("pending:{}", self.name(&d)),
                }
            }
            "upd" => {
                let k = self.key_of(&op[1]);
                Self::entry_tok(&self.table.update(&k, st_of(&op[2])))
            }
            "rem" => {
                let k = self.key_of(&op[1]);
                match self.table.remove(&k) {
                    (VerifEntry::Present { .. }, Some((v, s))) => format!("removed:{}:{}", v, st_tok(s)),
                    (VerifEntry::Pending { .. }, Some((v, s))) => format!("removedpending:{}:{}", v, st_tok(s)),
                    (e, _) => Self::entry_tok(&e),
                }
            }
            "look" => {
                let k = self.key_of(&op[1]);
                Self::entry_tok(&self.table.lookup(&k))
            }
            "bkt" => {
                let k = self.key_of(&op[1]);
                match self.table.bucket_info(&k) {
                    None => "local".to_string(),
                    Some((i, n, hp)) => format!("info:{}.{}.{}", i, n, hp as u8),
                }
            }
            "iter" => Self::info_tok(&self.table.iter_info()),
            "adv" => {
                VNOW_S.fetch_add(op[1].parse::<u64>().unwrap(), Ordering::SeqCst);
                "ok".to_string()
            }
            other => panic!("unknown op {other}"),
        };
        let mut aps = vec![];
        while let Some(((ik, iv), ev)) = self.table.take_applied_pending() {
            aps.push(format!(
                "{}.{}/{}",
                self.name(&ik),
                iv,
                ev.map_or("none".to_string(), |(ek, evv)| format!("{}.{}", self.name(&ek), evv))
            ));
        }
        let ap = if aps.is_empty() { "ap=-".to_string() } else { format!("ap={}", aps.join(",")) };
        let mut toks = vec![res, ap, "#".to_string()];
        for b in self.table.raw_dump() {
            let ns: Vec<String> =
                b.nodes.iter().map(|(k, v, s)| format!("{}.{}{}", self.name(k), v, st_tok(*s))).collect();
            let p = b.pending.map_or("-".to_string(), |(k, v, s)| format!("{}.{}{}", self.name(&k), v, st_tok(s)));
            toks.push(format!("B{}={};{}", b.index, if ns.is_empty() { "-".to_string() } else { ns.join(",") }, p));
        }
        toks.join(" ")
    }

    fn op(&mut self, out: &mut Out, op: &[String]) {
        out.op(&op.join(" "));
        match hcore::guarded(|| self.run_op(op)) {
            Ok(s) => out.imp(&s),
            Err(m) => out.imp(&format!("panic {m}")),
        }
    }
}

pub(crate) fn s(v: &[&str]) -> Vec<String> {
    v.iter().map(|x| x.to_string()).collect()
}

/// key universe: keys concentrated in a few buckets around `local`
pub(crate) fn universe(rng: &mut Rng, local: U256, buckets: &[usize], per_bucket: usize) -> Vec<U256> {
    let mut keys = vec![];
    for &i in buckets {
        let top = U256::one() << i;
        let room: u64 = if i >= 20 { 1 << 20 } else { 1u64 << i };
        let mut lows: Vec<u64> = vec![];
        for _ in 0..per_bucket.min(room as usize) {
            let mut l = rng.below(room);
            while lows.contains(&l) {
                l = (l + 1) % room;
            }
            lows.push(l);
        }
        for l in lows {
            // spread the low part: low bits, or bits just below the top bit
            let low = if i >= 40 && rng.bool() { U256::from(l) << (i - 20) } else { U256::from(l) };
            keys.push(local ^ (top | low));
        }
    }
    keys
}

fn gen_case(out: &mut Out, idx: u64, seed: u64) {
    let mut rng = Rng::for_case(seed, idx);
    let local = match rng.usize(4) {
        0 => U256::zero(),
        1 => U256::MAX,
        _ => U256::from_big_endian(&rng.bytes(32)),
    };
    let bsize = 1 + rng.usize(3);
    let timeout = *rng.pick(&[1u64, 5, 60]);
    let palette = [0usize, 1, 2, 3, 7, 8, 128, 254, 255];
    let nb = 1 + rng.usize(3);
    let mut buckets: Vec<usize> = vec![];
    while buckets.len() < nb {
        let b = *rng.pick(&palette);
        if !buckets.contains(&b) {
            buckets.push(b);
        }
    }
    let per_bucket = 2 + rng.usize(5);
    let keys = universe(&mut rng, local, &buckets, per_bucket);
    let long = rng.chance(1, 10);
    let nops = 20 + rng.usize(if long { 280 } else { 100 });
    let mut case = Case::new(local, bsize, timeout, keys.clone());
    out.case(idx, &format!("random nt=1 {}", case.header(bsize, timeout)));
    let nk = keys.len();
    for _ in 0..nops {
        let k = if rng.chance(1, 40) { "L".to_string() } else { rng.usize(nk).to_string() };
        let st = if rng.chance(3, 5) { "c" } else { "d" };
        let op = match rng.usize(20) {
            0..=6 => s(&["ins", &k, &rng.below(100).to_string(), st]),
            7..=10 => s(&["upd", &k, st]),
            11..=12 => s(&["rem", &k]),
            13 => s(&["look", &k]),
            14 => s(&["bkt", &k]),
            15 => s(&["iter"]),
            _ => {
                let n = *rng.pick(&[0, 1, timeout.saturating_sub(1), timeout, timeout, timeout + 1, 3 * timeout]);
                s(&["adv", &n.to_string()])
            }
        };
        case.op(out, &op);
    }
    out.end();
}

/// all op sequences of exactly `len` ops over 3 keys of one bucket of size 2, timeout 5
fn exhaustive(out: &mut Out, idx: &mut u64, len: usize) {
    let local = U256::from(0x1234_5678u64) << 64;
    let keys = vec![local ^ U256::from(4), local ^ U256::from(5), local ^ U256::from(7)];
    let mut alphabet: Vec<Vec<String>> = vec![];
    for k in 0..3 {
        for st in ["c", "d"] {
            alphabet.push(s(&["ins", &k.to_string(), &k.to_string(), st]));
            alphabet.push(s(&["upd", &k.to_string(), st]));
        }
        alphabet.push(s(&["rem", &k.to_string()]));
    }
    alphabet.push(s(&["adv", "5"]));
    alphabet.push(s(&["iter"]));
    let n = alphabet.len();
    let total = n.pow(len as u32);
    for code in 0..total {
        let mut case = Case::new(local, 2, 5, keys.clone());
        out.case(*idx, &format!("exhaustive{} nt=1 {}", len, case.header(2, 5)));
        let mut c = code;
        for _ in 0..len {
            case.op(out, &alphabet[c % n]);
            c /= n;
        }
        out.end();
        *idx += 1;
    }
}

pub fn run(args: &Args, out: &mut Out) {
    VIRTUAL.store(true, Ordering::SeqCst);
    if let Some(cases) = args.replay_cases() {
        for (i, (hdr, ops)) in cases.iter().enumerate() {
            let get = |name: &str| hdr.iter().find_map(|t| t.strip_prefix(&format!("{name}=")).map(|v| v.to_string()));
            let local = get("local").map(|v| parse(&v)).unwrap_or(U256::zero());
            let bsize: usize = get("bsize").and_then(|v| v.parse().ok()).unwrap_or(20);
            let timeout: u64 = get("timeout").and_then(|v| v.parse().ok()).unwrap_or(60);
            let keys: Vec<U256> = get("keys").map(|v| v.split(',').filter(|x| x.len() == 64).map(parse).collect()).unwrap_or_default();
            let mut case = Case::new(local, bsize, timeout, keys);
            out.case(i as u64, &format!("replay nt=1 {}", case.header(bsize, timeout)));
            for op in ops {
                case.op(out, op);
            }
            out.end();
        }
        return;
    }
    let mut idx = 0u64;
    exhaustive(out, &mut idx, if args.thorough { 4 } else { 3 });
    let n = args.n(300, 4_000);
    for _ in 0..n {
        gen_case(out, idx, args.seed);
        idx += 1;
    }
}
