//! C40 — `KeyBytes::distance`, `for_distance`, `Distance::ilog2`, `BucketIndex::{new, range}`,
//! `KBucketRef::contains`, `Ord for Distance` vs the Lean model `C40`.
//! Keys are raw 32-byte strings (hook `verif_c40::key_from_raw`), distances are `U256`s printed
//! as 32 bytes big-endian.
use hcore::{hex, Args, Out, Rng};
use libp2p_kad::verif_c40::{self as hook, KeyBytes};
use libp2p_kad::{KBucketDistance as Distance, U256};

type Raw = [u8; 32];

fn u(raw: &Raw) -> U256 {
    U256::from_big_endian(raw)
}
fn raw_of(x: U256) -> Raw {
    x.to_big_endian()
}
fn key(raw: &Raw) -> KeyBytes {
    hook::key_from_raw(*raw)
}
fn dtok(d: &Distance) -> String {
    hex(&d.0.to_big_endian())
}
fn opt(i: Option<u32>) -> String {
    i.map_or("none".into(), |i| i.to_string())
}
fn parse_raw(s: &str) -> Raw {
    let v = hcore::unhex(s);
    let mut r = [0u8; 32];
    r.copy_from_slice(&v);
    r
}

/// edge values of the 256-bit space
fn special(rng: &mut Rng) -> U256 {
    let i = rng.usize(256);
    let p = U256::one() << i;
    match rng.usize(12) {
        0 => U256::zero(),
        1 => U256::one(),
        2 => U256::MAX,
        3 => p,
        4 => p - U256::one(),
        5 => p.overflowing_add(U256::one()).0,
        6 => p | (U256::one() << rng.usize(256)),
        7 => U256::MAX ^ p,
        8 => U256::one() << 255,
        9 => U256::MAX >> rng.usize(256),
        10 => U256::MAX << rng.usize(256),
        _ => U256::from(rng.next_u64()) << (64 * rng.usize(4)),
    }
}

fn random(rng: &mut Rng) -> U256 {
    let b = rng.bytes(32);
    U256::from_big_endian(&b)
}

fn any(rng: &mut Rng) -> U256 {
    match rng.usize(4) {
        0 | 1 => special(rng),
        2 => random(rng),
        _ => random(rng) >> rng.usize(256),
    }
}

/// a key related to `base`: equal, one bit away, a small / special / random distance away
fn near(rng: &mut Rng, base: U256) -> U256 {
    match rng.usize(6) {
        0 => base,
        1 => base ^ (U256::one() << rng.usize(256)),
        2 => base ^ U256::from(rng.below(4)),
        3 => base ^ special(rng),
        4 => any(rng),
        _ => base ^ (random(rng) >> rng.usize(256)),
    }
}

fn do_op(out: &mut Out, op: &[String]) {
    out.op(&op.join(" "));
    let r = hcore::guarded(|| match op[0].as_str() {
        "dist" => {
            let (a, b) = (key(&parse_raw(&op[1])), key(&parse_raw(&op[2])));
            let dab = a.distance(&b);
            let dba = b.distance(&a);
            let il = dab.ilog2();
            let bi = hook::bucket_index(&dab);
            let cont = hook::bucket_contains(bi.unwrap_or(0), &dab);
            format!("{} {} {} {} {}", dtok(&dab), dtok(&dba), opt(il), opt(bi.map(|i| i as u32)), cont as u8)
        }
        "tri" => {
            let (a, b, c) = (key(&parse_raw(&op[1])), key(&parse_raw(&op[2])), key(&parse_raw(&op[3])));
            let (ab, bc, ac) = (a.distance(&b), b.distance(&c), a.distance(&c));
            let (sum, overflow) = ab.0.overflowing_add(bc.0);
            let le = overflow || ac <= Distance(sum);
            format!("{} {} {} {}", dtok(&ab), dtok(&bc), dtok(&ac), le as u8)
        }
        "uni" => {
            let (a, b, c) = (key(&parse_raw(&op[1])), key(&parse_raw(&op[2])), key(&parse_raw(&op[3])));
            format!("{} {}", dtok(&a.distance(&b)), dtok(&a.distance(&c)))
        }
        "fordist" => {
            let a = key(&parse_raw(&op[1]));
            let d = Distance(u(&parse_raw(&op[2])));
            let k = a.for_distance(d);
            format!("{} {}", hex(&hook::key_raw(&k)), dtok(&a.distance(&k)))
        }
        "inv" => {
            let (a, b) = (key(&parse_raw(&op[1])), key(&parse_raw(&op[2])));
            let k = a.for_distance(a.distance(&b));
            hex(&hook::key_raw(&k))
        }
        "range" => {
            let i: usize = op[1].parse().unwrap();
            let (mn, mx) = hook::bucket_range(i);
            format!("{} {}", dtok(&mn), dtok(&mx))
        }
        "cmp" => {
            let (x, y) = (Distance(u(&parse_raw(&op[1]))), Distance(u(&parse_raw(&op[2]))));
            match x.cmp(&y) {
                std::cmp::Ordering::Less => "lt".to_string(),
                std::cmp::Ordering::Equal => "eq".to_string(),
                std::cmp::Ordering::Greater => "gt".to_string(),
            }
        }
        other => panic!("unknown op {other}"),
    });
    match r {
        Ok(s) => out.imp(&s),
        Err(m) => out.imp(&format!("panic {m}")),
    }
}

fn h(x: U256) -> String {
    hex(&raw_of(x))
}

fn ops_for(a: U256, b: U256, c: U256, d: U256) -> Vec<Vec<String>> {
    let s = |v: &[&str]| v.iter().map(|x| x.to_string()).collect::<Vec<String>>();
    vec![
        s(&["dist", &h(a), &h(b)]),
        s(&["dist", &h(b), &h(c)]),
        s(&["tri", &h(a), &h(b), &h(c)]),
        s(&["uni", &h(a), &h(b), &h(c)]),
        s(&["fordist", &h(a), &h(d)]),
        s(&["inv", &h(a), &h(b)]),
        s(&["cmp", &h(a ^ b), &h(d)]),
        s(&["cmp", &h(a ^ c), &h(a ^ b)]),
    ]
}

pub fn run(args: &Args, out: &mut Out) {
    if let Some(cases) = args.replay_cases() {
        for (i, (_, ops)) in cases.iter().enumerate() {
            out.case(i as u64, "replay nt=1");
            for op in ops {
                do_op(out, op);
            }
            out.end();
        }
        return;
    }
    let mut idx = 0u64;
    // every bucket index: range, and the boundary distances of that bucket seen from several keys
    for i in 0..256usize {
        out.case(idx, "bucket nt=1");
        do_op(out, &["range".to_string(), i.to_string()]);
        let p = U256::one() << i;
        let top = if i == 255 { U256::MAX } else { (U256::one() << (i + 1)) - U256::one() };
        let mut rng = Rng::for_case(args.seed, idx);
        let base = any(&mut rng);
        for d in [p, top, p - U256::one(), top.overflowing_add(U256::one()).0, p | (p >> 1)] {
            do_op(out, &["dist".to_string(), h(base), h(base ^ d)]);
            do_op(out, &["fordist".to_string(), h(base), h(d)]);
        }
        out.end();
        idx += 1;
    }
    // all pairs/triples of a small set of extreme keys
    let ext = [
        U256::zero(),
        U256::one(),
        U256::from(2),
        U256::from(3),
        U256::MAX,
        U256::MAX - U256::one(),
        U256::one() << 255,
        (U256::one() << 255) - U256::one(),
        U256::one() << 128,
    ];
    for a in ext {
        for b in ext {
            out.case(idx, "extreme nt=1");
            for c in ext {
                for op in ops_for(a, b, c, c) {
                    do_op(out, &op);
                }
            }
            out.end();
            idx += 1;
        }
    }
    let n = args.n(3000, 40_000);
    for _ in 0..n {
        let mut rng = Rng::for_case(args.seed, idx);
        let a = any(&mut rng);
        let b = near(&mut rng, a);
        let c = if rng.chance(1, 3) { near(&mut rng, b) } else { near(&mut rng, a) };
        let d = if rng.chance(1, 4) { a ^ b } else { any(&mut rng) };
        out.case(idx, "random nt=1");
        for op in ops_for(a, b, c, d) {
            do_op(out, &op);
        }
        out.end();
        idx += 1;
    }
}
