//! C38 — `KBucketsTable::closest_keys` / `closest` / `ClosestBucketsIter` on the routing table over
//! raw 256-bit keys vs the Lean model `C38` (composed with the C37 table model).
//! Tables are built with the C37 operations (inserts of both statuses, updates, removals, pending
//! entries, virtual-clock advances), so `apply_pending` fires during the enumeration.
use std::sync::atomic::Ordering;

use hcore::{hex, Args, Out, Rng};
use libp2p_kad::verif_c38 as hook;
use libp2p_kad::verif_c40::{self as raw, KeyBytes};
use libp2p_kad::{KBucketDistance as Distance, U256};

use crate::c37::{h, key, parse, s, universe, Case, VIRTUAL};

fn keys_tok(ks: &[KeyBytes]) -> String {
    if ks.is_empty() {
        "-".into()
    } else {
        ks.iter().map(|k| hex(&raw::key_raw(k))).collect::<Vec<_>>().join(",")
    }
}

/// all keys stored in the table right now (read-only dump), sorted
fn stored_tok(case: &Case) -> String {
    let mut ks: Vec<[u8; 32]> =
        case.table.raw_dump().iter().flat_map(|b| b.nodes.iter().map(|n| raw::key_raw(&n.0))).collect();
    ks.sort();
    if ks.is_empty() {
        "-".into()
    } else {
        ks.iter().map(|k| hex(k)).collect::<Vec<_>>().join(",")
    }
}

fn do_op(case: &mut Case, out: &mut Out, op: &[String]) {
    out.op(&op.join(" "));
    let r = hcore::guarded(|| match op[0].as_str() {
        "closest" => {
            let ks = case.table.closest_keys(&key(parse(&op[1])));
            // drain the applied-pending queue like every other op does
            while case.table.take_applied_pending().is_some() {}
            format!("{} # {}", keys_tok(&ks), stored_tok(case))
        }
        "closestv" => {
            let ks: Vec<KeyBytes> = case.table.closest(&key(parse(&op[1]))).into_iter().map(|e| e.0).collect();
            while case.table.take_applied_pending().is_some() {}
            format!("{} # {}", keys_tok(&ks), stored_tok(case))
        }
        "order" => hcore::list(&hook::closest_buckets_order(Distance(parse(&op[1])))),
        // table-building operation of C37: only its result token is reported here
        _ => case.run_op(op).split(' ').next().unwrap().to_string(),
    });
    match r {
        Ok(s) => out.imp(&s),
        Err(m) => out.imp(&format!("panic {m}")),
    }
}

const BUCKETS: [usize; 10] = [0, 0, 1, 2, 7, 8, 128, 254, 255, 255];

fn target(rng: &mut Rng, local: U256, keys: &[U256]) -> U256 {
    match rng.usize(9) {
        0 => local,
        1 if !keys.is_empty() => *rng.pick(keys),
        2 => local ^ U256::one(),
        3 => local ^ U256::from(2),
        4 => local ^ U256::from(3),
        5 => local ^ (U256::one() << 255),
        6 => local ^ (U256::one() << rng.usize(256)),
        7 if !keys.is_empty() => *rng.pick(keys) ^ U256::one(),
        _ => U256::from_big_endian(&rng.bytes(32)),
    }
}

fn gen_case(out: &mut Out, idx: u64, seed: u64) {
    let mut rng = Rng::for_case(seed, idx);
    let local = match rng.usize(5) {
        0 => U256::zero(),
        1 => U256::MAX,
        _ => U256::from_big_endian(&rng.bytes(32)),
    };
    let bsize = *rng.pick(&[1usize, 2, 3, 3, 20]);
    let timeout = *rng.pick(&[1u64, 5, 60]);
    let nb = 1 + rng.usize(6);
    let mut buckets: Vec<usize> = vec![];
    while buckets.len() < nb {
        let b = if rng.chance(3, 4) { *rng.pick(&BUCKETS) } else { rng.usize(256) };
        if !buckets.contains(&b) {
            buckets.push(b);
        }
    }
    let per_bucket = 2 + rng.usize(8);
    let mut keys = universe(&mut rng, local, &buckets, per_bucket);
    if rng.chance(2, 3) && !keys.contains(&(local ^ U256::one())) {
        keys.push(local ^ U256::one());
    }
    let nk = keys.len();
    let mut case = Case::new(local, bsize, timeout, keys.clone());
    let class = if bsize <= 3 { "small-buckets" } else { "table" };
    out.case(idx, &format!("{class} nt=1 {}", case.header(bsize, timeout)));
    let nops = 20 + rng.usize(120);
    let query = |case: &mut Case, out: &mut Out, rng: &mut Rng| {
        let t = target(rng, local, &keys);
        let name = if rng.chance(1, 4) { "closestv" } else { "closest" };
        do_op(case, out, &s(&[name, &h(t)]));
        if rng.chance(1, 3) {
            do_op(case, out, &s(&["order", &h(local ^ t)]));
        }
    };
    for _ in 0..nops {
        let k = if rng.chance(1, 40) { "L".to_string() } else { rng.usize(nk).to_string() };
        let st = if rng.chance(1, 2) { "c" } else { "d" };
        match rng.usize(20) {
            0..=7 => do_op(&mut case, out, &s(&["ins", &k, &rng.below(100).to_string(), st])),
            8..=9 => do_op(&mut case, out, &s(&["upd", &k, st])),
            10..=12 => do_op(&mut case, out, &s(&["rem", &k])),
            13..=15 => {
                let n = *rng.pick(&[0, 1, timeout.saturating_sub(1), timeout, timeout, timeout + 1, 3 * timeout]);
                do_op(&mut case, out, &s(&["adv", &n.to_string()]));
            }
            _ => query(&mut case, out, &mut rng),
        }
    }
    query(&mut case, out, &mut rng);
    out.end();
}

/// directed: a pending entry that becomes applicable — with and without room in its bucket — and is
/// applied only by the enumeration itself
fn gen_pending_case(out: &mut Out, idx: u64, seed: u64) {
    let mut rng = Rng::for_case(seed, idx);
    let local = U256::from_big_endian(&rng.bytes(32));
    let bsize = 1 + rng.usize(3);
    let timeout = *rng.pick(&[1u64, 5]);
    let i = *rng.pick(&[2usize, 3, 7, 128, 255]);
    let other = *rng.pick(&[0usize, 1, 8, 254]);
    let mut keys = universe(&mut rng, local, &[i], bsize + 2);
    keys.extend(universe(&mut rng, local, &[other], 2));
    let mut case = Case::new(local, bsize, timeout, keys.clone());
    out.case(idx, &format!("pending nt=1 {}", case.header(bsize, timeout)));
    let far = (keys.len() - 1).to_string();
    do_op(&mut case, out, &s(&["ins", &far, "9", if rng.bool() { "c" } else { "d" }]));
    // fill bucket `i`, at least the first node disconnected
    for k in 0..bsize {
        let st = if k == 0 || rng.bool() { "d" } else { "c" };
        do_op(&mut case, out, &s(&["ins", &k.to_string(), &k.to_string(), st]));
    }
    // a connected node becomes pending
    do_op(&mut case, out, &s(&["ins", &bsize.to_string(), "7", "c"]));
    match rng.usize(3) {
        0 => do_op(&mut case, out, &s(&["rem", &rng.usize(bsize).to_string()])), // room appears
        1 => do_op(&mut case, out, &s(&["upd", &bsize.to_string(), "d"])),     // pending turns disconnected
        _ => {}
    }
    let n = if rng.chance(1, 4) { timeout - 1 } else { timeout + rng.below(2) };
    do_op(&mut case, out, &s(&["adv", &n.to_string()]));
    for _ in 0..2 {
        let t = target(&mut rng, local, &keys);
        do_op(&mut case, out, &s(&[if rng.bool() { "closest" } else { "closestv" }, &h(t)]));
    }
    out.end();
}

pub fn run(args: &Args, out: &mut Out) {
    VIRTUAL.store(true, Ordering::SeqCst);
    if let Some(cases) = args.replay_cases() {
        for (i, (hdr, ops)) in cases.iter().enumerate() {
            let get = |name: &str| hdr.iter().find_map(|t| t.strip_prefix(&format!("{name}=")).map(|v| v.to_string()));
            let local = get("local").map(|v| parse(&v)).unwrap_or(U256::zero());
            let bsize: usize = get("bsize").and_then(|v| v.parse().ok()).unwrap_or(20);
            let timeout: u64 = get("timeout").and_then(|v| v.parse().ok()).unwrap_or(60);
            let keys: Vec<U256> =
                get("keys").map(|v| v.split(',').filter(|x| x.len() == 64).map(parse).collect()).unwrap_or_default();
            let mut case = Case::new(local, bsize, timeout, keys);
            out.case(i as u64, &format!("replay nt=1 {}", case.header(bsize, timeout)));
            for op in ops {
                do_op(&mut case, out, op);
            }
            out.end();
        }
        return;
    }
    let mut idx = 0u64;
    // the bucket order for every single-bit, low-mask and high-mask distance, and small distances
    let mut ds: Vec<U256> = (0u64..64).map(U256::from).collect();
    for i in 0..256usize {
        let p = U256::one() << i;
        ds.push(p);
        ds.push(p - U256::one());
        ds.push(U256::MAX ^ (p - U256::one()));
        ds.push(U256::MAX ^ p);
        ds.push(p | U256::one());
    }
    for chunk in ds.chunks(32) {
        let mut case = Case::new(U256::zero(), 1, 60, vec![]);
        out.case(idx, &format!("orders nt=1 {}", case.header(1, 60)));
        for d in chunk {
            do_op(&mut case, out, &s(&["order", &h(*d)]));
        }
        out.end();
        idx += 1;
    }
    for _ in 0..args.n(300, 3_000) {
        gen_pending_case(out, idx, args.seed);
        idx += 1;
    }
    for _ in 0..args.n(400, 4_000) {
        gen_case(out, idx, args.seed);
        idx += 1;
    }
}
