//! C38 — `KBucketsTable::closest_keys` / `closest` / `ClosestBucketsIter` on a table over raw
//! 256-bit keys (hook `verif_c38::VerifTable`) vs the Lean model `C38`.
use std::num::NonZeroUsize;
use std::time::Duration;

use hcore::{hex, Args, Out, Rng};
use libp2p_kad::verif_c38::{self as hook, VerifInsert, VerifTable};
use libp2p_kad::verif_c40::{self as raw, KeyBytes};
use libp2p_kad::{KBucketDistance as Distance, NodeStatus, U256};

fn key(x: U256) -> KeyBytes {
    raw::key_from_raw(x.to_big_endian())
}
fn h(x: U256) -> String {
    hex(&x.to_big_endian())
}
fn parse(s: &str) -> U256 {
    U256::from_big_endian(&hcore::unhex(s))
}
fn keys_tok(ks: &[KeyBytes]) -> String {
    if ks.is_empty() {
        "-".into()
    } else {
        ks.iter().map(|k| hex(&raw::key_raw(k))).collect::<Vec<_>>().join(",")
    }
}

struct Case {
    table: VerifTable,
}

impl Case {
    fn new(local: U256, bsize: usize) -> Case {
        // a pending timeout far beyond the run time: pending entries are never applied here (C37 covers them)
        Case { table: VerifTable::new(key(local), NonZeroUsize::new(bsize).unwrap(), Duration::from_secs(1 << 30)) }
    }

    fn op(&mut self, out: &mut Out, op: &[String]) {
        out.op(&op.join(" "));
        let table = &mut self.table;
        let r = hcore::guarded(|| match op[0].as_str() {
            "insert" => {
                let k = key(parse(&op[1]));
                match table.insert(&k, 0, NodeStatus::Connected) {
                    VerifInsert::Local => "local".to_string(),
                    VerifInsert::Present => "present".to_string(),
                    VerifInsert::PendingPresent => "pending-present".to_string(),
                    VerifInsert::Inserted => "inserted".to_string(),
                    VerifInsert::Full => "full".to_string(),
                    VerifInsert::Pending(_) => "pending".to_string(),
                }
            }
            "closest" => keys_tok(&table.closest_keys(&key(parse(&op[1])))),
            "closestv" => {
                let v: Vec<KeyBytes> = table.closest(&key(parse(&op[1]))).into_iter().map(|e| e.0).collect();
                keys_tok(&v)
            }
            "order" => hcore::list(&hook::closest_buckets_order(Distance(parse(&op[1])))),
            other => panic!("unknown op {other}"),
        });
        match r {
            Ok(s) => out.imp(&s),
            Err(m) => out.imp(&format!("panic {m}")),
        }
    }
}

fn s(v: &[&str]) -> Vec<String> {
    v.iter().map(|x| x.to_string()).collect()
}

/// a distance whose highest set bit is `i`
fn dist_in_bucket(rng: &mut Rng, i: usize) -> U256 {
    let top = U256::one() << i;
    let low = if i == 0 { U256::zero() } else { U256::from_big_endian(&rng.bytes(32)) & (top - U256::one()) };
    match rng.usize(4) {
        0 => top,
        1 => top | (top - U256::one()),
        _ => top | low,
    }
}

const BUCKETS: [usize; 10] = [0, 0, 1, 2, 7, 8, 128, 254, 255, 255];

fn gen_case(out: &mut Out, idx: u64, seed: u64) {
    let mut rng = Rng::for_case(seed, idx);
    let local = match rng.usize(5) {
        0 => U256::zero(),
        1 => U256::MAX,
        _ => U256::from_big_endian(&rng.bytes(32)),
    };
    let bsize = *rng.pick(&[1usize, 2, 3, 20, 20]);
    let nkeys = rng.usize(61);
    let with_b0 = rng.chance(2, 3);
    let mut case = Case::new(local, bsize);
    let mut ops: Vec<Vec<String>> = vec![];
    let mut stored: Vec<U256> = vec![];
    if with_b0 {
        stored.push(local ^ U256::one());
    }
    for _ in 0..nkeys {
        let i = if rng.chance(3, 4) { *rng.pick(&BUCKETS) } else { rng.usize(256) };
        stored.push(local ^ dist_in_bucket(&mut rng, i));
    }
    if rng.chance(1, 8) {
        stored.push(local);
    }
    if !stored.is_empty() && rng.chance(1, 4) {
        let dup = *rng.pick(&stored);
        stored.push(dup);
    }
    rng.shuffle(&mut stored);
    let target = |rng: &mut Rng| -> U256 {
        match rng.usize(9) {
            0 => local,
            1 if !stored.is_empty() => *rng.pick(&stored),
            2 => local ^ U256::one(),
            3 => local ^ U256::from(2),
            4 => local ^ U256::from(3),
            5 => local ^ (U256::one() << 255),
            6 => {
                let i = rng.usize(256);
                local ^ dist_in_bucket(rng, i)
            }
            7 if !stored.is_empty() => *rng.pick(&stored) ^ U256::one(),
            _ => U256::from_big_endian(&rng.bytes(32)),
        }
    };
    let mut q = Rng::for_case(seed ^ 0x5eed, idx);
    for (n, k) in stored.iter().enumerate() {
        ops.push(s(&["insert", &h(*k)]));
        if n % 16 == 7 {
            let t = target(&mut q);
            ops.push(s(&["closest", &h(t)]));
        }
    }
    for _ in 0..(2 + q.usize(5)) {
        let t = target(&mut q);
        ops.push(s(&[if q.chance(1, 4) { "closestv" } else { "closest" }, &h(t)]));
        ops.push(s(&["order", &h(local ^ t)]));
    }
    let nt = stored.len() >= 2;
    let class = if with_b0 { "table-b0" } else { "table" };
    out.case(idx, &format!("{class} nt={} local={} bsize={}", nt as u8, h(local), bsize));
    for op in &ops {
        case.op(out, op);
    }
    out.end();
}

pub fn run(args: &Args, out: &mut Out) {
    if let Some(cases) = args.replay_cases() {
        for (i, (hdr, ops)) in cases.iter().enumerate() {
            let get = |name: &str| hdr.iter().find_map(|t| t.strip_prefix(&format!("{name}=")).map(|v| v.to_string()));
            let local = get("local").map(|v| parse(&v)).unwrap_or(U256::zero());
            let bsize: usize = get("bsize").and_then(|v| v.parse().ok()).unwrap_or(20);
            out.case(i as u64, &format!("replay nt=1 local={} bsize={}", h(local), bsize));
            let mut case = Case::new(local, bsize);
            for op in ops {
                case.op(out, op);
            }
            out.end();
        }
        return;
    }
    let mut idx = 0u64;
    // the bucket order for every single-bit, low-mask and high-mask distance, and small distances
    let mut ds: Vec<U256> = (0u64..64).map(U256::from).collect();
    for i in 0..256usize {
        let p = U256::one() << i;
        ds.push(p);
        ds.push(p - U256::one());
        ds.push(U256::MAX ^ (p - U256::one()));
        ds.push(U256::MAX ^ p);
        ds.push(p | U256::one());
    }
    for chunk in ds.chunks(32) {
        out.case(idx, &format!("orders nt=1 local={} bsize=1", h(U256::zero())));
        let mut case = Case::new(U256::zero(), 1);
        for d in chunk {
            case.op(out, &s(&["order", &h(*d)]));
        }
        out.end();
        idx += 1;
    }
    let n = args.n(400, 4_000);
    for _ in 0..n {
        gen_case(out, idx, args.seed);
        idx += 1;
    }
}
