//! C07 — behaviour-to-handler notifications: targeted, ordered, not lost.
//!
//! A real `Swarm` (no executor: connection tasks run only at the end of `Pool::poll`) over the
//! scripted transport of `sim.rs`, with a behaviour that emits scripted `ToSwarm` commands and a
//! handler that logs every `on_behaviour_event`.  The event type logs from its `Drop` when it dies
//! undelivered, so every emitted event has an observed fate: delivered to a handler, or dropped.
//!
//! Ops (one line each; nothing polls the Swarm except `poll`):
//!   connect <p>                 Swarm::dial(peer p) + the transport dial resolves at once
//!   dial <p>                    Swarm::dial(peer p): the ConnectionId is allocated, the dial stays open
//!   resolve <c> <p>             the open dial / inbound upgrade of connection c completes (inbound: as peer p)
//!   incoming                    the transport reports an incoming connection (id allocated when polled)
//!   close <c>                   Swarm::close_connection
//!   disconnect <p>              Swarm::disconnect_peer_id
//!   rclose <c>                  the remote closes (muxer starts failing)
//!   emit <cmd>…                 push commands onto the behaviour's queue:
//!        one:<c>  any:<p>:<choice>  cone:<c>  call:<p>  gen
//!        (one/any events are numbered 0,1,2… in push order; <choice> is the oracle: the connection
//!         that the implementation's `notify_any` picked, `x` if it never sent the event)
//!   poll pick=<c|x>             exactly one `Swarm::poll_next_event` call
use crate::sim::*;
use futures::StreamExt;
use hcore::{Args, Out, Rng};
use libp2p_core::transport::PortUse;
use libp2p_core::upgrade::DeniedUpgrade;
use libp2p_core::{Endpoint, Multiaddr, PeerId};
use libp2p_swarm::dial_opts::{DialOpts, PeerCondition};
use libp2p_swarm::handler::{ConnectionEvent, ConnectionHandlerEvent, SubstreamProtocol};
use libp2p_swarm::{
    CloseConnection, ConnectionDenied, ConnectionHandler, ConnectionId, FromSwarm, NetworkBehaviour, NotifyHandler, SwarmEvent,
    THandler, THandlerInEvent, THandlerOutEvent, ToSwarm,
};
use std::collections::{HashMap, VecDeque};
use std::num::NonZeroUsize;
use std::sync::atomic::AtomicBool;
use std::sync::{Arc, Mutex};
use std::task::{Context, Poll, Waker};

// ---------------------------------------------------------------------------------------------
// event, handler, behaviour

pub struct Ev {
    n: u32,
    delivered: bool,
    world: Shared,
}
impl std::fmt::Debug for Ev {
    fn fmt(&self, f: &mut std::fmt::Formatter<'_>) -> std::fmt::Result {
        write!(f, "Ev({})", self.n)
    }
}
impl Drop for Ev {
    fn drop(&mut self) {
        if !self.delivered {
            if let Ok(mut w) = self.world.lock() {
                w.push(format!("drop,{}", self.n));
            }
        }
    }
}

pub struct NH {
    conn: usize,
    world: Shared,
    closing_logged: bool,
}
impl Drop for NH {
    fn drop(&mut self) {
        if let Ok(mut w) = self.world.lock() {
            w.push(format!("hdrop,{}", self.conn));
        }
    }
}

impl ConnectionHandler for NH {
    type FromBehaviour = Ev;
    type ToBehaviour = u32;
    type InboundProtocol = DeniedUpgrade;
    type OutboundProtocol = DeniedUpgrade;
    type InboundOpenInfo = ();
    type OutboundOpenInfo = ();

    fn listen_protocol(&self) -> SubstreamProtocol<DeniedUpgrade> {
        SubstreamProtocol::new(DeniedUpgrade, ())
    }
    fn connection_keep_alive(&self) -> bool {
        true
    }
    fn on_behaviour_event(&mut self, mut ev: Ev) {
        ev.delivered = true;
        self.world.lock().unwrap().push(format!("recv,{},{}", self.conn, ev.n));
    }
    fn poll(&mut self, _: &mut Context<'_>) -> Poll<ConnectionHandlerEvent<DeniedUpgrade, (), u32>> {
        Poll::Pending
    }
    fn poll_close(&mut self, _: &mut Context<'_>) -> Poll<Option<u32>> {
        if !self.closing_logged {
            self.closing_logged = true;
            self.world.lock().unwrap().push(format!("hpc,{}", self.conn));
        }
        Poll::Ready(None)
    }
    fn on_connection_event(&mut self, _: ConnectionEvent<DeniedUpgrade, DeniedUpgrade>) {}
}

pub struct NB {
    world: Shared,
    queue: Arc<Mutex<VecDeque<ToSwarm<u32, Ev>>>>,
    waker: Option<Waker>,
}

impl NetworkBehaviour for NB {
    type ConnectionHandler = NH;
    type ToSwarm = u32;

    fn handle_pending_outbound_connection(
        &mut self,
        _id: ConnectionId,
        _peer: Option<PeerId>,
        _addrs: &[Multiaddr],
        _eff: Endpoint,
    ) -> Result<Vec<Multiaddr>, ConnectionDenied> {
        Ok(vec![])
    }
    fn handle_established_inbound_connection(
        &mut self,
        id: ConnectionId,
        _peer: PeerId,
        _l: &Multiaddr,
        _r: &Multiaddr,
    ) -> Result<THandler<Self>, ConnectionDenied> {
        let c = self.world.lock().unwrap().conn(id);
        Ok(NH { conn: c, world: self.world.clone(), closing_logged: false })
    }
    fn handle_established_outbound_connection(
        &mut self,
        id: ConnectionId,
        _peer: PeerId,
        _addr: &Multiaddr,
        _role: Endpoint,
        _pu: PortUse,
    ) -> Result<THandler<Self>, ConnectionDenied> {
        let c = self.world.lock().unwrap().conn(id);
        Ok(NH { conn: c, world: self.world.clone(), closing_logged: false })
    }
    fn on_swarm_event(&mut self, _ev: FromSwarm) {}
    fn on_connection_handler_event(&mut self, _peer: PeerId, _id: ConnectionId, _ev: THandlerOutEvent<Self>) {}
    fn poll(&mut self, cx: &mut Context<'_>) -> Poll<ToSwarm<u32, THandlerInEvent<Self>>> {
        if let Some(e) = self.queue.lock().unwrap().pop_front() {
            if let ToSwarm::NotifyHandler { event, .. } = &e {
                // the moment of emission, as the Swarm sees it
                self.world.lock().unwrap().push(format!("emit,{}", event.n));
            }
            return Poll::Ready(e);
        }
        self.waker = Some(cx.waker().clone());
        Poll::Pending
    }
}

// ---------------------------------------------------------------------------------------------
// ops

#[derive(Clone, Debug)]
pub enum BCmd {
    One(usize),
    Any(usize),
    CloseOne(usize),
    CloseAll(usize),
    Gen,
}

#[derive(Clone, Debug)]
pub enum Op {
    Connect(usize),
    Dial(usize),
    Resolve(usize, usize),
    Incoming,
    Close(usize),
    Disconnect(usize),
    RClose(usize),
    Emit(Vec<BCmd>),
    Poll,
}

fn parse_op(t: &[String]) -> Op {
    let n = |s: &str| s.parse::<usize>().unwrap();
    match t[0].as_str() {
        "connect" => Op::Connect(n(&t[1])),
        "dial" => Op::Dial(n(&t[1])),
        "resolve" => Op::Resolve(n(&t[1]), n(&t[2])),
        "incoming" => Op::Incoming,
        "close" => Op::Close(n(&t[1])),
        "disconnect" => Op::Disconnect(n(&t[1])),
        "rclose" => Op::RClose(n(&t[1])),
        "poll" => Op::Poll,
        "emit" => Op::Emit(
            t[1..]
                .iter()
                .map(|c| {
                    let f: Vec<&str> = c.split(':').collect();
                    match f[0] {
                        "one" => BCmd::One(n(f[1])),
                        "any" => BCmd::Any(n(f[1])),
                        "cone" => BCmd::CloseOne(n(f[1])),
                        "call" => BCmd::CloseAll(n(f[1])),
                        "gen" => BCmd::Gen,
                        o => panic!("replay: unknown behaviour command {o}"),
                    }
                })
                .collect(),
        ),
        o => panic!("replay: unknown op {o}"),
    }
}

/// what happened to an `Any` event: the connection whose queue it was sent to, if any
#[derive(Clone, Copy, PartialEq)]
enum Fate {
    Unknown,
    Conn(usize),
}

pub struct Runner {
    sim: Sim<NB>,
    peers: Vec<PeerId>,
    queue: Arc<Mutex<VecDeque<ToSwarm<u32, Ev>>>>,
    mux_of_conn: HashMap<usize, Arc<Mutex<MuxState>>>,
    peer_of_conn: HashMap<usize, usize>,
    next_ev: u32,
    fate: HashMap<u32, Fate>,
    n_dials: usize,
    listener: libp2p_core::transport::ListenerId,
    /// open outbound dials: connection name -> (index of the transport dial, expected peer)
    open_out: HashMap<usize, (usize, usize)>,
    /// incoming connections pushed into the transport and not yet seen as `IncomingConnection`
    inc_fifo: VecDeque<usize>,
    /// open inbound upgrades: connection name -> index of the incoming connection
    open_in: HashMap<usize, usize>,
    /// connections reported established and not yet reported closed
    est: std::collections::HashSet<usize>,
}

pub const N_PEERS: usize = 4;

impl Runner {
    pub fn new(buf: usize) -> Self {
        let peers: Vec<PeerId> = (0..N_PEERS as u8).map(hcore::peer).collect();
        let mut queue = None;
        let cfg = libp2p_swarm::Config::without_executor().with_notify_handler_buffer_size(NonZeroUsize::new(buf).unwrap());
        let mut sim = Sim::new(
            |w| {
                let b = NB { world: w, queue: Default::default(), waker: None };
                queue = Some(b.queue.clone());
                b
            },
            peers[0],
            cfg,
        );
        {
            let mut w = sim.world.lock().unwrap();
            for p in &peers {
                w.peer(p);
            }
        }
        let listener = sim.swarm.listen_on("/ip4/10.9.9.9/tcp/9".parse().unwrap()).unwrap();
        let mut r = Runner {
            listener,
            open_out: HashMap::new(),
            inc_fifo: VecDeque::new(),
            open_in: HashMap::new(),
            sim,
            peers,
            queue: queue.unwrap(),
            mux_of_conn: HashMap::new(),
            peer_of_conn: HashMap::new(),
            next_ev: 0,
            fate: HashMap::new(),
            n_dials: 0,
            est: Default::default(),
        };
        for _ in 0..3 {
            r.poll1();
        }
        r.sim.take_log();
        r
    }

    fn real_conn(&self, c: usize) -> ConnectionId {
        self.sim
            .world
            .lock()
            .unwrap()
            .conn_names
            .iter()
            .find(|(_, n)| **n == c)
            .map(|(id, _)| *id)
            .unwrap_or_else(|| ConnectionId::new_unchecked(usize::MAX - 1000 - c))
    }

    fn ev(&mut self) -> Ev {
        let n = self.next_ev;
        self.next_ev += 1;
        Ev { n, delivered: false, world: self.sim.world.clone() }
    }

    /// one `poll_next_event` call
    fn poll1(&mut self) -> String {
        let flag = Arc::new(Flag(AtomicBool::new(false)));
        let waker = Waker::from(flag);
        let mut cx = Context::from_waker(&waker);
        match self.sim.swarm.poll_next_unpin(&mut cx) {
            Poll::Pending => "pending".into(),
            Poll::Ready(None) => "none".into(),
            Poll::Ready(Some(ev)) => {
                let mut w = self.sim.world.lock().unwrap();
                match ev {
                    SwarmEvent::Behaviour(_) => "gen".into(),
                    SwarmEvent::ConnectionEstablished { peer_id, connection_id, .. } => {
                        let c = w.conn(connection_id);
                        self.est.insert(c);
                        format!("est:{}:{}", c, w.peer(&peer_id))
                    }
                    SwarmEvent::ConnectionClosed { connection_id, .. } => {
                        let c = w.conn(connection_id);
                        self.est.remove(&c);
                        format!("closed:{c}")
                    }
                    SwarmEvent::OutgoingConnectionError { connection_id, .. } => format!("fail:{}", w.conn(connection_id)),
                    SwarmEvent::IncomingConnection { connection_id, .. } => {
                        let c = w.conn(connection_id);
                        if let Some(k) = self.inc_fifo.pop_front() {
                            self.open_in.insert(c, k);
                        }
                        format!("inc:{c}")
                    }
                    _ => "other".into(),
                }
            }
        }
    }

    /// digest the raw log of one poll: deliveries (grouped per connection, order kept), drops,
    /// and the fate of events dropped inside a connection's command queue
    fn digest(&mut self, log: &[String]) -> (String, String, String) {
        let mut em: Vec<u32> = vec![];
        let mut deliv: Vec<(usize, u32)> = vec![];
        let mut drops: Vec<u32> = vec![];
        let mut cur: Option<usize> = None;
        for l in log {
            let f: Vec<&str> = l.split(',').collect();
            match f[0] {
                "recv" => {
                    let c: usize = f[1].parse().unwrap();
                    let n: u32 = f[2].parse().unwrap();
                    deliv.push((c, n));
                    self.fate.insert(n, Fate::Conn(c));
                    cur = None;
                }
                "emit" => em.push(f[1].parse().unwrap()),
                "hpc" | "hdrop" => cur = Some(f[1].parse().unwrap()),
                "drop" => {
                    let n: u32 = f[1].parse().unwrap();
                    drops.push(n);
                    if let Some(c) = cur {
                        self.fate.insert(n, Fate::Conn(c));
                    }
                }
                _ => {}
            }
        }
        deliv.sort_by_key(|(c, _)| *c); // stable: per-connection order is kept
        drops.sort();
        let d: Vec<String> = deliv.iter().map(|(c, n)| format!("{c}:{n}")).collect();
        (hcore::list(&d), hcore::list(&drops), hcore::list(&em))
    }

    /// `Swarm::dial` to peer p; returns (connection name, transport dial index if the dial was accepted)
    fn dial(&mut self, p: usize) -> (usize, Option<usize>) {
        let addr: Multiaddr = format!("/ip4/10.0.0.{}/tcp/{}", p + 1, 1000 + self.n_dials).parse().unwrap();
        let opts = DialOpts::peer_id(self.peers[p]).condition(PeerCondition::Always).addresses(vec![addr]).build();
        let id = self.sim.world.lock().unwrap().conn(opts.connection_id());
        let r = self.sim.swarm.dial(opts);
        let k = self.n_dials;
        let n_now = self.sim.tstate.lock().unwrap().dials.len();
        self.n_dials = n_now;
        self.peer_of_conn.insert(id, p);
        (id, (r.is_ok() && n_now == k + 1).then_some(k))
    }

    /// run one op; returns the op text (emit ops carry `?n` placeholders for the Any oracle) and impl text
    fn exec(&mut self, op: &Op) -> (String, String) {
        match op {
            Op::Connect(p) => {
                let (id, k) = self.dial(*p);
                let res = match k {
                    Some(k) => {
                        if let Some(m) = self.sim.resolve_dial(k, Ok(self.peers[*p])) {
                            self.mux_of_conn.insert(id, m);
                        }
                        format!("id={id}")
                    }
                    None => format!("id={id} err"),
                };
                (format!("connect {p}"), res)
            }
            Op::Dial(p) => {
                let (id, k) = self.dial(*p);
                let res = match k {
                    // at most one open outbound dial at a time (see the model's `openDial`)
                    Some(k) if !self.open_out.is_empty() => {
                        if let Some(m) = self.sim.resolve_dial(k, Ok(self.peers[*p])) {
                            self.mux_of_conn.insert(id, m);
                        }
                        format!("id={id}")
                    }
                    Some(k) => {
                        self.open_out.insert(id, (k, *p));
                        format!("id={id}")
                    }
                    None => format!("id={id} err"),
                };
                (format!("dial {p}"), res)
            }
            Op::Resolve(c, p) => {
                if let Some((k, expected)) = self.open_out.remove(c) {
                    if let Some(m) = self.sim.resolve_dial(k, Ok(self.peers[expected])) {
                        self.mux_of_conn.insert(*c, m);
                    }
                } else if let Some(k) = self.open_in.remove(c) {
                    if let Some(m) = self.sim.resolve_incoming(k, Ok(self.peers[*p % N_PEERS])) {
                        self.mux_of_conn.insert(*c, m);
                    }
                    self.peer_of_conn.insert(*c, *p % N_PEERS);
                }
                (format!("resolve {c} {p}"), "res=-".into())
            }
            Op::Incoming => {
                let l = self.listener;
                let k = self.sim.push_incoming(
                    l,
                    "/ip4/10.9.9.9/tcp/9".parse().unwrap(),
                    format!("/ip4/10.7.7.7/tcp/{}", 2000 + self.inc_fifo.len() + self.open_in.len()).parse().unwrap(),
                );
                self.inc_fifo.push_back(k);
                ("incoming".into(), "res=-".into())
            }
            Op::Close(c) => {
                let id = self.real_conn(*c);
                let r = self.sim.swarm.close_connection(id);
                (format!("close {c}"), format!("res={r}"))
            }
            Op::Disconnect(p) => {
                let r = self.sim.swarm.disconnect_peer_id(self.peers[*p]);
                (format!("disconnect {p}"), format!("res={}", if r.is_ok() { "ok" } else { "err" }))
            }
            Op::RClose(c) => {
                // (a remote close of a connection that is not established yet is not modelled)
                if self.est.contains(c) {
                    if let Some(m) = self.mux_of_conn.get(c) {
                        Sim::<NB>::fail_muxer(m);
                    }
                }
                (format!("rclose {c}"), "res=-".into())
            }
            Op::Emit(cmds) => {
                let mut toks = vec!["emit".to_string()];
                for c in cmds {
                    let (tok, cmd) = match c {
                        BCmd::One(c) => {
                            let peer = self.peers[*self.peer_of_conn.get(c).unwrap_or(&1)];
                            let event = self.ev();
                            (format!("one:{c}"), ToSwarm::NotifyHandler { peer_id: peer, handler: NotifyHandler::One(self.real_conn(*c)), event })
                        }
                        BCmd::Any(p) => {
                            let event = self.ev();
                            let n = event.n;
                            self.fate.insert(n, Fate::Unknown);
                            (format!("any:{p}:?{n}"), ToSwarm::NotifyHandler { peer_id: self.peers[*p], handler: NotifyHandler::Any, event })
                        }
                        BCmd::CloseOne(c) => {
                            let peer = self.peers[*self.peer_of_conn.get(c).unwrap_or(&1)];
                            (format!("cone:{c}"), ToSwarm::CloseConnection { peer_id: peer, connection: CloseConnection::One(self.real_conn(*c)) })
                        }
                        BCmd::CloseAll(p) => (format!("call:{p}"), ToSwarm::CloseConnection { peer_id: self.peers[*p], connection: CloseConnection::All }),
                        BCmd::Gen => ("gen".to_string(), ToSwarm::GenerateEvent(0)),
                    };
                    toks.push(tok);
                    self.queue.lock().unwrap().push_back(cmd);
                }
                (toks.join(" "), format!("n={}", self.next_ev))
            }
            Op::Poll => {
                let ret = self.poll1();
                let log = self.sim.take_log();
                let (deliv, drops, em) = self.digest(&log);
                let ne = self.sim.swarm.network_info().connection_counters().num_established();
                let pick = match ret.split(':').collect::<Vec<_>>().as_slice() {
                    ["est", c, _] | ["closed", c] | ["fail", c] => c.to_string(),
                    _ => "x".to_string(),
                };
                (format!("poll pick={pick}"), format!("ret={ret} deliv={deliv} drops={drops} ne={ne} em={em}"))
            }
        }
    }

    /// after the last op: poll (silently) until idle so that every sent event meets its fate
    fn finish(&mut self) {
        let mut idle = 0;
        let mut guard = 0;
        while idle < 3 && guard < 10_000 {
            guard += 1;
            self.sim.take_log();
            let ret = self.poll1();
            let log = self.sim.take_log();
            let (d, x, _) = self.digest(&log);
            if ret == "pending" && d == "-" && x == "-" {
                idle += 1;
            } else {
                idle = 0;
            }
        }
    }
}

/// run a whole case, then print it (the Any oracle of an emit op is only known afterwards)
pub fn run_case(buf: usize, ops: &mut dyn FnMut(&Runner) -> Option<Op>, out: &mut Out) {
    let mut r = Runner::new(buf);
    let mut lines: Vec<(String, String)> = vec![];
    loop {
        let Some(op) = ops(&r) else { break };
        match hcore::guarded(|| r.exec(&op)) {
            Ok(l) => lines.push(l),
            Err(m) => {
                lines.push((format!("{op:?}").replace(' ', ""), format!("panic {m}")));
                break;
            }
        }
    }
    let _ = hcore::guarded(|| r.finish());
    for (op, imp) in lines {
        let op: Vec<String> = op
            .split(' ')
            .map(|t| match t.split_once(":?") {
                Some((head, n)) => {
                    let n: u32 = n.parse().unwrap();
                    match r.fate.get(&n) {
                        Some(Fate::Conn(c)) => format!("{head}:{c}"),
                        _ => format!("{head}:x"),
                    }
                }
                None => t.to_string(),
            })
            .collect();
        out.op(&op.join(" "));
        out.imp(&imp);
    }
    out.end();
}

// ---------------------------------------------------------------------------------------------
// generators

struct Gen {
    rng: Rng,
    len: usize,
    done: usize,
    conns: usize,
    /// favourite targets of this case, so that bursts pile up on few queues
    hot_conn: usize,
    hot_peer: usize,
    poll_heavy: bool,
    prefix: VecDeque<Op>,
    scripted: bool,
}

impl Gen {
    fn conn(&mut self) -> usize {
        if self.conns == 0 {
            return self.rng.usize(2);
        }
        match self.rng.below(10) {
            0..=4 => self.hot_conn % self.conns,
            9 => self.conns + self.rng.usize(2), // not (yet) existing
            _ => self.rng.usize(self.conns),
        }
    }
    fn peer(&mut self) -> usize {
        match self.rng.below(10) {
            0..=5 => self.hot_peer,
            _ => 1 + self.rng.usize(N_PEERS - 1),
        }
    }
    fn burst(&mut self) -> Vec<BCmd> {
        let n = 1 + self.rng.usize(7);
        let style = self.rng.below(4);
        (0..n)
            .map(|_| match self.rng.below(20) {
                0..=8 => {
                    if style == 0 {
                        BCmd::Any(self.peer())
                    } else {
                        BCmd::One(self.conn())
                    }
                }
                9..=15 => {
                    if style == 1 {
                        BCmd::One(self.conn())
                    } else {
                        BCmd::Any(self.peer())
                    }
                }
                16 | 17 => BCmd::CloseOne(self.conn()),
                18 => BCmd::CloseAll(self.peer()),
                _ => BCmd::Gen,
            })
            .collect()
    }
    /// a connection whose dial / upgrade is still open (sorted: HashMap order must not leak)
    fn open_conn(&mut self, r: &Runner) -> usize {
        let mut open: Vec<usize> = r.open_out.keys().chain(r.open_in.keys()).cloned().collect();
        open.sort();
        if open.is_empty() || self.rng.chance(1, 8) {
            self.conn()
        } else {
            *self.rng.pick(&open)
        }
    }
    fn next(&mut self, r: &Runner) -> Option<Op> {
        if let Some(op) = self.prefix.pop_front() {
            return Some(op);
        }
        if self.done >= self.len {
            return None;
        }
        self.done += 1;
        self.conns = r.sim.world.lock().unwrap().conn_names.len();
        let early = self.done <= 3 && !self.scripted;
        let op = match self.rng.below(100) {
            x if x < 10 || (early && x < 60) => Op::Connect(self.peer()),
            x if x < 14 || (early && x < 70) => Op::Dial(self.peer()),
            x if x < 20 => {
                let c = self.open_conn(r);
                Op::Resolve(c, self.peer())
            }
            x if x < 23 => Op::Incoming,
            x if x < 44 => Op::Emit(self.burst()),
            x if x < 49 => Op::Close(self.conn()),
            x if x < 52 => Op::Disconnect(self.peer()),
            x if x < 56 => Op::RClose(self.conn()),
            x if x < 61 && !self.poll_heavy => Op::Emit(self.burst()),
            _ => Op::Poll,
        };
        Some(op)
    }
    /// directed prefix: an `Any` event parked on full queues while a connection with a LOWER id
    /// (dial built / inbound accepted earlier, completed later) gets established
    fn low_id_prefix(&mut self, buf: usize) -> VecDeque<Op> {
        let p = self.hot_peer;
        let mut v = VecDeque::new();
        if self.rng.bool() {
            v.push_back(Op::Incoming);
            v.push_back(Op::Poll);
        } else {
            v.push_back(Op::Dial(p));
        }
        let m = 1 + self.rng.usize(2);
        for _ in 0..m {
            v.push_back(Op::Connect(p));
        }
        for _ in 0..m + 2 {
            v.push_back(Op::Poll);
        }
        v.push_back(Op::Resolve(0, p));
        v.push_back(Op::Poll);
        let mut burst = vec![];
        for c in 1..=m {
            for _ in 0..buf {
                burst.push(BCmd::One(c));
            }
        }
        for _ in 0..1 + self.rng.usize(3) {
            burst.push(BCmd::Any(p));
        }
        v.push_back(Op::Emit(burst));
        for _ in 0..2 + self.rng.usize(3) {
            v.push_back(Op::Poll);
        }
        v
    }
}

pub fn run(args: &Args, out: &mut Out) {
    if let Some(cases) = args.replay_cases() {
        for (i, (hdr, ops)) in cases.iter().enumerate() {
            let buf = hdr.iter().find_map(|t| t.strip_prefix("buf=")).and_then(|b| b.parse().ok()).unwrap_or(1);
            out.case(i as u64, &format!("replay nt=1 buf={buf}"));
            let mut it = ops.iter();
            run_case(buf, &mut |_| it.next().map(|t| parse_op(t)), out);
        }
        return;
    }
    let n = args.n(600, 20_000);
    for i in 0..n {
        let mut rng = Rng::for_case(args.seed, i);
        let buf = 1 + rng.usize(3);
        let len = 8 + rng.usize(40);
        let hot_conn = rng.usize(4);
        let hot_peer = 1 + rng.usize(2);
        let poll_heavy = rng.bool();
        let scripted = rng.chance(1, 6);
        let mut g = Gen { rng, len, done: 0, conns: 0, hot_conn, hot_peer, poll_heavy, prefix: VecDeque::new(), scripted };
        if scripted {
            g.prefix = g.low_id_prefix(buf);
            g.len = g.rng.usize(16);
        }
        out.case(i, &format!("{} nt=1 buf={buf}", if scripted { "lowid" } else { "script" }));
        run_case(buf, &mut |r| g.next(r), out);
    }
}
