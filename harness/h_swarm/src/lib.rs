//! the swarm harness as a library: other harness crates (h_sw_b for C08) emit Swarm-level cases through it
pub mod c13;
pub mod c13b;
pub mod core;
pub mod sim;
