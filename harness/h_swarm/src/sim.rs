//! Deterministic Swarm simulation: scripted transport + scripted muxer + probe behaviour.
//!
//! The Swarm is built with `Config::without_executor()`, so every connection task is polled inside
//! `Swarm::poll` (the pool's LocalSpawn mode).  The harness makes exactly one thing happen, then
//! polls the Swarm until it is idle; the schedule is therefore the list of harness decisions.
#![allow(dead_code)]
use futures::channel::oneshot;
use futures::{AsyncRead, AsyncWrite, FutureExt, StreamExt};
use libp2p_core::muxing::{StreamMuxer, StreamMuxerBox, StreamMuxerEvent};
use libp2p_core::transport::{DialOpts as TDialOpts, ListenerId, PortUse, TransportError, TransportEvent};
use libp2p_core::upgrade::DeniedUpgrade;
use libp2p_core::{Endpoint, Multiaddr, PeerId, Transport};
use libp2p_swarm::handler::{ConnectionEvent, ConnectionHandlerEvent, SubstreamProtocol};
use libp2p_swarm::{
    ConnectionDenied, ConnectionHandler, ConnectionId, FromSwarm, NetworkBehaviour, THandler, THandlerInEvent,
    THandlerOutEvent, ToSwarm,
};
use std::collections::{HashMap, VecDeque};
use std::io;
use std::pin::Pin;
use std::sync::atomic::{AtomicBool, Ordering};
use std::sync::{Arc, Mutex};
use std::task::{Context, Poll, Wake, Waker};

// ---------------------------------------------------------------------------------------------
// shared log: swarm events, behaviour callbacks, handler deliveries, transport calls — in order

#[derive(Default)]
pub struct World {
    pub log: Vec<String>,
    /// real ConnectionId -> small integer by first appearance
    pub conn_names: HashMap<ConnectionId, usize>,
    pub peer_names: Vec<PeerId>,
    pub listener_names: HashMap<ListenerId, usize>,
}

pub type Shared = Arc<Mutex<World>>;

impl World {
    pub fn conn(&mut self, id: ConnectionId) -> usize {
        let n = self.conn_names.len();
        *self.conn_names.entry(id).or_insert(n)
    }
    pub fn peer(&mut self, p: &PeerId) -> String {
        match self.peer_names.iter().position(|q| q == p) {
            Some(i) => i.to_string(),
            None => {
                self.peer_names.push(*p);
                (self.peer_names.len() - 1).to_string()
            }
        }
    }
    pub fn opeer(&mut self, p: &Option<PeerId>) -> String {
        match p {
            Some(p) => self.peer(p),
            None => "none".into(),
        }
    }
    pub fn listener(&mut self, l: ListenerId) -> usize {
        let n = self.listener_names.len();
        *self.listener_names.entry(l).or_insert(n)
    }
    pub fn push(&mut self, s: String) {
        self.log.push(s);
    }
}

// ---------------------------------------------------------------------------------------------
// scripted muxer

#[derive(Default)]
pub struct MuxState {
    pub fail: bool,
    pub closed: bool,
    /// while set, `poll_close` stays pending (the connection is closing but not yet closed)
    pub hold_close: bool,
    pub close_waker: Option<Waker>,
    pub waker: Option<Waker>,
    pub label: String,
}

pub struct ScriptedMuxer {
    pub st: Arc<Mutex<MuxState>>,
    pub world: Shared,
}

pub struct NoStream;
impl AsyncRead for NoStream {
    fn poll_read(self: Pin<&mut Self>, _: &mut Context<'_>, _: &mut [u8]) -> Poll<io::Result<usize>> {
        Poll::Pending
    }
}
impl AsyncWrite for NoStream {
    fn poll_write(self: Pin<&mut Self>, _: &mut Context<'_>, _: &[u8]) -> Poll<io::Result<usize>> {
        Poll::Pending
    }
    fn poll_flush(self: Pin<&mut Self>, _: &mut Context<'_>) -> Poll<io::Result<()>> {
        Poll::Pending
    }
    fn poll_close(self: Pin<&mut Self>, _: &mut Context<'_>) -> Poll<io::Result<()>> {
        Poll::Pending
    }
}

impl StreamMuxer for ScriptedMuxer {
    type Substream = NoStream;
    type Error = io::Error;
    fn poll_inbound(self: Pin<&mut Self>, cx: &mut Context<'_>) -> Poll<Result<NoStream, io::Error>> {
        self.st.lock().unwrap().waker = Some(cx.waker().clone());
        Poll::Pending
    }
    fn poll_outbound(self: Pin<&mut Self>, cx: &mut Context<'_>) -> Poll<Result<NoStream, io::Error>> {
        self.st.lock().unwrap().waker = Some(cx.waker().clone());
        Poll::Pending
    }
    fn poll_close(self: Pin<&mut Self>, cx: &mut Context<'_>) -> Poll<Result<(), io::Error>> {
        let mut st = self.st.lock().unwrap();
        if st.hold_close {
            st.close_waker = Some(cx.waker().clone());
            return Poll::Pending;
        }
        if !st.closed {
            st.closed = true;
            let label = st.label.clone();
            drop(st);
            self.world.lock().unwrap().push(format!("mux,closed,{label}"));
        }
        Poll::Ready(Ok(()))
    }
    fn poll(self: Pin<&mut Self>, cx: &mut Context<'_>) -> Poll<Result<StreamMuxerEvent, io::Error>> {
        let mut st = self.st.lock().unwrap();
        if st.fail {
            return Poll::Ready(Err(io::Error::new(io::ErrorKind::ConnectionReset, "scripted remote close")));
        }
        st.waker = Some(cx.waker().clone());
        Poll::Pending
    }
}

// ---------------------------------------------------------------------------------------------
// scripted transport

pub type Upgrade = Pin<Box<dyn futures::Future<Output = Result<(PeerId, StreamMuxerBox), io::Error>> + Send>>;
pub type Resolver = oneshot::Sender<Result<(PeerId, StreamMuxerBox), io::Error>>;

#[derive(Default)]
pub struct TransportState {
    /// every `Transport::dial` call, in order: (address, resolver if accepted)
    pub dials: Vec<(Multiaddr, Option<Resolver>)>,
    /// addresses for which `dial` returns `MultiaddrNotSupported`
    pub refuse: Vec<Multiaddr>,
    pub events: VecDeque<TransportEvent<Upgrade, io::Error>>,
    pub waker: Option<Waker>,
    pub listens: Vec<(ListenerId, Multiaddr)>,
    pub incoming: Vec<Option<Resolver>>,
}

pub struct ScriptedTransport {
    pub st: Arc<Mutex<TransportState>>,
    pub world: Shared,
}

impl Transport for ScriptedTransport {
    type Output = (PeerId, StreamMuxerBox);
    type Error = io::Error;
    type ListenerUpgrade = Upgrade;
    type Dial = Upgrade;

    fn listen_on(&mut self, id: ListenerId, addr: Multiaddr) -> Result<(), TransportError<io::Error>> {
        self.st.lock().unwrap().listens.push((id, addr));
        Ok(())
    }
    fn remove_listener(&mut self, id: ListenerId) -> bool {
        let mut st = self.st.lock().unwrap();
        let had = st.listens.iter().any(|(l, _)| *l == id);
        st.listens.retain(|(l, _)| *l != id);
        if had {
            st.events.push_back(TransportEvent::ListenerClosed { listener_id: id, reason: Ok(()) });
        }
        had
    }
    fn dial(&mut self, addr: Multiaddr, _opts: TDialOpts) -> Result<Upgrade, TransportError<io::Error>> {
        let mut st = self.st.lock().unwrap();
        self.world.lock().unwrap().push(format!("tdial,{}", hcore::maddr_tok(&addr)));
        if st.refuse.contains(&addr) {
            st.dials.push((addr.clone(), None));
            return Err(TransportError::MultiaddrNotSupported(addr));
        }
        let (tx, rx) = oneshot::channel();
        st.dials.push((addr, Some(tx)));
        Ok(rx
            .map(|r| match r {
                Ok(v) => v,
                Err(_) => Err(io::Error::new(io::ErrorKind::Other, "dial dropped")),
            })
            .boxed())
    }
    fn poll(self: Pin<&mut Self>, cx: &mut Context<'_>) -> Poll<TransportEvent<Upgrade, io::Error>> {
        let mut st = self.st.lock().unwrap();
        if let Some(e) = st.events.pop_front() {
            return Poll::Ready(e);
        }
        st.waker = Some(cx.waker().clone());
        Poll::Pending
    }
}

// ---------------------------------------------------------------------------------------------
// probe handler + behaviour

pub struct ProbeHandler {
    pub name: String,
    pub conn: usize,
    pub world: Shared,
    pub out: VecDeque<u32>,
}

impl ConnectionHandler for ProbeHandler {
    type FromBehaviour = u32;
    type ToBehaviour = u32;
    type InboundProtocol = DeniedUpgrade;
    type OutboundProtocol = DeniedUpgrade;
    type InboundOpenInfo = ();
    type OutboundOpenInfo = ();

    fn listen_protocol(&self) -> SubstreamProtocol<DeniedUpgrade> {
        SubstreamProtocol::new(DeniedUpgrade, ())
    }
    fn connection_keep_alive(&self) -> bool {
        true
    }
    fn on_behaviour_event(&mut self, ev: u32) {
        self.world.lock().unwrap().push(format!("h,{},recv,{},{}", self.name, self.conn, ev));
        // echo back so the behaviour sees which handler produced it (C58 routing)
        self.out.push_back(ev);
    }
    fn poll(&mut self, _: &mut Context<'_>) -> Poll<ConnectionHandlerEvent<DeniedUpgrade, (), u32>> {
        if let Some(e) = self.out.pop_front() {
            return Poll::Ready(ConnectionHandlerEvent::NotifyBehaviour(e));
        }
        Poll::Pending
    }
    fn on_connection_event(&mut self, _: ConnectionEvent<DeniedUpgrade, DeniedUpgrade>) {}
}

#[derive(Default, Clone)]
pub struct Script {
    pub deny_pending_in: bool,
    pub deny_pending_out: bool,
    pub deny_est_in: bool,
    pub deny_est_out: bool,
    pub beh_addrs: Vec<Multiaddr>,
}

#[derive(Debug)]
pub struct Denied(pub &'static str);
impl std::fmt::Display for Denied {
    fn fmt(&self, f: &mut std::fmt::Formatter<'_>) -> std::fmt::Result {
        write!(f, "denied:{}", self.0)
    }
}
impl std::error::Error for Denied {}

pub struct Probe {
    pub name: String,
    pub world: Shared,
    pub script: Arc<Mutex<Script>>,
    pub queue: Arc<Mutex<VecDeque<ToSwarm<u32, u32>>>>,
    pub waker: Option<Waker>,
}

impl Probe {
    pub fn new(name: &str, world: Shared) -> Self {
        Probe {
            name: name.into(),
            world,
            script: Default::default(),
            queue: Default::default(),
            waker: None,
        }
    }
}

pub fn err_kind(e: &(dyn std::error::Error + 'static)) -> String {
    // DialError / ListenError Display start with a stable prefix; map to a small enum by Debug name
    let d = format!("{:?}", e);
    d.split(|c: char| !c.is_alphanumeric()).next().unwrap_or("?").to_string()
}

impl NetworkBehaviour for Probe {
    type ConnectionHandler = ProbeHandler;
    type ToSwarm = u32;

    fn handle_pending_inbound_connection(&mut self, id: ConnectionId, _l: &Multiaddr, _r: &Multiaddr) -> Result<(), ConnectionDenied> {
        let mut w = self.world.lock().unwrap();
        let c = w.conn(id);
        let deny = self.script.lock().unwrap().deny_pending_in;
        w.push(format!("b,{},pendingIn,{},{}", self.name, c, if deny { "deny" } else { "ok" }));
        if deny {
            Err(ConnectionDenied::new(Denied("pendingIn")))
        } else {
            Ok(())
        }
    }
    fn handle_pending_outbound_connection(
        &mut self,
        id: ConnectionId,
        _peer: Option<PeerId>,
        _addrs: &[Multiaddr],
        _eff: Endpoint,
    ) -> Result<Vec<Multiaddr>, ConnectionDenied> {
        let mut w = self.world.lock().unwrap();
        let c = w.conn(id);
        let s = self.script.lock().unwrap();
        w.push(format!("b,{},pendingOut,{},{}", self.name, c, if s.deny_pending_out { "deny" } else { "ok" }));
        if s.deny_pending_out {
            Err(ConnectionDenied::new(Denied("pendingOut")))
        } else {
            Ok(s.beh_addrs.clone())
        }
    }
    fn handle_established_inbound_connection(
        &mut self,
        id: ConnectionId,
        _peer: PeerId,
        _l: &Multiaddr,
        _r: &Multiaddr,
    ) -> Result<THandler<Self>, ConnectionDenied> {
        let mut w = self.world.lock().unwrap();
        let c = w.conn(id);
        let deny = self.script.lock().unwrap().deny_est_in;
        w.push(format!("b,{},estIn,{},{}", self.name, c, if deny { "deny" } else { "handler" }));
        if deny {
            Err(ConnectionDenied::new(Denied("estIn")))
        } else {
            Ok(ProbeHandler { name: self.name.clone(), conn: c, world: self.world.clone(), out: Default::default() })
        }
    }
    fn handle_established_outbound_connection(
        &mut self,
        id: ConnectionId,
        _peer: PeerId,
        _addr: &Multiaddr,
        _role: Endpoint,
        _pu: PortUse,
    ) -> Result<THandler<Self>, ConnectionDenied> {
        let mut w = self.world.lock().unwrap();
        let c = w.conn(id);
        let deny = self.script.lock().unwrap().deny_est_out;
        w.push(format!("b,{},estOut,{},{}", self.name, c, if deny { "deny" } else { "handler" }));
        if deny {
            Err(ConnectionDenied::new(Denied("estOut")))
        } else {
            Ok(ProbeHandler { name: self.name.clone(), conn: c, world: self.world.clone(), out: Default::default() })
        }
    }
    fn on_swarm_event(&mut self, ev: FromSwarm) {
        let mut w = self.world.lock().unwrap();
        let n = self.name.clone();
        let line = match ev {
            FromSwarm::ConnectionEstablished(e) => {
                let c = w.conn(e.connection_id);
                let p = w.peer(&e.peer_id);
                let failed: Vec<String> = e.failed_addresses.iter().map(hcore::maddr_tok).collect();
                format!(
                    "b,{n},Established,{c},{p},{},other={},failed={}",
                    if e.endpoint.is_dialer() { "out" } else { "in" },
                    e.other_established,
                    if failed.is_empty() { "~".into() } else { failed.join(";") }
                )
            }
            FromSwarm::ConnectionClosed(e) => {
                let c = w.conn(e.connection_id);
                let p = w.peer(&e.peer_id);
                format!("b,{n},Closed,{c},{p},remaining={},{}", e.remaining_established, if e.cause.is_some() { "err" } else { "clean" })
            }
            FromSwarm::DialFailure(e) => {
                let c = w.conn(e.connection_id);
                let p = w.opeer(&e.peer_id);
                format!("b,{n},DialFailure,{c},{p},{}", dial_err_kind(e.error, &mut w))
            }
            FromSwarm::ListenFailure(e) => {
                let c = w.conn(e.connection_id);
                let p = w.opeer(&e.peer_id);
                format!("b,{n},ListenFailure,{c},{p},{}", listen_err_kind(e.error))
            }
            FromSwarm::NewListener(e) => format!("b,{n},NewListener,{}", w.listener(e.listener_id)),
            FromSwarm::NewListenAddr(e) => format!("b,{n},NewListenAddr,{},{}", w.listener(e.listener_id), hcore::maddr_tok(e.addr)),
            FromSwarm::ExpiredListenAddr(e) => format!("b,{n},ExpiredListenAddr,{},{}", w.listener(e.listener_id), hcore::maddr_tok(e.addr)),
            FromSwarm::ListenerClosed(e) => format!("b,{n},ListenerClosed,{}", w.listener(e.listener_id)),
            FromSwarm::ListenerError(e) => format!("b,{n},ListenerError,{}", w.listener(e.listener_id)),
            FromSwarm::ExternalAddrConfirmed(e) => format!("b,{n},ExternalAddrConfirmed,{}", hcore::maddr_tok(e.addr)),
            FromSwarm::ExternalAddrExpired(e) => format!("b,{n},ExternalAddrExpired,{}", hcore::maddr_tok(e.addr)),
            FromSwarm::NewExternalAddrCandidate(e) => format!("b,{n},NewExternalAddrCandidate,{}", hcore::maddr_tok(e.addr)),
            FromSwarm::NewExternalAddrOfPeer(e) => {
                let p = w.peer(&e.peer_id);
                format!("b,{n},NewExternalAddrOfPeer,{p},{}", hcore::maddr_tok(e.addr))
            }
            FromSwarm::AddressChange(e) => format!("b,{n},AddressChange,{}", w.conn(e.connection_id)),
            _ => format!("b,{n},other"),
        };
        w.push(line);
    }
    fn on_connection_handler_event(&mut self, peer: PeerId, id: ConnectionId, ev: THandlerOutEvent<Self>) {
        let mut w = self.world.lock().unwrap();
        let c = w.conn(id);
        let p = w.peer(&peer);
        w.push(format!("b,{},fromHandler,{},{},{}", self.name, c, p, ev));
    }
    fn poll(&mut self, cx: &mut Context<'_>) -> Poll<ToSwarm<u32, THandlerInEvent<Self>>> {
        if let Some(e) = self.queue.lock().unwrap().pop_front() {
            return Poll::Ready(e);
        }
        self.waker = Some(cx.waker().clone());
        Poll::Pending
    }
}

pub fn dial_err_kind(e: &libp2p_swarm::DialError, w: &mut World) -> String {
    use libp2p_swarm::DialError::*;
    match e {
        LocalPeerId { .. } => "LocalPeerId".into(),
        NoAddresses => "NoAddresses".into(),
        DialPeerConditionFalse(_) => "DialPeerConditionFalse".into(),
        Aborted => "Aborted".into(),
        WrongPeerId { obtained, .. } => format!("WrongPeerId={}", w.peer(obtained)),
        Denied { .. } => "Denied".into(),
        Transport(errs) => {
            let l: Vec<String> = errs
                .iter()
                .map(|(a, e)| {
                    format!(
                        "{}={}",
                        hcore::maddr_tok(a),
                        match e {
                            TransportError::MultiaddrNotSupported(_) => "NotSupported",
                            TransportError::Other(_) => "Other",
                        }
                    )
                })
                .collect();
            format!("Transport[{}]", l.join(";"))
        }
    }
}

pub fn listen_err_kind(e: &libp2p_swarm::ListenError) -> String {
    use libp2p_swarm::ListenError::*;
    match e {
        Aborted => "Aborted".into(),
        WrongPeerId { .. } => "WrongPeerId".into(),
        LocalPeerId { .. } => "LocalPeerId".into(),
        Denied { .. } => "Denied".into(),
        Transport(_) => "Transport".into(),
    }
}

// ---------------------------------------------------------------------------------------------
// polling

pub struct Flag(pub AtomicBool);
impl Wake for Flag {
    fn wake(self: Arc<Self>) {
        self.0.store(true, Ordering::SeqCst);
    }
    fn wake_by_ref(self: &Arc<Self>) {
        self.0.store(true, Ordering::SeqCst);
    }
}

/// Poll the swarm until two consecutive `Pending`s without a wake-up; every SwarmEvent is
/// rendered by `render` into the shared log.
pub fn settle<B: NetworkBehaviour>(
    swarm: &mut libp2p_swarm::Swarm<B>,
    world: &Shared,
    render: &mut dyn FnMut(libp2p_swarm::SwarmEvent<B::ToSwarm>, &mut World) -> String,
) {
    let flag = Arc::new(Flag(AtomicBool::new(false)));
    let waker = Waker::from(flag.clone());
    let mut cx = Context::from_waker(&waker);
    let mut idle = 0;
    let mut guard = 0;
    while idle < 2 {
        guard += 1;
        assert!(guard < 100_000, "swarm does not settle");
        flag.0.store(false, Ordering::SeqCst);
        match swarm.poll_next_unpin(&mut cx) {
            Poll::Ready(Some(ev)) => {
                let mut w = world.lock().unwrap();
                let s = render(ev, &mut w);
                w.push(s);
                idle = 0;
            }
            Poll::Ready(None) => unreachable!(),
            Poll::Pending => {
                if flag.0.load(Ordering::SeqCst) {
                    idle = 0;
                } else {
                    idle += 1;
                }
            }
        }
    }
}

pub fn render_event<T: std::fmt::Debug>(ev: libp2p_swarm::SwarmEvent<T>, w: &mut World) -> String {
    use libp2p_swarm::SwarmEvent::*;
    match ev {
        Behaviour(e) => format!("s,Behaviour,{:?}", e),
        ConnectionEstablished { peer_id, connection_id, endpoint, num_established, concurrent_dial_errors, .. } => {
            let c = w.conn(connection_id);
            let p = w.peer(&peer_id);
            let failed: Vec<String> = concurrent_dial_errors.unwrap_or_default().iter().map(|(a, _)| hcore::maddr_tok(a)).collect();
            format!(
                "s,Established,{c},{p},{},num={},failed={}",
                if endpoint.is_dialer() { "out" } else { "in" },
                num_established,
                if failed.is_empty() { "~".into() } else { failed.join(";") }
            )
        }
        ConnectionClosed { peer_id, connection_id, num_established, cause, .. } => {
            let c = w.conn(connection_id);
            let p = w.peer(&peer_id);
            let k = match &cause {
                None => "clean".to_string(),
                Some(libp2p_swarm::ConnectionError::IO(_)) => "err:IO".into(),
                Some(libp2p_swarm::ConnectionError::KeepAliveTimeout) => "err:KeepAliveTimeout".into(),
            };
            format!("s,Closed,{c},{p},num={num_established},{k}")
        }
        IncomingConnection { connection_id, .. } => format!("s,Incoming,{}", w.conn(connection_id)),
        IncomingConnectionError { connection_id, error, peer_id, .. } => {
            let c = w.conn(connection_id);
            let p = w.opeer(&peer_id);
            format!("s,IncomingError,{c},{p},{}", listen_err_kind(&error))
        }
        OutgoingConnectionError { connection_id, peer_id, error } => {
            let c = w.conn(connection_id);
            let p = w.opeer(&peer_id);
            format!("s,OutgoingError,{c},{p},{}", dial_err_kind(&error, w))
        }
        NewListenAddr { listener_id, address } => format!("s,NewListenAddr,{},{}", w.listener(listener_id), hcore::maddr_tok(&address)),
        ExpiredListenAddr { listener_id, address } => format!("s,ExpiredListenAddr,{},{}", w.listener(listener_id), hcore::maddr_tok(&address)),
        ListenerClosed { listener_id, addresses, .. } => {
            format!("s,ListenerClosed,{},{}", w.listener(listener_id), hcore::maddr_list_tok(&addresses))
        }
        ListenerError { listener_id, .. } => format!("s,ListenerError,{}", w.listener(listener_id)),
        Dialing { peer_id, connection_id } => {
            let c = w.conn(connection_id);
            format!("s,Dialing,{c},{}", w.opeer(&peer_id))
        }
        NewExternalAddrCandidate { address } => format!("s,NewExternalAddrCandidate,{}", hcore::maddr_tok(&address)),
        ExternalAddrConfirmed { address } => format!("s,ExternalAddrConfirmed,{}", hcore::maddr_tok(&address)),
        ExternalAddrExpired { address } => format!("s,ExternalAddrExpired,{}", hcore::maddr_tok(&address)),
        NewExternalAddrOfPeer { peer_id, address } => {
            let p = w.peer(&peer_id);
            format!("s,NewExternalAddrOfPeer,{p},{}", hcore::maddr_tok(&address))
        }
        _ => "s,other".into(),
    }
}

/// Everything needed to drive one simulated Swarm.
pub struct Sim<B: NetworkBehaviour> {
    pub swarm: libp2p_swarm::Swarm<B>,
    pub world: Shared,
    pub tstate: Arc<Mutex<TransportState>>,
    pub muxers: Vec<Arc<Mutex<MuxState>>>,
    pub local: PeerId,
}

impl<B: NetworkBehaviour> Sim<B>
where
    B::ToSwarm: std::fmt::Debug,
{
    pub fn new(make: impl FnOnce(Shared) -> B, local: PeerId, cfg: libp2p_swarm::Config) -> Self {
        let world: Shared = Default::default();
        // name the local peer 0 so logs are stable
        world.lock().unwrap().peer(&local);
        let tstate: Arc<Mutex<TransportState>> = Default::default();
        let transport = ScriptedTransport { st: tstate.clone(), world: world.clone() };
        let beh = make(world.clone());
        let swarm = libp2p_swarm::Swarm::new(transport.boxed(), beh, local, cfg);
        Sim { swarm, world, tstate, muxers: vec![], local }
    }

    pub fn settle(&mut self) {
        let world = self.world.clone();
        settle(&mut self.swarm, &world, &mut |e, w| render_event(e, w));
    }

    /// exactly one `Swarm::poll` call (events, if any, are logged)
    pub fn poll_once(&mut self) {
        let flag = Arc::new(Flag(AtomicBool::new(false)));
        let waker = Waker::from(flag);
        let mut cx = Context::from_waker(&waker);
        if let Poll::Ready(Some(ev)) = self.swarm.poll_next_unpin(&mut cx) {
            let mut w = self.world.lock().unwrap();
            let s = render_event(ev, &mut w);
            w.push(s);
        }
    }

    pub fn take_log(&mut self) -> Vec<String> {
        std::mem::take(&mut self.world.lock().unwrap().log)
    }

    pub fn new_muxer(&mut self, label: &str) -> (StreamMuxerBox, Arc<Mutex<MuxState>>) {
        let st = Arc::new(Mutex::new(MuxState { label: label.into(), ..Default::default() }));
        self.muxers.push(st.clone());
        (StreamMuxerBox::new(ScriptedMuxer { st: st.clone(), world: self.world.clone() }), st)
    }

    /// complete the k-th `Transport::dial` call
    pub fn resolve_dial(&mut self, k: usize, res: Result<PeerId, ()>) -> Option<Arc<Mutex<MuxState>>> {
        let tx = self.tstate.lock().unwrap().dials.get_mut(k).and_then(|d| d.1.take())?;
        match res {
            Ok(p) => {
                let (m, st) = self.new_muxer(&format!("d{k}"));
                let _ = tx.send(Ok((p, m)));
                Some(st)
            }
            Err(()) => {
                let _ = tx.send(Err(io::Error::new(io::ErrorKind::ConnectionRefused, "scripted dial failure")));
                None
            }
        }
    }

    /// queue an incoming connection on a listener; returns its index in `incoming`
    pub fn push_incoming(&mut self, listener: ListenerId, local_addr: Multiaddr, send_back: Multiaddr) -> usize {
        let (tx, rx) = oneshot::channel();
        let mut st = self.tstate.lock().unwrap();
        st.incoming.push(Some(tx));
        let up: Upgrade = rx
            .map(|r| match r {
                Ok(v) => v,
                Err(_) => Err(io::Error::new(io::ErrorKind::Other, "upgrade dropped")),
            })
            .boxed();
        st.events.push_back(TransportEvent::Incoming { listener_id: listener, upgrade: up, local_addr, send_back_addr: send_back });
        if let Some(w) = st.waker.take() {
            w.wake();
        }
        st.incoming.len() - 1
    }

    pub fn resolve_incoming(&mut self, k: usize, res: Result<PeerId, ()>) -> Option<Arc<Mutex<MuxState>>> {
        let tx = self.tstate.lock().unwrap().incoming.get_mut(k).and_then(|d| d.take())?;
        match res {
            Ok(p) => {
                let (m, st) = self.new_muxer(&format!("i{k}"));
                let _ = tx.send(Ok((p, m)));
                Some(st)
            }
            Err(()) => {
                let _ = tx.send(Err(io::Error::new(io::ErrorKind::ConnectionReset, "scripted upgrade failure")));
                None
            }
        }
    }

    pub fn push_transport_event(&mut self, ev: TransportEvent<Upgrade, io::Error>) {
        let mut st = self.tstate.lock().unwrap();
        st.events.push_back(ev);
        if let Some(w) = st.waker.take() {
            w.wake();
        }
    }

    pub fn fail_muxer(m: &Arc<Mutex<MuxState>>) {
        let mut st = m.lock().unwrap();
        st.fail = true;
        if let Some(w) = st.waker.take() {
            w.wake();
        }
    }

    /// canonical observations: counters, connected peers, is_connected per known peer
    pub fn observe(&mut self) -> String {
        let info = self.swarm.network_info();
        let c = info.connection_counters();
        let mut peers: Vec<String> = {
            let ps: Vec<PeerId> = self.swarm.connected_peers().cloned().collect();
            let mut w = self.world.lock().unwrap();
            ps.iter().map(|p| w.peer(p)).collect()
        };
        peers.sort_by_key(|s| s.parse::<usize>().unwrap_or(0));
        format!(
            "pi={} po={} ei={} eo={} np={} peers={}",
            c.num_pending_incoming(),
            c.num_pending_outgoing(),
            c.num_established_incoming(),
            c.num_established_outgoing(),
            info.num_peers(),
            hcore::list(&peers)
        )
    }
}
