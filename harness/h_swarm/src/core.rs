//! Swarm core scenarios (C01 C02 C04 C05 C06): random scripts of API calls and environment moves
//! against a real `Swarm<Probe>` over the scripted transport, one move at a time, polled to quiescence.
use crate::sim::*;
use hcore::{maddr_list_tok, maddr_tok, Args, Multiaddr, Out, Protocol, Rng};
use libp2p_core::transport::{ListenerId, TransportEvent};
use libp2p_core::PeerId;
use libp2p_swarm::dial_opts::{DialOpts, PeerCondition};
use libp2p_swarm::{CloseConnection, ConnectionId, ToSwarm};
use std::collections::HashMap;

#[derive(Clone, Debug)]
pub enum Op {
    Dial { via_beh: bool, cond: u8, peer: Option<usize>, addrs: Vec<Multiaddr>, extend: bool, beh_addrs: Vec<Multiaddr>, deny: bool, refuse: Vec<Multiaddr> },
    Resolve { k: usize, peer: usize, deny: bool },
    Fail { k: usize },
    Incoming { deny: bool },
    ResolveIn { k: usize, peer: usize, deny: bool },
    FailIn { k: usize },
    Close { c: usize },
    Disconnect { peer: usize },
    RemoteClose { c: usize },
    NewAddr { a: Multiaddr },
    ExpireAddr { a: Multiaddr },
    BehClose { peer: usize, one: Option<usize> },
    /// resolve transport dial k with `peer`, poll the Swarm ONCE (the task queues its report), call
    /// disconnect_peer_id(dp), then poll to quiescence
    Race { k: usize, peer: usize, deny: bool, dp: usize },
    /// close_connection(c) while the muxer's poll_close is held pending
    CloseHold { c: usize },
    /// let the held muxer finish closing
    Release { c: usize },
}

pub fn peers() -> Vec<PeerId> {
    (0..5u8).map(hcore::peer).collect()
}

pub fn peers_tok() -> String {
    peers().iter().map(|p| hcore::hex(&p.to_bytes())).collect::<Vec<_>>().join(";")
}

pub fn base_addrs() -> Vec<Multiaddr> {
    (0..6u8)
        .map(|i| {
            let mut a = Multiaddr::empty();
            a.push(Protocol::Ip4([10, 0, 0, i + 1].into()));
            a.push(Protocol::Tcp(1000 + i as u16));
            a
        })
        .collect()
}

fn cond_name(c: u8) -> &'static str {
    ["always", "disc", "notdialing", "dnd"][c as usize]
}

pub fn parse_maddr(tok: &str) -> Multiaddr {
    let mut a = Multiaddr::empty();
    if tok == "-" {
        return a;
    }
    for c in tok.split('/') {
        let mut it = c.splitn(2, ':');
        let name = it.next().unwrap();
        let v = it.next().unwrap_or("");
        a.push(match name {
            "ip4" => Protocol::Ip4(v.parse::<u32>().unwrap().into()),
            "tcp" => Protocol::Tcp(v.parse().unwrap()),
            "p2p" => Protocol::P2p(PeerId::from_bytes(&hcore::unhex(v)).unwrap()),
            "p2p-circuit" => Protocol::P2pCircuit,
            other => panic!("replay: unsupported component {other}"),
        });
    }
    a
}

fn parse_list(tok: &str) -> Vec<Multiaddr> {
    if tok == "~" {
        vec![]
    } else {
        tok.split(';').map(parse_maddr).collect()
    }
}

impl Op {
    pub fn render(&self) -> String {
        match self {
            Op::Dial { via_beh, cond, peer, addrs, extend, beh_addrs, deny, refuse } => format!(
                "dial {} {} {} {} {} {} {} {}",
                if *via_beh { "beh" } else { "api" },
                cond_name(*cond),
                peer.map(|p| p.to_string()).unwrap_or("none".into()),
                maddr_list_tok(addrs),
                *extend as u8,
                maddr_list_tok(beh_addrs),
                *deny as u8,
                maddr_list_tok(refuse)
            ),
            Op::Resolve { k, peer, deny } => format!("resolve {k} {peer} {}", *deny as u8),
            Op::Fail { k } => format!("fail {k}"),
            Op::Incoming { deny } => format!("incoming {}", *deny as u8),
            Op::ResolveIn { k, peer, deny } => format!("resolveIn {k} {peer} {}", *deny as u8),
            Op::FailIn { k } => format!("failIn {k}"),
            Op::Close { c } => format!("close {c}"),
            Op::Disconnect { peer } => format!("disconnect {peer}"),
            Op::RemoteClose { c } => format!("remoteClose {c}"),
            Op::NewAddr { a } => format!("newaddr {}", maddr_tok(a)),
            Op::ExpireAddr { a } => format!("expire {}", maddr_tok(a)),
            Op::BehClose { peer, one } => format!("behClose {peer} {}", one.map(|c| c.to_string()).unwrap_or("all".into())),
            Op::Race { k, peer, deny, dp } => format!("race {k} {peer} {} {dp}", *deny as u8),
            Op::CloseHold { c } => format!("closeHold {c}"),
            Op::Release { c } => format!("release {c}"),
        }
    }
    pub fn parse(t: &[String]) -> Op {
        let n = |i: usize| t[i].parse::<usize>().unwrap();
        match t[0].as_str() {
            "dial" => Op::Dial {
                via_beh: t[1] == "beh",
                cond: ["always", "disc", "notdialing", "dnd"].iter().position(|c| *c == t[2]).unwrap() as u8,
                peer: if t[3] == "none" { None } else { Some(n(3)) },
                addrs: parse_list(&t[4]),
                extend: t[5] == "1",
                beh_addrs: parse_list(&t[6]),
                deny: t[7] == "1",
                refuse: parse_list(&t[8]),
            },
            "resolve" => Op::Resolve { k: n(1), peer: n(2), deny: t[3] == "1" },
            "fail" => Op::Fail { k: n(1) },
            "incoming" => Op::Incoming { deny: t[1] == "1" },
            "resolveIn" => Op::ResolveIn { k: n(1), peer: n(2), deny: t[3] == "1" },
            "failIn" => Op::FailIn { k: n(1) },
            "close" => Op::Close { c: n(1) },
            "disconnect" => Op::Disconnect { peer: n(1) },
            "remoteClose" => Op::RemoteClose { c: n(1) },
            "newaddr" => Op::NewAddr { a: parse_maddr(&t[1]) },
            "expire" => Op::ExpireAddr { a: parse_maddr(&t[1]) },
            "behClose" => Op::BehClose { peer: n(1), one: if t[2] == "all" { None } else { Some(n(2)) } },
            "race" => Op::Race { k: n(1), peer: n(2), deny: t[3] == "1", dp: n(4) },
            "closeHold" => Op::CloseHold { c: n(1) },
            "release" => Op::Release { c: n(1) },
            other => panic!("replay: unknown op {other}"),
        }
    }
}

pub struct Runner {
    pub sim: Sim<Probe>,
    pub peers: Vec<PeerId>,
    pub listener: ListenerId,
    pub script: std::sync::Arc<std::sync::Mutex<Script>>,
    pub queue: std::sync::Arc<std::sync::Mutex<std::collections::VecDeque<ToSwarm<u32, u32>>>>,
    /// muxer state per connection name
    pub mux_of_conn: HashMap<usize, std::sync::Arc<std::sync::Mutex<MuxState>>>,
    /// connection name owning the k-th transport dial / incoming
    pub n_incoming: usize,
    /// connections whose close is being held (closing, not yet closed)
    pub held: Vec<usize>,
    /// peer of every established connection (by connection name)
    pub peer_of_conn: HashMap<usize, usize>,
}

impl Runner {
    pub fn new() -> Self {
        let peers = peers();
        let mut script = None;
        let mut queue = None;
        let mut sim = Sim::new(
            |w| {
                let p = Probe::new("a", w);
                script = Some(p.script.clone());
                queue = Some(p.queue.clone());
                p
            },
            peers[0],
            // the step-mode model starts every selected address at once: keep the concurrency factor above the
            // longest address list a generator produces (<= 12)
            libp2p_swarm::Config::without_executor().with_dial_concurrency_factor(std::num::NonZeroU8::new(16).unwrap()),
        );
        {
            let mut w = sim.world.lock().unwrap();
            for p in &peers {
                w.peer(p);
            }
        }
        let listener = sim.swarm.listen_on("/ip4/10.9.9.9/tcp/9".parse().unwrap()).unwrap();
        sim.settle();
        sim.take_log();
        Runner { sim, peers, listener, script: script.unwrap(), queue: queue.unwrap(), mux_of_conn: HashMap::new(), n_incoming: 0, held: vec![], peer_of_conn: HashMap::new() }
    }

    fn real_conn(&self, c: usize) -> Option<ConnectionId> {
        self.sim.world.lock().unwrap().conn_names.iter().find(|(_, n)| **n == c).map(|(id, _)| *id)
    }

    /// associate freshly created muxers with the connection that got established in this step
    fn bind_mux(&mut self, st: Option<std::sync::Arc<std::sync::Mutex<MuxState>>>, log: &[String]) {
        if let Some(st) = st {
            for l in log {
                let f: Vec<&str> = l.split(',').collect();
                if f.len() > 3 && f[0] == "s" && f[1] == "Established" {
                    self.mux_of_conn.insert(f[2].parse().unwrap(), st.clone());
                    self.peer_of_conn.insert(f[2].parse().unwrap(), f[3].parse().unwrap());
                }
            }
        }
    }

    /// execute one op; returns (result token, raw ordered log)
    pub fn exec(&mut self, op: &Op) -> (String, Vec<String>) {
        let mut res = "res=-".to_string();
        let mut new_mux = None;
        match op {
            Op::Dial { via_beh, cond, peer, addrs, extend, beh_addrs, deny, refuse } => {
                {
                    let mut s = self.script.lock().unwrap();
                    s.deny_pending_out = *deny;
                    s.beh_addrs = beh_addrs.clone();
                }
                self.sim.tstate.lock().unwrap().refuse = refuse.clone();
                let pc = match cond {
                    0 => PeerCondition::Always,
                    1 => PeerCondition::Disconnected,
                    2 => PeerCondition::NotDialing,
                    _ => PeerCondition::DisconnectedAndNotDialing,
                };
                let opts: DialOpts = match peer {
                    Some(p) => {
                        let b = DialOpts::peer_id(self.peers[*p]).condition(pc).addresses(addrs.clone());
                        if *extend {
                            b.extend_addresses_through_behaviour().build()
                        } else {
                            b.build()
                        }
                    }
                    None => DialOpts::unknown_peer_id().address(addrs.first().cloned().unwrap_or_else(Multiaddr::empty)).build(),
                };
                let id = self.sim.world.lock().unwrap().conn(opts.connection_id());
                if *via_beh {
                    self.queue.lock().unwrap().push_back(ToSwarm::Dial { opts });
                    res = format!("res=queued id={id}");
                } else {
                    let r = self.sim.swarm.dial(opts);
                    res = match r {
                        Ok(()) => format!("res=ok id={id}"),
                        Err(e) => {
                            let mut w = self.sim.world.lock().unwrap();
                            format!("res=err:{} id={id}", dial_err_kind(&e, &mut w))
                        }
                    };
                }
            }
            Op::Resolve { k, peer, deny } => {
                self.script.lock().unwrap().deny_est_out = *deny;
                new_mux = self.sim.resolve_dial(*k, Ok(self.peers[*peer]));
            }
            Op::Fail { k } => {
                self.sim.resolve_dial(*k, Err(()));
            }
            Op::Incoming { deny } => {
                self.script.lock().unwrap().deny_pending_in = *deny;
                let l = self.listener;
                self.sim.push_incoming(l, "/ip4/10.9.9.9/tcp/9".parse().unwrap(), format!("/ip4/10.7.7.7/tcp/{}", 2000 + self.n_incoming).parse().unwrap());
                self.n_incoming += 1;
            }
            Op::ResolveIn { k, peer, deny } => {
                self.script.lock().unwrap().deny_est_in = *deny;
                new_mux = self.sim.resolve_incoming(*k, Ok(self.peers[*peer]));
            }
            Op::FailIn { k } => {
                self.sim.resolve_incoming(*k, Err(()));
            }
            Op::Close { c } => {
                let r = match self.real_conn(*c) {
                    Some(id) => self.sim.swarm.close_connection(id),
                    None => false,
                };
                res = format!("res={}", r);
            }
            Op::Disconnect { peer } => {
                let r = self.sim.swarm.disconnect_peer_id(self.peers[*peer]);
                res = format!("res={}", if r.is_ok() { "ok" } else { "err" });
            }
            Op::RemoteClose { c } => {
                if let Some(m) = self.mux_of_conn.get(c) {
                    Sim::<Probe>::fail_muxer(m);
                }
            }
            Op::NewAddr { a } => {
                let l = self.listener;
                self.sim.push_transport_event(TransportEvent::NewAddress { listener_id: l, listen_addr: a.clone() });
            }
            Op::ExpireAddr { a } => {
                let l = self.listener;
                self.sim.push_transport_event(TransportEvent::AddressExpired { listener_id: l, listen_addr: a.clone() });
            }
            Op::CloseHold { c } => {
                if let Some(m) = self.mux_of_conn.get(c) {
                    m.lock().unwrap().hold_close = true;
                }
                let r = match self.real_conn(*c) {
                    Some(id) => self.sim.swarm.close_connection(id),
                    None => false,
                };
                if r {
                    self.held.push(*c);
                }
                res = format!("res={}", r);
            }
            Op::Release { c } => {
                if let Some(m) = self.mux_of_conn.get(c) {
                    let mut st = m.lock().unwrap();
                    st.hold_close = false;
                    if let Some(w) = st.close_waker.take() {
                        w.wake();
                    }
                }
                self.held.retain(|x| x != c);
            }
            Op::Race { k, peer, deny, dp } => {
                self.script.lock().unwrap().deny_est_out = *deny;
                new_mux = self.sim.resolve_dial(*k, Ok(self.peers[*peer]));
                self.sim.poll_once();
                let r = self.sim.swarm.disconnect_peer_id(self.peers[*dp]);
                res = format!("res={}", if r.is_ok() { "ok" } else { "err" });
            }
            Op::BehClose { peer, one } => {
                let connection = match one {
                    Some(c) => match self.real_conn(*c) {
                        Some(id) => CloseConnection::One(id),
                        None => CloseConnection::One(ConnectionId::new_unchecked(usize::MAX - 7)),
                    },
                    None => CloseConnection::All,
                };
                self.queue.lock().unwrap().push_back(ToSwarm::CloseConnection { peer_id: self.peers[*peer], connection });
            }
        }
        self.sim.settle();
        {
            let mut s = self.script.lock().unwrap();
            s.deny_pending_in = false;
            s.deny_pending_out = false;
            s.deny_est_in = false;
            s.deny_est_out = false;
        }
        let log = self.sim.take_log();
        self.bind_mux(new_mux, &log);
        (res, log)
    }

    /// run one op and print the two op/impl pairs (canonical + raw order)
    pub fn step(&mut self, op: &Op, out: &mut Out) {
        let r = hcore::guarded(|| self.exec(op));
        match r {
            Ok((res, raw)) => {
                // order oracle: connection ids of s,Closed events in the order they happened
                let closed: Vec<String> = raw
                    .iter()
                    .filter_map(|l| {
                        let f: Vec<&str> = l.split(',').collect();
                        (f[0] == "s" && f[1] == "Closed").then(|| f[2].to_string())
                    })
                    .collect();
                let aborted: Vec<String> = raw
                    .iter()
                    .filter_map(|l| {
                        let f: Vec<&str> = l.split(',').collect();
                        (f[0] == "s" && f[1] == "OutgoingError" && f.last() == Some(&"Aborted")).then(|| f[2].to_string())
                    })
                    .collect();
                out.op(&format!("{} order={} aborts={}", op.render(), hcore::list(&closed), hcore::list(&aborted)));
                let mut sorted = raw.clone();
                sorted.sort();
                let obs = self.sim.observe();
                out.imp(&format!("{} log={} {}", res, if sorted.is_empty() { "-".into() } else { sorted.join("|") }, obs));
                out.op("order");
                // raw order, with the `mux,closed` entries (detached close tasks) moved to the end
                let mut ordered: Vec<String> = raw.iter().filter(|l| !l.starts_with("mux,")).cloned().collect();
                let mut muxes: Vec<String> = raw.iter().filter(|l| l.starts_with("mux,")).cloned().collect();
                muxes.sort();
                ordered.extend(muxes);
                out.imp(&if ordered.is_empty() { "-".to_string() } else { ordered.join("|") });
            }
            Err(m) => {
                out.op(&format!("{} order=- aborts=-", op.render()));
                out.imp(&format!("panic {m}"));
            }
        }
    }
}

pub struct Gen {
    pub addrs: Vec<Multiaddr>,
    pub peers: Vec<PeerId>,
}

impl Gen {
    fn addr_variant(&self, rng: &mut Rng, target: Option<usize>) -> Multiaddr {
        let mut a = rng.pick(&self.addrs).clone();
        match rng.below(10) {
            0..=5 => {}
            6 | 7 => {
                if let Some(p) = target {
                    a.push(Protocol::P2p(self.peers[p]));
                }
            }
            8 => a.push(Protocol::P2p(self.peers[1 + rng.usize(4)])),
            _ => {
                a.push(Protocol::P2pCircuit);
            }
        }
        a
    }
    fn addr_list(&self, rng: &mut Rng, target: Option<usize>, max: usize) -> Vec<Multiaddr> {
        let n = rng.usize(max + 1);
        let mut v: Vec<Multiaddr> = (0..n).map(|_| self.addr_variant(rng, target)).collect();
        if n >= 2 && rng.chance(1, 3) {
            let d = v[0].clone();
            v.push(d);
        }
        v
    }
    /// While a connection of peer p is held closing, ops that close / disconnect p's connections are
    /// not generated (the step-mode model has no notion of "close requested twice").
    pub fn next(&self, rng: &mut Rng, r: &Runner) -> Op {
        loop {
            let op = self.next_raw(rng, r);
            let held_peers: Vec<usize> = r.held.iter().filter_map(|c| r.peer_of_conn.get(c).copied()).collect();
            let touches = |p: usize| held_peers.contains(&p);
            let conn_peer = |c: &usize| r.peer_of_conn.get(c).copied();
            let bad = match &op {
                Op::Close { c } | Op::RemoteClose { c } | Op::CloseHold { c } => conn_peer(c).map(touches).unwrap_or(false),
                Op::Disconnect { peer } => touches(*peer),
                Op::BehClose { peer, one } => touches(*peer) || one.as_ref().and_then(conn_peer).map(touches).unwrap_or(false),
                Op::Race { dp, .. } => touches(*dp),
                _ => false,
            };
            if !bad {
                return op;
            }
        }
    }

    /// C08 (Swarm level): dials over many addresses from overlapping sources (opts + behaviour, duplicates,
    /// /p2p forms, own listen addresses, refused ones) whose transport dials then fail / succeed in any order
    pub fn next_c08(&self, rng: &mut Rng, r: &Runner) -> Op {
        let n_dials = r.sim.tstate.lock().unwrap().dials.len();
        match rng.below(100) {
            0..=39 => {
                let peer = if rng.chance(1, 8) { None } else { Some(1 + rng.usize(3)) };
                let addrs = if peer.is_none() { vec![self.addr_variant(rng, None)] } else { self.addr_list(rng, peer, 5) };
                let mut beh_addrs = if rng.chance(2, 3) { self.addr_list(rng, peer, 3) } else { vec![] };
                if !addrs.is_empty() && rng.chance(1, 2) {
                    beh_addrs.push(rng.pick(&addrs).clone());
                }
                let refuse = if rng.chance(1, 5) { vec![self.addr_variant(rng, peer)] } else { vec![] };
                Op::Dial { via_beh: rng.chance(1, 6), cond: 0, peer, addrs, extend: peer.is_some() && rng.chance(3, 4), beh_addrs, deny: false, refuse }
            }
            40..=74 => Op::Fail { k: if n_dials == 0 { 0 } else { rng.usize(n_dials + 1) } },
            75..=89 => Op::Resolve { k: if n_dials == 0 { 0 } else { rng.usize(n_dials + 1) }, peer: 1 + rng.usize(3), deny: false },
            90..=94 => Op::NewAddr { a: rng.pick(&self.addrs).clone() },
            _ => Op::Disconnect { peer: 1 + rng.usize(3) },
        }
    }

    fn next_raw(&self, rng: &mut Rng, r: &Runner) -> Op {
        let n_dials = r.sim.tstate.lock().unwrap().dials.len();
        let n_conns = r.sim.world.lock().unwrap().conn_names.len();
        let some_conn = |rng: &mut Rng| if n_conns == 0 { 0 } else { rng.usize(n_conns + 1) };
        match rng.below(100) {
            0..=24 => {
                // mostly remote peers; sometimes no peer; sometimes our OWN peer id as the dial target
                let peer = if rng.chance(1, 6) {
                    None
                } else if rng.chance(1, 12) {
                    Some(0)
                } else {
                    Some(1 + rng.usize(3))
                };
                let addrs = if peer.is_none() {
                    vec![self.addr_variant(rng, None)]
                } else {
                    self.addr_list(rng, peer, 4)
                };
                let beh_addrs = if rng.chance(1, 3) { self.addr_list(rng, peer, 2) } else { vec![] };
                let refuse = if rng.chance(1, 4) {
                    let mut x = rng.pick(&self.addrs).clone();
                    if let Some(p) = peer {
                        if rng.bool() {
                            x.push(Protocol::P2p(self.peers[p]));
                        }
                    }
                    vec![x]
                } else {
                    vec![]
                };
                Op::Dial {
                    via_beh: rng.chance(1, 6),
                    cond: if peer.is_none() { 0 } else { rng.below(4) as u8 },
                    peer,
                    addrs,
                    extend: peer.is_some() && rng.chance(1, 2),
                    beh_addrs,
                    deny: rng.chance(1, 12),
                    refuse,
                }
            }
            25..=44 => Op::Resolve {
                k: if n_dials == 0 { 0 } else { rng.usize(n_dials + 1) },
                peer: match rng.below(10) {
                    0 => 0,
                    _ => 1 + rng.usize(3),
                },
                deny: rng.chance(1, 10),
            },
            45..=52 => Op::Fail { k: if n_dials == 0 { 0 } else { rng.usize(n_dials + 1) } },
            53..=62 => Op::Incoming { deny: rng.chance(1, 8) },
            63..=74 => Op::ResolveIn {
                k: if r.n_incoming == 0 { 0 } else { rng.usize(r.n_incoming + 1) },
                peer: match rng.below(10) {
                    0 => 0,
                    _ => 1 + rng.usize(3),
                },
                deny: rng.chance(1, 10),
            },
            75..=77 => Op::FailIn { k: if r.n_incoming == 0 { 0 } else { rng.usize(r.n_incoming + 1) } },
            78..=83 => Op::Close { c: some_conn(rng) },
            84..=88 => Op::Disconnect { peer: 1 + rng.usize(3) },
            89 => Op::RemoteClose { c: some_conn(rng) },
            90 => {
                if !r.held.is_empty() && rng.chance(2, 3) {
                    Op::Release { c: *rng.pick(&r.held) }
                } else {
                    Op::CloseHold { c: some_conn(rng) }
                }
            }
            91..=92 => Op::Race {
                k: if n_dials == 0 { 0 } else { rng.usize(n_dials + 1) },
                peer: 1 + rng.usize(3),
                deny: rng.chance(1, 10),
                dp: 1 + rng.usize(3),
            },
            93..=95 => Op::NewAddr { a: rng.pick(&self.addrs).clone() },
            96 => Op::ExpireAddr { a: rng.pick(&self.addrs).clone() },
            _ => Op::BehClose { peer: 1 + rng.usize(3), one: if rng.bool() { Some(some_conn(rng)) } else { None } },
        }
    }
}

/// C04: bounded-exhaustive dial cases — every address list of length <= 3 over an 8-address alphabet
/// (2 base addresses x {plain, /p2p/target, /p2p/other, /p2p-circuit}) x 4 conditions x
/// {disconnected, connected, dialing} x {no listen address, first base address is a listen address}.
/// Thorough tier enumerates all of them, quick tier a seeded sample.
fn dial_enum(args: &Args, out: &mut Out) {
    let ps = peers();
    let base = base_addrs();
    let mut alphabet: Vec<Multiaddr> = vec![];
    for b in base.iter().take(2) {
        alphabet.push(b.clone());
        let mut x = b.clone();
        x.push(Protocol::P2p(ps[1]));
        alphabet.push(x);
        let mut y = b.clone();
        y.push(Protocol::P2p(ps[2]));
        alphabet.push(y);
        let mut z = b.clone();
        z.push(Protocol::P2pCircuit);
        alphabet.push(z);
    }
    let mut lists: Vec<Vec<Multiaddr>> = vec![vec![]];
    let mut frontier: Vec<Vec<Multiaddr>> = vec![vec![]];
    for _ in 0..3 {
        let mut next = vec![];
        for l in &frontier {
            for a in &alphabet {
                let mut m = l.clone();
                m.push(a.clone());
                next.push(m);
            }
        }
        lists.extend(next.iter().cloned());
        frontier = next;
    }
    let mut idx = 1_000_000u64;
    let mut rng = Rng::for_case(args.seed, 999_983);
    for l in &lists {
        for cond in 0..4u8 {
            for state in 0..3u8 {
                for listen in 0..2u8 {
                    idx += 1;
                    if !args.thorough && !rng.chance(1, 40) {
                        continue;
                    }
                    out.case(idx, &format!("dialenum nt=1 peers={}", peers_tok()));
                    let mut r = Runner::new();
                    if listen == 1 {
                        r.step(&Op::NewAddr { a: base[0].clone() }, out);
                    }
                    if state >= 1 {
                        // a pending dial to peer 1 (state 2 keeps it pending, state 1 resolves it)
                        r.step(
                            &Op::Dial { via_beh: false, cond: 0, peer: Some(1), addrs: vec![base[5].clone()], extend: false, beh_addrs: vec![], deny: false, refuse: vec![] },
                            out,
                        );
                        if state == 1 {
                            r.step(&Op::Resolve { k: 0, peer: 1, deny: false }, out);
                        }
                    }
                    r.step(
                        &Op::Dial { via_beh: false, cond, peer: Some(1), addrs: l.clone(), extend: false, beh_addrs: vec![], deny: false, refuse: vec![] },
                        out,
                    );
                    out.end();
                }
            }
        }
    }
}

/// header token marking Swarm-level cases of a property whose driver also has a component-level machine (C08)
fn sw_tag(args: &Args) -> &'static str {
    if args.prop == "C08" { " sw=1" } else { "" }
}

pub fn run(args: &Args, out: &mut Out) {
    if let Some(cases) = args.replay_cases() {
        for (i, (_, ops)) in cases.iter().enumerate() {
            out.case(i as u64, &format!("replay nt=1 peers={}{}", peers_tok(), sw_tag(args)));
            let mut r = Runner::new();
            for t in ops {
                if t[0] == "order" {
                    continue;
                }
                // strip the order= oracle (recomputed)
                let t: Vec<String> = t.iter().filter(|x| !x.starts_with("order=") && !x.starts_with("aborts=")).cloned().collect();
                r.step(&Op::parse(&t), out);
            }
            out.end();
        }
        return;
    }
    let g = Gen { addrs: base_addrs(), peers: peers() };
    if args.prop == "C04" {
        dial_enum(args, out);
    }
    let n = if args.prop == "C08" { args.n(500, 6_000) } else { args.n(1500, 15_000) };
    for i in 0..n {
        let mut rng = Rng::for_case(args.seed, i);
        let len = 5 + rng.usize(40);
        // Swarm-level cases of C08 are appended to the component-level ones by h_sw_b: keep the indices apart
        out.case(if args.prop == "C08" { 2_000_000 + i } else { i }, &format!("script nt=1 len={len} peers={}{}", peers_tok(), sw_tag(args)));
        let mut r = Runner::new();
        for _ in 0..len {
            let op = if args.prop == "C08" { g.next_c08(&mut rng, &r) } else { g.next(&mut rng, &r) };
            r.step(&op, out);
        }
        out.end();
    }
}
