//! C13, second part — the translated addresses users actually see: the
//! `ToSwarm::NewExternalAddrCandidate` events of a real `identify::Behaviour`.
//!
//! Per op a fresh `identify::Behaviour` is driven through its `NetworkBehaviour` methods only:
//! `FromSwarm::NewListenAddr` for the scripted listen set (plus some addresses that are expired
//! again with `FromSwarm::ExpiredListenAddr`), an established connection of the scripted kind
//! (`handle_established_outbound_connection` with `PortUse::New` / `PortUse::Reuse`, or an inbound
//! one) followed by `FromSwarm::ConnectionEstablished`, then
//! `on_connection_handler_event(.., handler::Event::Identified(info))` with the scripted
//! `observed_addr`; `poll` is drained and the `NewExternalAddrCandidate` addresses are printed.
//!
//!   op   ident <listen addrs ;-joined | ~> <observed> <new|reuse|in>
//!   impl cands <candidates, rendered, sorted as strings, ;-joined | ~>
//! Case header token `id=1` routes the case to the second machine of the C13 driver.
use std::task::{Context, Poll};

use hcore::{maddr_list_tok, maddr_tok, Args, Multiaddr, Out, Protocol, Rng};
use libp2p_core::{transport::{ListenerId, PortUse}, ConnectedPoint, Endpoint, PeerId};
use libp2p_identify as identify;
use libp2p_swarm::{
    behaviour::{ConnectionEstablished, ExpiredListenAddr, FromSwarm, NewListenAddr},
    ConnectionId, NetworkBehaviour, THandlerOutEvent, ToSwarm,
};

/// `identify::handler::Event` (the module is private, the type is reachable through the trait)
type HandlerEvent = THandlerOutEvent<identify::Behaviour>;

#[derive(Clone, Copy, Debug, PartialEq, Eq)]
pub enum Kind {
    New,
    Reuse,
    In,
}

impl Kind {
    fn tok(self) -> &'static str {
        match self {
            Kind::New => "new",
            Kind::Reuse => "reuse",
            Kind::In => "in",
        }
    }
    fn parse(s: &str) -> Kind {
        match s {
            "new" => Kind::New,
            "reuse" => Kind::Reuse,
            _ => Kind::In,
        }
    }
}

fn remote_key() -> libp2p_identity::Keypair {
    hcore::keypair(9)
}

/// run the real behaviour; `extra` are listen addresses that are added and expired again
fn candidates(listen: &[Multiaddr], extra: &[Multiaddr], observed: &Multiaddr, kind: Kind) -> Vec<Multiaddr> {
    let local = hcore::keypair(1);
    let remote = remote_key();
    let remote_id: PeerId = remote.public().to_peer_id();
    let mut b = identify::Behaviour::new(identify::Config::new("/verif/1".into(), local.public()));
    let lid = ListenerId::next();
    // interleave: extras first and in between, expired before the connection exists
    for (i, a) in listen.iter().enumerate() {
        if let Some(x) = extra.get(i) {
            b.on_swarm_event(FromSwarm::NewListenAddr(NewListenAddr { listener_id: lid, addr: x }));
        }
        b.on_swarm_event(FromSwarm::NewListenAddr(NewListenAddr { listener_id: lid, addr: a }));
    }
    for x in extra.iter().skip(listen.len()) {
        b.on_swarm_event(FromSwarm::NewListenAddr(NewListenAddr { listener_id: lid, addr: x }));
    }
    for x in extra {
        if !listen.contains(x) {
            b.on_swarm_event(FromSwarm::ExpiredListenAddr(ExpiredListenAddr { listener_id: lid, addr: x }));
        }
    }
    let conn = ConnectionId::new_unchecked(3);
    let dialed: Multiaddr = "/ip4/198.51.100.1/tcp/4001".parse().unwrap();
    let local_addr: Multiaddr = "/ip4/10.0.0.1/tcp/4001".parse().unwrap();
    let endpoint = match kind {
        Kind::New | Kind::Reuse => {
            let port_use = if kind == Kind::New { PortUse::New } else { PortUse::Reuse };
            let with_p2p = dialed.clone().with(Protocol::P2p(remote_id));
            let _h = b
                .handle_established_outbound_connection(conn, remote_id, &with_p2p, Endpoint::Dialer, port_use)
                .expect("handler");
            ConnectedPoint::Dialer { address: with_p2p, role_override: Endpoint::Dialer, port_use }
        }
        Kind::In => {
            let _h = b
                .handle_established_inbound_connection(conn, remote_id, &local_addr, &dialed)
                .expect("handler");
            ConnectedPoint::Listener { local_addr: local_addr.clone(), send_back_addr: dialed.clone() }
        }
    };
    b.on_swarm_event(FromSwarm::ConnectionEstablished(ConnectionEstablished {
        peer_id: remote_id,
        connection_id: conn,
        endpoint: &endpoint,
        failed_addresses: &[],
        other_established: 0,
    }));
    let info = identify::Info {
        public_key: remote.public(),
        protocol_version: "/verif/1".into(),
        agent_version: "remote".into(),
        listen_addrs: vec![],
        protocols: vec![],
        observed_addr: observed.clone(),
        signed_peer_record: None,
    };
    b.on_connection_handler_event(remote_id, conn, HandlerEvent::Identified(info));
    let waker = futures::task::noop_waker();
    let mut cx = Context::from_waker(&waker);
    let mut out = vec![];
    for _ in 0..100_000 {
        match NetworkBehaviour::poll(&mut b, &mut cx) {
            Poll::Ready(ToSwarm::NewExternalAddrCandidate(a)) => out.push(a),
            Poll::Ready(_) => {}
            Poll::Pending => break,
        }
    }
    out
}

fn one(out: &mut Out, listen: &[Multiaddr], extra: &[Multiaddr], observed: &Multiaddr, kind: Kind) {
    out.op(&format!("ident {} {} {}", maddr_list_tok(listen), maddr_tok(observed), kind.tok()));
    match hcore::guarded(|| candidates(listen, extra, observed, kind)) {
        Ok(c) => {
            let mut toks: Vec<String> = c.iter().map(maddr_tok).collect();
            toks.sort();
            out.imp(&format!("cands {}", if toks.is_empty() { "~".to_string() } else { toks.join(";") }));
        }
        Err(m) => out.imp(&format!("panic {m}")),
    }
}

fn m(s: &str) -> Multiaddr {
    s.parse().unwrap()
}

/// the scripted listen-address material
fn listen_pool() -> Vec<Multiaddr> {
    let relay = hcore::peer(7);
    let relay2 = hcore::peer(8);
    let me = hcore::peer(1);
    let circuit = |base: &str, r: PeerId| m(base).with(Protocol::P2p(r)).with(Protocol::P2pCircuit);
    vec![
        m("/ip4/10.0.0.1/tcp/4001"),
        m("/ip4/0.0.0.0/tcp/4001"),
        m("/ip4/10.0.0.1/tcp/4002"),
        m("/ip6/::1/tcp/4001"),
        m("/ip6/fe80::1/tcp/4001"),
        m("/dns4/node.example.com/tcp/443"),
        m("/dns/example.com/tcp/443/tls/ws"),
        m("/dns6/v6.example.com/tcp/4001"),
        m("/ip4/10.0.0.1/tcp/8080/ws"),
        m("/ip4/10.0.0.1/tcp/443/wss"),
        m("/ip4/10.0.0.1/udp/4001/quic-v1"),
        m("/ip4/10.0.0.1/udp/4001/quic"),
        m("/ip6/::1/udp/4001/quic-v1"),
        m("/dns4/node.example.com/udp/443/quic-v1"),
        m("/ip4/10.0.0.1/udp/4001/quic-v1").with(Protocol::P2p(me)),
        m("/ip4/10.0.0.1/udp/4001/quic").with(Protocol::P2p(me)),
        m("/ip4/10.0.0.1/udp/4001/quic-v1/webtransport"),
        m("/ip4/10.0.0.1/udp/4001/quic-v1").with(Protocol::P2p(relay)).with(Protocol::P2pCircuit),
        // relayed listen addresses
        circuit("/ip4/198.51.100.9/tcp/4001", relay),
        circuit("/ip4/198.51.100.9/tcp/4001", relay2),
        circuit("/ip6/2001:db8::9/tcp/4001", relay),
        circuit("/dns4/relay.example.com/tcp/443", relay),
        circuit("/ip4/198.51.100.9/tcp/4001", relay).with(Protocol::P2p(me)),
        circuit("/ip4/198.51.100.9/tcp/443/wss", relay),
        // trailing /p2p
        m("/ip4/10.0.0.1/tcp/4001").with(Protocol::P2p(me)),
        m("/dns4/node.example.com/tcp/443").with(Protocol::P2p(me)),
        m("/ip4/10.0.0.1/tcp/8080/ws").with(Protocol::P2p(me)),
        // not translatable at all
        m("/memory/5"),
        m("/dnsaddr/bootstrap.libp2p.io/tcp/4001"),
        Multiaddr::empty().with(Protocol::P2p(relay)).with(Protocol::P2pCircuit),
        m("/ip4/10.0.0.1"),
        m("/tcp/4001/ip4/10.0.0.1"),
        m("/ip4/10.0.0.1/udp/4001"),
    ]
}

fn observed_pool() -> Vec<Multiaddr> {
    let me = hcore::peer(1);
    vec![
        m("/ip4/203.0.113.7/tcp/54321"),
        m("/ip6/2001:db8::7/tcp/54321"),
        m("/ip6/::ffff:198.51.100.7/tcp/54321"),
        m("/dns4/me.example.net/tcp/54321"),
        m("/ip4/203.0.113.7/tcp/54321").with(Protocol::P2p(me)),
        m("/ip4/203.0.113.7/tcp/54321/ws"),
        m("/ip4/203.0.113.7/udp/54321/quic-v1"),
        m("/ip4/203.0.113.7/udp/54321/quic"),
        m("/ip6/2001:db8::7/udp/54321/quic-v1"),
        m("/ip4/203.0.113.7/udp/54321/quic-v1").with(Protocol::P2p(me)),
        m("/ip4/203.0.113.7/udp/54321/quic-v1/webtransport"),
        m("/ip4/203.0.113.7/udp/54321"),
        m("/ip4/203.0.113.7"),
        m("/memory/3"),
        m("/dnsaddr/x.example/tcp/1"),
        Multiaddr::empty(),
        m("/tcp/1/ip4/203.0.113.7"),
    ]
}

const KINDS: [Kind; 3] = [Kind::New, Kind::Reuse, Kind::In];

pub fn replay_case(out: &mut Out, idx: u64, ops: &[Vec<String>]) {
    out.case(idx, "ident-replay nt=1 id=1");
    for op in ops {
        let listen: Vec<Multiaddr> =
            if op[1] == "~" { vec![] } else { op[1].split(';').map(crate::c13::parse_tok).collect() };
        let observed = crate::c13::parse_tok(&op[2]);
        one(out, &listen, &[], &observed, Kind::parse(&op[3]));
    }
    out.end();
}

/// emits the cases of the second part, numbering them from `idx0`
pub fn run(args: &Args, out: &mut Out, idx0: u64) {
    let lp = listen_pool();
    let op = observed_pool();
    let mut idx = idx0;
    // systematic: every single listen address x every observed address x every connection kind
    for l in &lp {
        for o in &op {
            for k in KINDS {
                out.case(idx, &format!("ident-single nt={} id=1", (k == Kind::New) as u8));
                one(out, std::slice::from_ref(l), &[], o, k);
                out.end();
                idx += 1;
            }
        }
    }
    // random listen sets
    let n = args.n(600, 30_000);
    for i in 0..n {
        let mut rng = Rng::for_case(args.seed ^ 0x13b, i);
        let mut listen: Vec<Multiaddr> = vec![];
        for _ in 0..rng.usize(7) {
            let a = rng.pick(&lp).clone();
            if !listen.contains(&a) {
                listen.push(a);
            }
        }
        let mut extra: Vec<Multiaddr> = vec![];
        for _ in 0..rng.usize(4) {
            extra.push(rng.pick(&lp).clone());
        }
        let o = rng.pick(&op).clone();
        let k = if rng.chance(3, 5) { Kind::New } else { *rng.pick(&KINDS) };
        out.case(idx, &format!("ident-set nt={} id=1", (k == Kind::New && !listen.is_empty()) as u8));
        one(out, &listen, &extra, &o, k);
        out.end();
        idx += 1;
    }
}
