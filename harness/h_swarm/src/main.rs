//! Harness for the swarm-area properties. `h_swarm <PROP> --seed S --tier T [--count N] [--replay F]`
use h_swarm::{c13, core};

fn main() {
    let args = hcore::Args::parse();
    hcore::quiet_panics();
    let mut out = hcore::Out::new();
    match args.prop.as_str() {
        "C13" => c13::run(&args, &mut out),
        "C01" | "C02" | "C04" | "C05" | "C06" | "C08" => core::run(&args, &mut out),
        p => {
            eprintln!("h_swarm: unknown property {p}");
            std::process::exit(2);
        }
    }
    out.flush();
}
