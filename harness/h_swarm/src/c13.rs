//! C13 — `_address_translation` vs the Lean model `C13.translate`.
use hcore::{maddr_tok, Args, Multiaddr, Out, Protocol, Rng};
use libp2p_swarm::_address_translation;

fn first_components() -> Vec<Protocol<'static>> {
    vec![
        Protocol::Ip4([10, 0, 0, 1].into()),
        Protocol::Ip4([8, 8, 8, 8].into()),
        Protocol::Ip6("2001:db8::1".parse().unwrap()),
        Protocol::Ip6("::1".parse().unwrap()),
        // IPv6 forms that embed an IPv4 address (a "normalising" translation would change these)
        Protocol::Ip6("::ffff:198.51.100.7".parse().unwrap()),
        Protocol::Ip6("::198.51.100.7".parse().unwrap()),
        Protocol::Ip6("64:ff9b::c633:6407".parse().unwrap()),
        Protocol::Ip6("::".parse().unwrap()),
        Protocol::Ip4([0, 0, 0, 0].into()),
        Protocol::Ip4([127, 0, 0, 1].into()),
        Protocol::Dns("localhost".into()),
        Protocol::Dns4("".into()),
        Protocol::Dns("example.com".into()),
        Protocol::Dns4("a.b".into()),
        Protocol::Dns6("x".into()),
        Protocol::Dnsaddr("bootstrap.libp2p.io".into()),
        Protocol::Tcp(4001),
        Protocol::Udp(1),
        Protocol::QuicV1,
        Protocol::P2p(hcore::peer(1)),
        Protocol::Memory(7),
        Protocol::P2pCircuit,
        Protocol::Ip6zone("eth0".into()),
        Protocol::Tls,
    ]
}

fn tails() -> Vec<Vec<Protocol<'static>>> {
    vec![
        vec![],
        vec![Protocol::Tcp(4001)],
        vec![Protocol::Udp(9), Protocol::QuicV1],
        vec![Protocol::Tcp(1), Protocol::P2p(hcore::peer(2))],
        vec![Protocol::Ip4([1, 2, 3, 4].into()), Protocol::Tcp(2)],
        vec![Protocol::Tcp(443), Protocol::Tls, Protocol::Ws("/".into()), Protocol::P2p(hcore::peer(3))],
    ]
}

fn build(first: Option<&Protocol<'static>>, tail: &[Protocol<'static>]) -> Multiaddr {
    let mut a = Multiaddr::empty();
    if let Some(f) = first {
        a.push(f.clone());
    }
    for p in tail {
        a.push(p.clone());
    }
    a
}

fn one(out: &mut Out, orig: &Multiaddr, obs: &Multiaddr) {
    out.op(&format!("translate {} {}", maddr_tok(orig), maddr_tok(obs)));
    let r = hcore::guarded(|| _address_translation(orig, obs));
    match r {
        Ok(Some(a)) => out.imp(&format!("some {}", maddr_tok(&a))),
        Ok(None) => out.imp("none"),
        Err(m) => out.imp(&format!("panic {m}")),
    }
}

pub fn run(args: &Args, out: &mut Out) {
    if let Some(cases) = args.replay_cases() {
        for (i, (hdr, ops)) in cases.iter().enumerate() {
            if hdr.iter().any(|t| t == "id=1") {
                crate::c13b::replay_case(out, i as u64, ops);
                continue;
            }
            out.case(i as u64, "replay nt=1");
            for op in ops {
                let o = parse_tok(&op[1]);
                let b = parse_tok(&op[2]);
                one(out, &o, &b);
            }
            out.end();
        }
        return;
    }
    let firsts = first_components();
    let tails = tails();
    // the alphabet of addresses: (no first | each first) × tails
    let mut alphabet: Vec<Multiaddr> = vec![];
    for t in &tails {
        alphabet.push(build(None, t));
        for f in &firsts {
            alphabet.push(build(Some(f), t));
        }
    }
    let mut idx = 0u64;
    // exhaustive over the pairs of a reduced alphabet (first two tails): every (first, first) combination
    let reduced: Vec<&Multiaddr> = alphabet.iter().take(2 * (firsts.len() + 1)).collect(); // every (first, first) combination over two tails
    for o in &reduced {
        for b in &reduced {
            let nt = o.iter().next().is_some() && b.iter().next().is_some();
            out.case(idx, &format!("pairs nt={}", nt as u8));
            one(out, o, b);
            out.end();
            idx += 1;
        }
    }
    // random longer ones
    let n = args.n(2000, 200_000);
    for i in 0..n {
        let mut rng = Rng::for_case(args.seed, i);
        let mk = |rng: &mut Rng| {
            let mut a = Multiaddr::empty();
            let len = rng.usize(6);
            for _ in 0..len {
                if rng.chance(1, 8) {
                    // arbitrary IP payloads, biased towards IPv4-embedding IPv6 prefixes
                    if rng.bool() {
                        a.push(Protocol::Ip4((rng.next_u64() as u32).into()));
                    } else {
                        let low = rng.next_u64() as u128 & 0xffff_ffff;
                        let v: u128 = match rng.below(4) {
                            0 => (0xffffu128 << 32) | low,
                            1 => low,
                            2 => (0x0064_ff9bu128 << 96) | low,
                            _ => ((rng.next_u64() as u128) << 64) | rng.next_u64() as u128,
                        };
                        a.push(Protocol::Ip6(v.into()));
                    }
                } else if rng.chance(1, 2) {
                    a.push(rng.pick(&firsts).clone());
                } else {
                    for p in rng.pick(&tails) {
                        a.push(p.clone());
                    }
                }
            }
            a
        };
        let o = mk(&mut rng);
        let b = mk(&mut rng);
        let nt = o.iter().next().is_some() && b.iter().next().is_some();
        out.case(idx, &format!("random nt={}", nt as u8));
        one(out, &o, &b);
        out.end();
        idx += 1;
    }
    // second part: identify's NewExternalAddrCandidate events (cases marked id=1)
    crate::c13b::run(args, out, idx);
}

/// inverse of `maddr_tok` for the components this harness generates (replay only)
pub(crate) fn parse_tok(tok: &str) -> Multiaddr {
    let mut a = Multiaddr::empty();
    if tok == "-" {
        return a;
    }
    for c in tok.split('/') {
        let mut it = c.splitn(2, ':');
        let name = it.next().unwrap();
        let v = it.next().unwrap_or("");
        let s = |v: &str| String::from_utf8(hcore::unhex(v)).unwrap();
        a.push(match name {
            "ip4" => Protocol::Ip4(v.parse::<u32>().unwrap().into()),
            "ip6" => Protocol::Ip6(v.parse::<u128>().unwrap().into()),
            "dns" => Protocol::Dns(s(v).into()),
            "dns4" => Protocol::Dns4(s(v).into()),
            "dns6" => Protocol::Dns6(s(v).into()),
            "dnsaddr" => Protocol::Dnsaddr(s(v).into()),
            "tcp" => Protocol::Tcp(v.parse().unwrap()),
            "udp" => Protocol::Udp(v.parse().unwrap()),
            "p2p" => Protocol::P2p(libp2p_core::PeerId::from_bytes(&hcore::unhex(v)).unwrap()),
            "quic" => Protocol::Quic,
            "quic-v1" => Protocol::QuicV1,
            "p2p-circuit" => Protocol::P2pCircuit,
            "ws" => Protocol::Ws("/".into()),
            "wss" => Protocol::Wss("/".into()),
            "tls" => Protocol::Tls,
            "webtransport" => Protocol::WebTransport,
            "webrtc-direct" => Protocol::WebRTCDirect,
            "memory" => Protocol::Memory(v.parse().unwrap()),
            "ip6zone" => Protocol::Ip6zone(s(v).into()),
            other => panic!("replay: unsupported component {other}"),
        });
    }
    a
}
