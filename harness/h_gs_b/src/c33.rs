//! C33 — `DuplicateCache` / `TimeCache` (time_cache.rs) and `MessageCache` (mcache.rs) vs the Lean
//! model `C33`.
//!
//! op lines (virtual time `now` in ns since the start of the case, set before the call):
//!   tnew <now> <ttl_ns>            fresh DuplicateCache + TimeCache<_, u64>      -> ok
//!   ins <now> <key>                DuplicateCache::insert                         -> true|false
//!   has <now> <key>                DuplicateCache::contains                       -> true|false
//!   add <now> <key> <delta>        *TimeCache::entry(key).or_default() += delta   -> <value>
//!   tchas <now> <key>              TimeCache::contains_key                        -> true|false
//!   mnew <gossip> <history>        fresh MessageCache                             -> ok
//!   put <id> <topic> | obs <id> <peer> | iwant <id> <peer> | val <id> | gossip <topic> | shift | rm <id>
use hcore::{Args, Out, Rng};
use libp2p_gossipsub::verif_c33::{DupCache, MCache, TCache};

use crate::{dur, instant_limit_ns, set_now};

const S: u128 = 1_000_000_000;

#[derive(Clone, Debug)]
enum Op {
    TNew(u64, u128),
    Ins(u64, u64),
    Has(u64, u64),
    Add(u64, u64, u64),
    TcHas(u64, u64),
    MNew(usize, usize),
    Put(u64, usize),
    Obs(u64, usize),
    Iwant(u64, usize),
    Val(u64),
    Gossip(usize),
    Shift,
    Rm(u64),
}

fn op_line(op: &Op) -> String {
    match op {
        Op::TNew(n, ttl) => format!("tnew {n} {ttl}"),
        Op::Ins(n, k) => format!("ins {n} {k}"),
        Op::Has(n, k) => format!("has {n} {k}"),
        Op::Add(n, k, d) => format!("add {n} {k} {d}"),
        Op::TcHas(n, k) => format!("tchas {n} {k}"),
        Op::MNew(g, h) => format!("mnew {g} {h}"),
        Op::Put(id, t) => format!("put {id} {t}"),
        Op::Obs(id, p) => format!("obs {id} {p}"),
        Op::Iwant(id, p) => format!("iwant {id} {p}"),
        Op::Val(id) => format!("val {id}"),
        Op::Gossip(t) => format!("gossip {t}"),
        Op::Shift => "shift".into(),
        Op::Rm(id) => format!("rm {id}"),
    }
}

fn parse_op(t: &[String]) -> Option<Op> {
    let n = |i: usize| t.get(i).and_then(|s| s.parse::<u128>().ok());
    Some(match t.first()?.as_str() {
        "tnew" => Op::TNew(n(1)? as u64, n(2)?),
        "ins" => Op::Ins(n(1)? as u64, n(2)? as u64),
        "has" => Op::Has(n(1)? as u64, n(2)? as u64),
        "add" => Op::Add(n(1)? as u64, n(2)? as u64, n(3)? as u64),
        "tchas" => Op::TcHas(n(1)? as u64, n(2)? as u64),
        "mnew" => Op::MNew(n(1)? as usize, n(2)? as usize),
        "put" => Op::Put(n(1)? as u64, n(2)? as usize),
        "obs" => Op::Obs(n(1)? as u64, n(2)? as usize),
        "iwant" => Op::Iwant(n(1)? as u64, n(2)? as usize),
        "val" => Op::Val(n(1)? as u64),
        "gossip" => Op::Gossip(n(1)? as usize),
        "shift" => Op::Shift,
        "rm" => Op::Rm(n(1)? as u64),
        _ => return None,
    })
}

const NPEERS: usize = 4;

fn topic_no(s: &str) -> String {
    s.strip_prefix('t').unwrap_or("?").to_string()
}

fn run_case(out: &mut Out, idx: u64, class: &str, nt: bool, ops: &[Op]) {
    out.case(idx, &format!("{class} nt={} lim={}", nt as u8, instant_limit_ns()));
    hcore::CLOCK_OFFSET_NS.store(0, std::sync::atomic::Ordering::SeqCst);
    let peers: Vec<_> = (0..NPEERS).map(|i| hcore::peer(i as u8 + 1)).collect();
    let peer_no = |p: &libp2p_core::PeerId| peers.iter().position(|q| q == p).unwrap();
    let msg = |r: Option<(String, bool, Vec<libp2p_core::PeerId>)>| match r {
        None => "none".to_string(),
        Some((t, v, ps)) => {
            let mut ps: Vec<usize> = ps.iter().map(peer_no).collect();
            ps.sort();
            format!("some {} {} {}", topic_no(&t), v, hcore::list(&ps))
        }
    };
    let mut dup: Option<(DupCache, TCache)> = None;
    let mut mc: Option<MCache> = None;
    for op in ops {
        out.op(&op_line(op));
        let r: Result<String, String> = hcore::guarded(|| match op {
            Op::TNew(now, ttl) => {
                set_now(*now);
                dup = Some((DupCache::new(dur(*ttl)), TCache::new(dur(*ttl))));
                "ok".to_string()
            }
            Op::MNew(g, h) => {
                mc = Some(MCache::new(*g, *h));
                "ok".to_string()
            }
            Op::Ins(..) | Op::Has(..) | Op::Add(..) | Op::TcHas(..) if dup.is_none() => "nostate".into(),
            Op::Ins(now, k) => {
                set_now(*now);
                dup.as_mut().unwrap().0.insert(*k).to_string()
            }
            Op::Has(now, k) => {
                set_now(*now);
                dup.as_ref().unwrap().0.contains(*k).to_string()
            }
            Op::Add(now, k, d) => {
                set_now(*now);
                dup.as_mut().unwrap().1.entry_or_default_add(*k, *d).to_string()
            }
            Op::TcHas(now, k) => {
                set_now(*now);
                dup.as_ref().unwrap().1.contains_key(*k).to_string()
            }
            _ if mc.is_none() => "nostate".into(),
            Op::Put(id, t) => mc.as_mut().unwrap().put(*id, &format!("t{t}")).to_string(),
            Op::Obs(id, p) => {
                mc.as_mut().unwrap().observe_duplicate(*id, &peers[*p % NPEERS]);
                "ok".into()
            }
            Op::Iwant(id, p) => match mc.as_mut().unwrap().get_with_iwant_counts(*id, &peers[*p % NPEERS]) {
                None => "none".into(),
                Some((t, v, n)) => format!("some {} {} {}", topic_no(&t), v, n),
            },
            Op::Val(id) => msg(mc.as_mut().unwrap().validate(*id)),
            Op::Gossip(t) => format!("ids {}", hcore::list(&mc.as_ref().unwrap().get_gossip_message_ids(&format!("t{t}")))),
            Op::Shift => {
                mc.as_mut().unwrap().shift();
                "ok".into()
            }
            Op::Rm(id) => msg(mc.as_mut().unwrap().remove(*id)),
        });
        match r {
            Ok(s) => out.imp(&s),
            Err(m) if m.contains("out_of_range_for_slice") => out.imp("panic:slice"),
            Err(m) => out.imp(&format!("panic:other:{m}")),
        }
    }
    out.end();
}

// ------------------------------------------------------------------ generators: time caches

fn gen_tc_random(rng: &mut Rng) -> Vec<Op> {
    let ttl: u128 = *rng.pick(&[0, 1, 7, S, 5 * S, 60 * S, 3 * S + 1]);
    let mut now = rng.below(3) * S as u64;
    let mut ops = vec![Op::TNew(now, ttl)];
    let nkeys = 1 + rng.below(8);
    let t = ttl as u64;
    for _ in 0..10 + rng.usize(290) {
        now += match rng.below(12) {
            0..=2 => 0,
            3 => 1,
            4 => t.saturating_sub(1),
            5 => t,
            6 => t + 1,
            7 => t / 2,
            8 => rng.below(2 * t + 2),
            9 => rng.below(t / 4 + 2),
            _ => rng.below(t / 8 + 1),
        };
        let k = rng.below(nkeys);
        ops.push(match rng.below(10) {
            0..=3 => Op::Ins(now, k),
            4..=5 => Op::Has(now, k),
            6..=8 => Op::Add(now, k, rng.below(5)),
            _ => Op::TcHas(now, k),
        });
    }
    ops
}

/// insert, probe both sides of the expiry, lazy expiry of `contains`, re-insertion inside the window
fn gen_tc_boundary(rng: &mut Rng) -> Vec<Op> {
    let ttl: u64 = *rng.pick(&[1, 2, 1_000_000_000, 60_000_000_000]);
    let t0 = rng.below(5) * 1_000;
    let mut ops = vec![Op::TNew(t0, ttl as u128)];
    let (a, b) = (1u64, 2u64);
    ops.push(Op::Ins(t0, a));
    ops.push(Op::Add(t0, a, 3));
    let mid = t0 + rng.below(ttl);
    ops.push(Op::Ins(mid, a)); // not refreshed
    ops.push(Op::Add(mid, a, 1));
    if rng.bool() {
        ops.push(Op::Ins(mid, b));
    }
    ops.push(Op::Has(t0 + ttl - 1, a));
    if rng.bool() {
        ops.push(Op::Ins(t0 + ttl - 1, a));
        ops.push(Op::Add(t0 + ttl - 1, a, 1));
    }
    let late = t0 + ttl + rng.below(3);
    ops.push(Op::Has(late, a)); // lazy: not purged yet
    ops.push(Op::TcHas(late, a));
    match rng.below(3) {
        0 => ops.push(Op::Ins(late, b)), // purges a
        1 => ops.push(Op::Add(late, b, 2)),
        _ => {}
    }
    ops.push(Op::Has(late, a));
    ops.push(Op::TcHas(late, a));
    ops.push(Op::Ins(late, a)); // first insert at or after expiry: true
    ops.push(Op::Add(late, a, 5)); // value restarted
    let t2 = late.max(mid + ttl);
    ops.push(Op::Ins(t2, a));
    ops.push(Op::Has(t2.max(late + ttl), a));
    ops
}

/// `now + ttl` not representable: the code logs an error and uses `now` as expiration
fn gen_tc_overflow(rng: &mut Rng) -> Vec<Op> {
    let lim = instant_limit_ns();
    let ttl = *rng.pick(&[lim - 5 * S, lim, lim + 1, ((1u128 << 64) - 1) * S]);
    let mut now = 0u64;
    let mut ops = vec![Op::TNew(0, ttl)];
    for _ in 0..5 + rng.usize(20) {
        now += rng.below(4) * S as u64;
        let k = rng.below(3);
        ops.push(match rng.below(4) {
            0..=1 => Op::Ins(now, k),
            2 => Op::Has(now, k),
            _ => Op::Add(now, k, 1),
        });
    }
    ops
}

// ------------------------------------------------------------------ generators: message cache

fn mc_configs() -> Vec<(usize, usize)> {
    vec![(0, 0), (0, 1), (1, 1), (2, 3), (3, 5), (3, 6), (1, 2), (5, 5), (2, 1), (1, 0)]
}

fn gen_mc_random(rng: &mut Rng) -> Vec<Op> {
    let (g, h) = *rng.pick(&mc_configs());
    let mut ops = vec![Op::MNew(g, h)];
    let nids = 1 + rng.below(8);
    let ntop = 1 + rng.usize(2);
    let shift_w = rng.range(3, 25);
    for _ in 0..10 + rng.usize(390) {
        let id = rng.below(nids);
        let r = rng.below(100);
        ops.push(if r < 25 {
            Op::Put(id, rng.usize(ntop))
        } else if r < 40 {
            Op::Val(id)
        } else if r < 40 + shift_w {
            Op::Shift
        } else if r < 75 {
            Op::Iwant(id, rng.usize(3))
        } else if r < 86 {
            Op::Gossip(rng.usize(ntop))
        } else if r < 93 {
            Op::Obs(id, rng.usize(3))
        } else {
            Op::Rm(id)
        });
    }
    ops
}

/// a message is put, validated, then shifted out step by step with gossip / iwant probes at every age;
/// optionally removed and re-put (a stale history entry stays behind)
fn gen_mc_window(rng: &mut Rng) -> Vec<Op> {
    let (g, h) = *rng.pick(&[(2usize, 3usize), (3, 5), (1, 1), (1, 2), (3, 6), (0, 2)]);
    let mut ops = vec![Op::MNew(g, h)];
    for _ in 0..rng.usize(3) {
        ops.push(Op::Shift);
    }
    ops.push(Op::Put(1, 0));
    ops.push(Op::Obs(1, 0));
    ops.push(Op::Obs(1, 2));
    ops.push(Op::Iwant(1, 0)); // not validated yet
    if rng.bool() {
        ops.push(Op::Put(2, 1));
        ops.push(Op::Val(2));
    }
    ops.push(Op::Val(1));
    ops.push(Op::Put(1, 0));
    let stale = rng.chance(1, 3);
    if stale {
        ops.push(Op::Shift);
        ops.push(Op::Rm(1));
        ops.push(Op::Put(1, rng.usize(2)));
        ops.push(Op::Val(1));
    }
    for _ in 0..h + 1 {
        ops.push(Op::Gossip(0));
        ops.push(Op::Gossip(1));
        ops.push(Op::Iwant(1, 0));
        ops.push(Op::Iwant(1, 1));
        if rng.chance(1, 4) {
            ops.push(Op::Iwant(1, 0));
        }
        ops.push(Op::Shift);
    }
    ops.push(Op::Iwant(1, 0));
    ops.push(Op::Put(1, 0));
    ops.push(Op::Val(1));
    ops.push(Op::Iwant(1, 0)); // count restarts at 1
    ops
}

pub fn run(args: &Args, out: &mut Out) {
    if let Some(cases) = args.replay_cases() {
        for (i, (_, ops)) in cases.iter().enumerate() {
            let ops: Vec<Op> = ops.iter().filter_map(|t| parse_op(t)).collect();
            run_case(out, i as u64, "replay", true, &ops);
        }
        return;
    }
    let mut idx = 0u64;
    // bounded-exhaustive message-cache sequences
    let depth = if args.count > 0 { 0 } else if args.thorough { 5 } else { 4 };
    for (g, h) in [(1usize, 2usize), (2, 2)] {
        if depth == 0 {
            break;
        }
        let alpha = [
            Op::Put(0, 0),
            Op::Put(1, 0),
            Op::Val(0),
            Op::Rm(0),
            Op::Shift,
            Op::Iwant(0, 0),
            Op::Gossip(0),
        ];
        let total = (alpha.len() as u64).pow(depth);
        for code in 0..total {
            let mut ops = vec![Op::MNew(g, h)];
            let mut x = code;
            for _ in 0..depth {
                ops.push(alpha[(x % alpha.len() as u64) as usize].clone());
                x /= alpha.len() as u64;
            }
            // close every sequence with the three observations
            ops.push(Op::Gossip(0));
            ops.push(Op::Iwant(0, 0));
            ops.push(Op::Put(0, 0));
            run_case(out, idx, "mc-exhaustive", true, &ops);
            idx += 1;
        }
    }
    // bounded-exhaustive duplicate-cache sequences: ttl 2, two keys, time steps 0/1/2
    let ddepth = if args.count > 0 { 0 } else if args.thorough { 6 } else { 5 };
    if ddepth > 0 {
        let alpha: [(u64, u8, u64); 6] = [(0, 0, 0), (1, 0, 0), (2, 0, 0), (0, 0, 1), (1, 0, 1), (1, 1, 0)];
        let total = (alpha.len() as u64).pow(ddepth);
        for code in 0..total {
            let mut ops = vec![Op::TNew(0, 2)];
            let (mut x, mut now) = (code, 0u64);
            for _ in 0..ddepth {
                let (adv, kind, key) = alpha[(x % alpha.len() as u64) as usize];
                x /= alpha.len() as u64;
                now += adv;
                ops.push(if kind == 0 { Op::Ins(now, key) } else { Op::Has(now, key) });
            }
            run_case(out, idx, "dup-exhaustive", true, &ops);
            idx += 1;
        }
    }
    let n = args.n(600, 10_000);
    for i in 0..n {
        let mut rng = Rng::for_case(args.seed, i);
        let (class, ops) = match rng.below(20) {
            0..=5 => ("tc-random", gen_tc_random(&mut rng)),
            6..=8 => ("tc-boundary", gen_tc_boundary(&mut rng)),
            9 => ("tc-overflow", gen_tc_overflow(&mut rng)),
            10..=16 => ("mc-random", gen_mc_random(&mut rng)),
            _ => ("mc-window", gen_mc_window(&mut rng)),
        };
        run_case(out, idx, class, ops.len() > 3, &ops);
        idx += 1;
    }
}
