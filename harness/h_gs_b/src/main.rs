//! Harness binary `h_gs_b <PROP> --seed S --tier T [--count N] [--replay F]`.
//! One module per property (`cNN.rs`, `pub fn run(args: &hcore::Args, out: &mut hcore::Out)`).
mod c32;
mod c33;

/// Virtual monotonic clock. Unlike `hcore::install_clock!()` (real clock + offset) this one is
/// FROZEN: `CLOCK_MONOTONIC` reads exactly `BASE_SECS` seconds + `hcore::CLOCK_OFFSET_NS`, so that
/// `Instant::now()` inside the gossipsub caches is a pure function of the op sequence. The
/// properties checked here compare instants at exact boundaries (`expires > now`,
/// `backoff + slack > now`); with a ticking clock those comparisons would depend on scheduling.
/// `hcore::warp` still moves the time (it adds to the same offset).
pub const BASE_SECS: i64 = 1_000_000;

extern "C" {
    fn __clock_gettime(clk: i32, ts: *mut [i64; 2]) -> i32;
}

#[no_mangle]
pub unsafe extern "C" fn clock_gettime(clk: i32, ts: *mut [i64; 2]) -> i32 {
    if clk == 1 {
        let off = hcore::CLOCK_OFFSET_NS.load(std::sync::atomic::Ordering::SeqCst);
        let t = &mut *ts;
        t[0] = BASE_SECS + (off / 1_000_000_000) as i64;
        t[1] = (off % 1_000_000_000) as i64;
        return 0;
    }
    __clock_gettime(clk, ts)
}

/// set the virtual time to `now` nanoseconds after the (per-case) start
pub fn set_now(now: u64) {
    let cur = hcore::CLOCK_OFFSET_NS.load(std::sync::atomic::Ordering::SeqCst);
    if now >= cur {
        hcore::warp(std::time::Duration::from_nanos(now - cur));
    } else {
        // a new case starts: fresh objects, the clock restarts at the base
        hcore::CLOCK_OFFSET_NS.store(now, std::sync::atomic::Ordering::SeqCst);
    }
}

/// greatest `Instant` representable on this platform (`tv_sec: i64`, `tv_nsec < 10^9`), in
/// nanoseconds after the base
pub fn instant_limit_ns() -> u128 {
    (i64::MAX as u128 - BASE_SECS as u128) * 1_000_000_000 + 999_999_999
}

pub fn dur(ns: u128) -> std::time::Duration {
    std::time::Duration::new((ns / 1_000_000_000) as u64, (ns % 1_000_000_000) as u32)
}

fn main() {
    let args = hcore::Args::parse();
    hcore::quiet_panics();
    let mut out = hcore::Out::new();
    match args.prop.as_str() {
        "C32" => c32::run(&args, &mut out),
        "C33" => c33::run(&args, &mut out),
        p => {
            eprintln!("h_gs_b: unknown property {p}");
            std::process::exit(2);
        }
    }
    out.flush();
}
