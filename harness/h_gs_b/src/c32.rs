//! C32 — `BackoffStorage` (gossipsub/src/backoff.rs) vs the Lean model `C32`.
//!
//! op lines (time `now` = virtual nanoseconds since the start of the case, set before the call):
//!   new <now> <prune_ns> <hb_ns> <slack> | update <now> <topic> <peer> <d_ns> | hb <now> | q <now>
//! impl line: `<status> w=<is_backoff_with_slack per pair> t=<get_backoff_time per pair, ns or x>`
//! (pairs in topic-major order), status ∈ ok | panic:divzero | panic:durmul | nostate.
use std::time::Instant;

use hcore::{Args, Out, Rng};
use libp2p_gossipsub::verif_c32::Backoff;

use crate::{dur, instant_limit_ns, set_now};

const S: u128 = 1_000_000_000;
const DUR_LIMIT: u128 = (1u128 << 64) * S;

#[derive(Clone, Debug)]
enum Op {
    New { prune: u128, hb: u128, slack: u32 },
    Update { t: usize, p: usize, d: u128 },
    Hb,
    Q,
}
type TOp = (u64, Op);

fn op_line(now: u64, op: &Op) -> String {
    match op {
        Op::New { prune, hb, slack } => format!("new {now} {prune} {hb} {slack}"),
        Op::Update { t, p, d } => format!("update {now} {t} {p} {d}"),
        Op::Hb => format!("hb {now}"),
        Op::Q => format!("q {now}"),
    }
}

fn parse_op(t: &[String]) -> Option<TOp> {
    let n = |i: usize| t.get(i).and_then(|s| s.parse::<u128>().ok());
    let now = n(1)? as u64;
    Some((
        now,
        match t.first()?.as_str() {
            "new" => Op::New { prune: n(2)?, hb: n(3)?, slack: n(4)? as u32 },
            "update" => Op::Update { t: n(2)? as usize, p: n(3)? as usize, d: n(4)? },
            "hb" => Op::Hb,
            "q" => Op::Q,
            _ => return None,
        },
    ))
}

fn panic_kind(m: &str) -> String {
    if m.contains("divide_by_zero") {
        "panic:divzero".into()
    } else if m.contains("overflow_when_multiplying_duration") {
        "panic:durmul".into()
    } else {
        format!("panic:other:{m}")
    }
}

fn run_case(out: &mut Out, idx: u64, class: &str, nt: usize, np: usize, ops: &[TOp]) {
    let has_upd = ops.iter().any(|o| matches!(o.1, Op::Update { .. }));
    let has_hb = ops.iter().any(|o| matches!(o.1, Op::Hb));
    out.case(
        idx,
        &format!("{class} nt={} T={nt} P={np} lim={}", (has_upd && has_hb) as u8, instant_limit_ns()),
    );
    hcore::CLOCK_OFFSET_NS.store(0, std::sync::atomic::Ordering::SeqCst);
    let start = Instant::now();
    let peers: Vec<_> = (0..np).map(|i| hcore::peer(i as u8 + 1)).collect();
    let topics: Vec<String> = (0..nt).map(|i| format!("t{i}")).collect();
    let mut st: Option<Backoff> = None;
    for (now, op) in ops {
        set_now(*now);
        out.op(&op_line(*now, op));
        let status = match op {
            Op::New { prune, hb, slack } => {
                st = None;
                match hcore::guarded(|| Backoff::new(dur(*prune), dur(*hb), *slack)) {
                    Ok(b) => {
                        st = Some(b);
                        "ok".to_string()
                    }
                    Err(m) => panic_kind(&m),
                }
            }
            _ if st.is_none() => "nostate".to_string(),
            Op::Update { t, p, d } => {
                let b = st.as_mut().unwrap();
                match hcore::guarded(|| b.update_backoff(&topics[*t % nt], &peers[*p % np], dur(*d))) {
                    Ok(()) => "ok".into(),
                    Err(m) => panic_kind(&m),
                }
            }
            Op::Hb => {
                let b = st.as_mut().unwrap();
                match hcore::guarded(|| b.heartbeat()) {
                    Ok(()) => "ok".into(),
                    Err(m) => panic_kind(&m),
                }
            }
            Op::Q => "ok".into(),
        };
        let (mut w, mut ts) = (vec![], vec![]);
        if let Some(b) = st.as_ref() {
            for t in 0..nt {
                for p in 0..np {
                    w.push((b.is_backoff_with_slack(&topics[t], &peers[p]) as u8).to_string());
                    ts.push(match b.get_backoff_time(&topics[t], &peers[p]) {
                        Some(i) => i.duration_since(start).as_nanos().to_string(),
                        None => "x".into(),
                    });
                }
            }
        }
        out.imp(&format!("{status} w={} t={}", hcore::list(&w), hcore::list(&ts)));
    }
    out.end();
}

struct Cfg {
    prune: u128,
    hb: u128,
    slack: u32,
}

impl Cfg {
    fn len(&self) -> u128 {
        self.prune.div_ceil(self.hb) + self.slack as u128 + 1
    }
    fn slack_dur(&self) -> u128 {
        self.hb * self.slack as u128
    }
}

fn configs() -> Vec<Cfg> {
    let ms = 1_000_000u128;
    vec![
        Cfg { prune: 60 * S, hb: S, slack: 1 }, // the gossipsub defaults
        Cfg { prune: 3 * S, hb: S, slack: 0 },
        Cfg { prune: 2500 * ms, hb: S, slack: 2 },
        Cfg { prune: 0, hb: S, slack: 0 },
        Cfg { prune: 0, hb: S, slack: 1 },
        Cfg { prune: S, hb: 700 * ms, slack: 1 },
        Cfg { prune: 10 * S, hb: 10 * S, slack: 3 },
        Cfg { prune: 5 * S, hb: S, slack: 1 },
        Cfg { prune: 4 * S, hb: 2 * S, slack: 1 },
        Cfg { prune: 7, hb: 3, slack: 2 }, // nanosecond scale
        Cfg { prune: 2 * S, hb: 3 * S, slack: 0 },
    ]
}

fn durations(rng: &mut Rng, c: &Cfg) -> u128 {
    let l = c.len();
    let cands = [
        0,
        1,
        c.hb.saturating_sub(1),
        c.hb,
        c.hb + 1,
        c.prune.saturating_sub(1),
        c.prune,
        c.prune + 1,
        2 * c.prune,
        5 * c.prune + 1,
        l * c.hb,
        l * c.hb + 1,
        (l - 1) * c.hb,
        rng.below((2 * c.prune + 2) as u64) as u128,
        rng.below((6 * c.prune + 2 * c.hb) as u64) as u128,
        rng.below((3 * c.hb) as u64) as u128,
    ];
    *rng.pick(&cands)
}

fn advance(rng: &mut Rng, c: &Cfg, heartbeat: bool) -> u64 {
    let hb = c.hb as u64;
    let r = rng.below(100);
    if heartbeat && r < 50 {
        return hb;
    }
    match r % 10 {
        0..=2 => 0,
        3 => 1,
        4 => hb.saturating_sub(1),
        5 => hb + 1,
        6 => hb,
        7 => rng.below(3 * hb + 1),
        8 => rng.below(hb / 2 + 1),
        _ => {
            if rng.chance(1, 4) {
                c.prune as u64
            } else {
                rng.below(hb + 1)
            }
        }
    }
}

fn gen_random(rng: &mut Rng, c: &Cfg, nt: usize, np: usize) -> Vec<TOp> {
    let mut ops = vec![(0u64, Op::New { prune: c.prune, hb: c.hb, slack: c.slack })];
    let mut now = 0u64;
    let n = 10 + rng.usize(290);
    // phases: update-heavy, then heartbeat-heavy (so that expiry and forgetting are reached)
    let upd_w = rng.range(5, 60);
    for i in 0..n {
        let late = i > n / 2 && rng.bool();
        let r = rng.below(100);
        if r < if late { upd_w / 4 } else { upd_w } {
            now += advance(rng, c, false);
            let d = durations(rng, c);
            ops.push((now, Op::Update { t: rng.usize(nt), p: rng.usize(np), d }));
        } else if r < 88 {
            now += advance(rng, c, true);
            ops.push((now, Op::Hb));
        } else {
            now += advance(rng, c, false);
            ops.push((now, Op::Q));
        }
    }
    ops
}

/// updates, then queries at expiry-1 / expiry, a full ring revolution one tick before
/// expiry+slack (nothing may be dropped), then one at expiry+slack (everything must be dropped)
fn gen_boundary(rng: &mut Rng, c: &Cfg, nt: usize, np: usize) -> Vec<TOp> {
    let mut ops = vec![(0u64, Op::New { prune: c.prune, hb: c.hb, slack: c.slack })];
    let mut now = rng.below(3) * c.hb as u64;
    for _ in 0..rng.usize(c.len() as usize + 1) {
        ops.push((now, Op::Hb));
    }
    let mut e_max = 0u128;
    for _ in 0..1 + rng.usize(4) {
        let d = durations(rng, c);
        ops.push((now, Op::Update { t: rng.usize(nt), p: rng.usize(np), d }));
        e_max = e_max.max(now as u128 + d);
        if rng.bool() {
            now += advance(rng, c, false);
            if rng.bool() {
                ops.push((now, Op::Hb));
            }
        }
    }
    let e = e_max as u64;
    for t in [e.saturating_sub(1), e] {
        if t >= now {
            now = t;
            ops.push((now, Op::Q));
        }
    }
    let thr = e + c.slack_dur() as u64;
    let delta = rng.below(3);
    for t in [thr.saturating_sub(1), thr + delta] {
        if t >= now {
            now = t;
        }
        for _ in 0..c.len() + rng.below(2) as u128 {
            ops.push((now, Op::Hb));
        }
        ops.push((now, Op::Q));
    }
    ops
}

/// expiries next to the greatest representable `Instant`
fn gen_overflow(rng: &mut Rng) -> (Cfg, Vec<TOp>) {
    let lim = instant_limit_ns();
    let giant_hb = rng.chance(1, 4);
    let c = if giant_hb {
        // heartbeat_interval * slack is itself beyond the representable instants (but fits a Duration)
        Cfg { prune: 3 * S, hb: (1u128 << 61) * S, slack: *rng.pick(&[5u32, 7]) }
    } else {
        Cfg { prune: *rng.pick(&[3 * S, 5 * S]), hb: *rng.pick(&[S, 2 * S]), slack: *rng.pick(&[1u32, 3]) }
    };
    let mut ops = vec![(0u64, Op::New { prune: c.prune, hb: c.hb, slack: c.slack })];
    let mut now = rng.below(4) * S as u64;
    for _ in 0..rng.usize(4) {
        ops.push((now, Op::Hb));
    }
    let sd = c.slack_dur();
    for _ in 0..1 + rng.usize(3) {
        let room = lim - now as u128;
        let d = if giant_hb {
            *rng.pick(&[5 * S, S, room, room + 1, 0])
        } else {
            *rng.pick(&[
                room,
                room - 1,
                room + 1,
                room - (sd - 1),
                room - sd,
                room - sd - 1,
                room - 5 * sd,
                DUR_LIMIT - 1,
                room / 2,
                3 * S,
            ])
        };
        ops.push((now, Op::Update { t: 0, p: rng.usize(2), d }));
        now += rng.below(2) * S as u64;
    }
    for _ in 0..2 * c.len() + 1 {
        now += if giant_hb { S as u64 } else { rng.below(2) * c.hb as u64 };
        ops.push((now, Op::Hb));
    }
    ops.push((now, Op::Q));
    (c, ops)
}

fn gen_panic(rng: &mut Rng) -> Vec<TOp> {
    if rng.chance(1, 3) {
        // heartbeat_interval == 0: `new` divides by zero
        let mut ops = vec![(0u64, Op::New { prune: rng.below(3) as u128 * S, hb: 0, slack: rng.below(3) as u32 })];
        ops.push((1, Op::Q));
        if rng.bool() {
            ops.push((2, Op::New { prune: S, hb: S, slack: 0 }));
            ops.push((2, Op::Update { t: 0, p: 0, d: S }));
            ops.push((3, Op::Hb));
        }
        ops
    } else {
        // heartbeat_interval * backoff_slack does not fit a Duration: `heartbeat` panics
        let hb = (1u128 << 62) * S;
        let slack = *rng.pick(&[4u32, 8, 9]);
        let mut ops = vec![(0u64, Op::New { prune: 10 * S, hb, slack })];
        let mut now = 0;
        for _ in 0..2 + rng.usize(6) {
            now += rng.below(3) * S as u64;
            match rng.below(3) {
                0 => ops.push((now, Op::Update { t: 0, p: rng.usize(2), d: rng.below(5) as u128 * S })),
                1 => ops.push((now, Op::Hb)),
                _ => ops.push((now, Op::Q)),
            }
        }
        ops.push((now, Op::Hb));
        ops
    }
}

pub fn run(args: &Args, out: &mut Out) {
    if let Some(cases) = args.replay_cases() {
        for (i, (hdr, ops)) in cases.iter().enumerate() {
            let get = |k: &str, dflt: usize| {
                hdr.iter()
                    .find_map(|t| t.strip_prefix(k).and_then(|v| v.parse::<usize>().ok()))
                    .unwrap_or(dflt)
            };
            let (nt, np) = (get("T=", 3).max(1), get("P=", 4).max(1));
            let ops: Vec<TOp> = ops.iter().filter_map(|t| parse_op(t)).collect();
            run_case(out, i as u64, "replay", nt, np, &ops);
        }
        return;
    }
    let cfgs = configs();
    let mut idx = 0u64;
    // bounded-exhaustive: every op sequence of length ≤ depth over a small alphabet, two configs
    let depth = if args.count > 0 { 0 } else if args.thorough { 5 } else { 4 };
    for c in [Cfg { prune: S, hb: S, slack: 0 }, Cfg { prune: 2 * S, hb: S, slack: 1 }] {
        if depth == 0 {
            break;
        }
        // alphabet: (time advance in s, op)
        let alpha: Vec<(u64, Op)> = vec![
            (0, Op::Update { t: 0, p: 0, d: S }),
            (0, Op::Update { t: 0, p: 0, d: 4 * S }),
            (0, Op::Update { t: 0, p: 1, d: 2 * S }),
            (1, Op::Hb),
            (0, Op::Hb),
            (2, Op::Hb),
        ];
        let total = (alpha.len() as u64).pow(depth);
        for code in 0..total {
            let mut ops = vec![(0u64, Op::New { prune: c.prune, hb: c.hb, slack: c.slack })];
            let (mut x, mut now) = (code, 0u64);
            for _ in 0..depth {
                let (adv, op) = &alpha[(x % alpha.len() as u64) as usize];
                x /= alpha.len() as u64;
                now += adv * S as u64;
                ops.push((now, op.clone()));
            }
            run_case(out, idx, "exhaustive", 1, 2, &ops);
            idx += 1;
        }
    }
    let n = args.n(600, 8_000);
    for i in 0..n {
        let mut rng = Rng::for_case(args.seed, i);
        let (nt, np) = *rng.pick(&[(1usize, 1usize), (2, 2), (3, 4), (1, 3)]);
        match rng.below(20) {
            0..=10 => {
                let c = rng.pick(&cfgs);
                let ops = gen_random(&mut rng, c, nt, np);
                run_case(out, idx, "random", nt, np, &ops);
            }
            11..=15 => {
                let c = rng.pick(&cfgs);
                let ops = gen_boundary(&mut rng, c, nt, np);
                run_case(out, idx, "boundary", nt, np, &ops);
            }
            16..=18 => {
                let (_, ops) = gen_overflow(&mut rng);
                run_case(out, idx, "overflow", 1, 2, &ops);
            }
            _ => {
                let ops = gen_panic(&mut rng);
                run_case(out, idx, "panic", 1, 2, &ops);
            }
        }
        idx += 1;
    }
}
