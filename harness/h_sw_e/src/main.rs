//! Harness binary `h_sw_e <PROP> --seed S --tier T [--count N] [--replay F]`.
//! Reuses the deterministic Swarm rig of h_swarm (scripted transport / muxer / probe behaviour).
#[path = "../../h_swarm/src/sim.rs"]
mod sim;
mod c58;

fn main() {
    let args = hcore::Args::parse();
    hcore::quiet_panics();
    let mut out = hcore::Out::new();
    match args.prop.as_str() {
        "C58" => c58::run(&args, &mut out),
        p => {
            eprintln!("h_sw_e: unknown property {p}");
            std::process::exit(2);
        }
    }
    #[allow(unreachable_code)]
    out.flush();
}
