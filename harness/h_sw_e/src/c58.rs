//! C58 — derived behaviours compose their fields faithfully.
//!
//! `#[derive(NetworkBehaviour)]` structs with 1..4 `Probe` fields (generated and user-supplied
//! `to_swarm`) sit inside a real `Swarm` over the scripted transport.  A hand-written `Tap` behaviour
//! (and `TapHandler` connection handler) wraps the derived struct (resp. its derived
//! `ConnectionHandlerSelect` tree) and logs every top-level call the Swarm makes together with its
//! result; the probe fields log what reaches them in between.  Each top-level call becomes one
//! `op`/`impl` pair: op = the call and the per-field scripted answers, impl = the per-field call log
//! and the value the derived code returned.  Harness moves are `op mv …` lines (the only lines a
//! replay re-executes; the observed calls are regenerated).
#![allow(deprecated)]
use crate::sim::*;
use hcore::{maddr_list_tok, maddr_tok, Args, Multiaddr, Out, Protocol, Rng};
use libp2p_core::transport::{ListenerId, PortUse, TransportEvent};
use libp2p_core::{Endpoint, PeerId};
use libp2p_swarm::behaviour::{ExternalAddrConfirmed, ExternalAddrExpired, NewExternalAddrCandidate};
use libp2p_swarm::derive_prelude::Either;
use libp2p_swarm::dial_opts::{DialOpts, PeerCondition};
use libp2p_swarm::handler::{ConnectionEvent, ConnectionHandlerEvent, SubstreamProtocol};
use libp2p_swarm::{
    CloseConnection, ConnectionDenied, ConnectionHandler, ConnectionId, FromSwarm, NetworkBehaviour, NotifyHandler, THandler,
    THandlerInEvent, THandlerOutEvent, ToSwarm,
};
use std::collections::{HashMap, VecDeque};
use std::sync::{Arc, Mutex};
use std::task::{Context, Poll, Waker};

// ---------------------------------------------------------------------------------------------
// Either nesting <-> "path:value" tokens

pub trait Nest: Sized {
    fn tok(&self) -> (String, u32);
    fn build(path: &str, v: u32) -> Option<Self>;
}
impl Nest for u32 {
    fn tok(&self) -> (String, u32) {
        (String::new(), *self)
    }
    fn build(path: &str, v: u32) -> Option<Self> {
        path.is_empty().then_some(v)
    }
}
impl<A: Nest, B: Nest> Nest for Either<A, B> {
    fn tok(&self) -> (String, u32) {
        match self {
            Either::Left(a) => {
                let (p, v) = a.tok();
                (format!("L{p}"), v)
            }
            Either::Right(b) => {
                let (p, v) = b.tok();
                (format!("R{p}"), v)
            }
        }
    }
    fn build(path: &str, v: u32) -> Option<Self> {
        match path.chars().next()? {
            'L' => A::build(&path[1..], v).map(Either::Left),
            'R' => B::build(&path[1..], v).map(Either::Right),
            _ => None,
        }
    }
}
fn nest_tok<N: Nest>(n: &N) -> String {
    let (p, v) = n.tok();
    format!("{p}:{v}")
}

// ---------------------------------------------------------------------------------------------
// the derived structs under test

type ScriptH = Arc<Mutex<Script>>;
type QueueH = Arc<Mutex<VecDeque<ToSwarm<u32, u32>>>>;

pub trait Shape: NetworkBehaviour + Sized {
    const N: usize;
    const USER: bool;
    fn make(world: &Shared) -> (Self, Vec<ScriptH>, Vec<QueueH>);
    fn out_tok(e: &Self::ToSwarm) -> String;
}

#[derive(Debug)]
pub struct UEvent(pub u32);
impl From<u32> for UEvent {
    fn from(v: u32) -> Self {
        UEvent(v)
    }
}

macro_rules! shape_common {
    ($name:ident, $n:expr, $user:expr, [$($f:ident),+], $e:ident => $tok:expr) => {
        impl Shape for $name {
            const N: usize = $n;
            const USER: bool = $user;
            fn make(world: &Shared) -> (Self, Vec<ScriptH>, Vec<QueueH>) {
                $( let $f = Probe::new(stringify!($f), world.clone()); )+
                let scripts = vec![$($f.script.clone()),+];
                let queues = vec![$($f.queue.clone()),+];
                ($name { $($f),+ }, scripts, queues)
            }
            fn out_tok($e: &Self::ToSwarm) -> String {
                $tok
            }
        }
    };
}

macro_rules! shape_gen {
    ($name:ident, $ev:ident, $n:expr, [$($f:ident : $v:ident),+]) => {
        #[derive(NetworkBehaviour)]
        #[behaviour(prelude = "libp2p_swarm::derive_prelude")]
        pub struct $name { $($f: Probe),+ }
        shape_common!($name, $n, false, [$($f),+], e => match e { $($ev::$v(x) => format!("gen@{}@{}", stringify!($v), x)),+ });
    };
}
macro_rules! shape_user {
    ($name:ident, $n:expr, [$($f:ident),+]) => {
        #[derive(NetworkBehaviour)]
        #[behaviour(prelude = "libp2p_swarm::derive_prelude", to_swarm = "UEvent")]
        pub struct $name { $($f: Probe),+ }
        shape_common!($name, $n, true, [$($f),+], e => format!("user@{}", e.0));
    };
}

shape_gen!(D1, D1Event, 1, [a: A]);
shape_gen!(D2, D2Event, 2, [a: A, b: B]);
shape_gen!(D3, D3Event, 3, [a: A, b: B, c: C]);
shape_gen!(D4, D4Event, 4, [a: A, b: B, c: C, d: D]);
shape_user!(U1, 1, [a]);
shape_user!(U2, 2, [a, b]);
shape_user!(U3, 3, [a, b, c]);
shape_user!(U4, 4, [a, b, c, d]);

// ---------------------------------------------------------------------------------------------
// Tap: logs the calls made ON the derived behaviour / derived handler and what they returned

pub struct TapHandler<H> {
    inner: H,
    world: Shared,
    conn: usize,
}

impl<H> ConnectionHandler for TapHandler<H>
where
    H: ConnectionHandler,
    H::FromBehaviour: Nest,
    H::ToBehaviour: Nest,
{
    type FromBehaviour = H::FromBehaviour;
    type ToBehaviour = H::ToBehaviour;
    type InboundProtocol = H::InboundProtocol;
    type OutboundProtocol = H::OutboundProtocol;
    type InboundOpenInfo = H::InboundOpenInfo;
    type OutboundOpenInfo = H::OutboundOpenInfo;

    fn listen_protocol(&self) -> SubstreamProtocol<Self::InboundProtocol, Self::InboundOpenInfo> {
        self.inner.listen_protocol()
    }
    fn connection_keep_alive(&self) -> bool {
        self.inner.connection_keep_alive()
    }
    fn poll(&mut self, cx: &mut Context<'_>) -> Poll<ConnectionHandlerEvent<Self::OutboundProtocol, Self::OutboundOpenInfo, Self::ToBehaviour>> {
        let r = self.inner.poll(cx);
        if let Poll::Ready(ConnectionHandlerEvent::NotifyBehaviour(e)) = &r {
            self.world.lock().unwrap().push(format!("TH,emit,{},{}", self.conn, nest_tok(e)));
        }
        r
    }
    fn poll_close(&mut self, cx: &mut Context<'_>) -> Poll<Option<Self::ToBehaviour>> {
        self.inner.poll_close(cx)
    }
    fn on_behaviour_event(&mut self, ev: Self::FromBehaviour) {
        self.world.lock().unwrap().push(format!("TH,begin,recv,{},{}", self.conn, nest_tok(&ev)));
        self.inner.on_behaviour_event(ev);
        self.world.lock().unwrap().push("TH,end".into());
    }
    fn on_connection_event(
        &mut self,
        ev: ConnectionEvent<Self::InboundProtocol, Self::OutboundProtocol, Self::InboundOpenInfo, Self::OutboundOpenInfo>,
    ) {
        self.inner.on_connection_event(ev)
    }
}

pub struct Tap<B> {
    inner: B,
    world: Shared,
    tprobe: Probe,
    scripts: Vec<ScriptH>,
}

impl<B> Tap<B> {
    fn vec(&self, f: impl Fn(&Script) -> bool) -> String {
        self.scripts.iter().map(|s| if f(&s.lock().unwrap()) { '1' } else { '0' }).collect()
    }
    fn log(&self, s: String) {
        self.world.lock().unwrap().push(s);
    }
}

fn notify_tok(h: &NotifyHandler, w: &mut World) -> String {
    match h {
        NotifyHandler::One(c) => format!("one.{}", w.conn(*c)),
        NotifyHandler::Any => "any".into(),
    }
}

fn cmd_tok<B: Shape>(c: &ToSwarm<B::ToSwarm, THandlerInEvent<B>>, w: &mut World) -> String
where
    THandlerInEvent<B>: Nest,
{
    match c {
        ToSwarm::GenerateEvent(e) => B::out_tok(e),
        ToSwarm::NotifyHandler { peer_id, handler, event } => {
            let (p, v) = event.tok();
            format!("notify@{}@{}@{}@{}", w.peer(peer_id), notify_tok(handler, w), p, v)
        }
        ToSwarm::Dial { opts } => format!("other@dial.{}", w.opeer(&opts.get_peer_id())),
        ToSwarm::CloseConnection { peer_id, connection } => format!(
            "other@close.{}.{}",
            w.peer(peer_id),
            match connection {
                CloseConnection::One(c) => format!("one.{}", w.conn(*c)),
                CloseConnection::All => "all".into(),
            }
        ),
        ToSwarm::NewExternalAddrCandidate(a) => format!("other@extCandidate.{}", maddr_tok(a)),
        ToSwarm::ExternalAddrConfirmed(a) => format!("other@extConfirmed.{}", maddr_tok(a)),
        ToSwarm::ExternalAddrExpired(a) => format!("other@extExpired.{}", maddr_tok(a)),
        ToSwarm::NewExternalAddrOfPeer { peer_id, address } => format!("other@peerAddr.{}.{}", w.peer(peer_id), maddr_tok(address)),
        _ => "other@unknown".into(),
    }
}

impl<B> NetworkBehaviour for Tap<B>
where
    B: Shape,
    THandlerInEvent<B>: Nest,
    THandlerOutEvent<B>: Nest,
{
    type ConnectionHandler = TapHandler<THandler<B>>;
    type ToSwarm = B::ToSwarm;

    fn handle_pending_inbound_connection(&mut self, id: ConnectionId, l: &Multiaddr, r: &Multiaddr) -> Result<(), ConnectionDenied> {
        let c = self.world.lock().unwrap().conn(id);
        self.log(format!("T,begin,pendIn,{},{}", c, self.vec(|s| s.deny_pending_in)));
        let r = self.inner.handle_pending_inbound_connection(id, l, r);
        self.log(format!("T,end,{}", if r.is_ok() { "ok" } else { "deny" }));
        r
    }
    fn handle_pending_outbound_connection(
        &mut self,
        id: ConnectionId,
        peer: Option<PeerId>,
        addrs: &[Multiaddr],
        eff: Endpoint,
    ) -> Result<Vec<Multiaddr>, ConnectionDenied> {
        let c = self.world.lock().unwrap().conn(id);
        let al: Vec<String> = self.scripts.iter().map(|s| maddr_list_tok(&s.lock().unwrap().beh_addrs)).collect();
        self.log(format!("T,begin,pendOut,{},{},{}", c, self.vec(|s| s.deny_pending_out), al.join("#")));
        let r = self.inner.handle_pending_outbound_connection(id, peer, addrs, eff);
        self.log(format!(
            "T,end,{}",
            match &r {
                Ok(a) => format!("ok={}", maddr_list_tok(a)),
                Err(_) => "deny".into(),
            }
        ));
        r
    }
    fn handle_established_inbound_connection(
        &mut self,
        id: ConnectionId,
        peer: PeerId,
        l: &Multiaddr,
        r: &Multiaddr,
    ) -> Result<THandler<Self>, ConnectionDenied> {
        let c = self.world.lock().unwrap().conn(id);
        self.log(format!("T,begin,estIn,{},{}", c, self.vec(|s| s.deny_est_in)));
        let r = self.inner.handle_established_inbound_connection(id, peer, l, r);
        self.log(format!("T,end,{}", if r.is_ok() { "handler" } else { "deny" }));
        r.map(|h| TapHandler { inner: h, world: self.world.clone(), conn: c })
    }
    fn handle_established_outbound_connection(
        &mut self,
        id: ConnectionId,
        peer: PeerId,
        addr: &Multiaddr,
        role: Endpoint,
        pu: PortUse,
    ) -> Result<THandler<Self>, ConnectionDenied> {
        let c = self.world.lock().unwrap().conn(id);
        self.log(format!("T,begin,estOut,{},{}", c, self.vec(|s| s.deny_est_out)));
        let r = self.inner.handle_established_outbound_connection(id, peer, addr, role, pu);
        self.log(format!("T,end,{}", if r.is_ok() { "handler" } else { "deny" }));
        r.map(|h| TapHandler { inner: h, world: self.world.clone(), conn: c })
    }
    fn on_swarm_event(&mut self, ev: FromSwarm) {
        self.log("T,begin,swarm".into());
        // rendered by a probe named T with exactly the fields' formatting code
        self.tprobe.on_swarm_event(ev);
        self.inner.on_swarm_event(ev);
        self.log("T,end,-".into());
    }
    fn on_connection_handler_event(&mut self, peer: PeerId, id: ConnectionId, ev: THandlerOutEvent<Self>) {
        {
            let mut w = self.world.lock().unwrap();
            let c = w.conn(id);
            let p = w.peer(&peer);
            w.push(format!("T,begin,fromHandler,{},{},{}", c, p, nest_tok(&ev)));
        }
        self.inner.on_connection_handler_event(peer, id, ev);
        self.log("T,end,-".into());
    }
    fn poll(&mut self, cx: &mut Context<'_>) -> Poll<ToSwarm<Self::ToSwarm, THandlerInEvent<Self>>> {
        match self.inner.poll(cx) {
            Poll::Pending => Poll::Pending,
            Poll::Ready(cmd) => {
                let mut w = self.world.lock().unwrap();
                let t = cmd_tok::<B>(&cmd, &mut w);
                w.push(format!("T,poll,{t}"));
                Poll::Ready(cmd)
            }
        }
    }
}

// ---------------------------------------------------------------------------------------------
// moves

pub fn peers() -> Vec<PeerId> {
    (0..5u8).map(hcore::peer).collect()
}

pub fn base_addrs() -> Vec<Multiaddr> {
    (0..6u8)
        .map(|i| {
            let mut a = Multiaddr::empty();
            a.push(Protocol::Ip4([10, 0, 0, i + 1].into()));
            a.push(Protocol::Tcp(1000 + i as u16));
            a
        })
        .collect()
}

pub fn parse_maddr(tok: &str) -> Multiaddr {
    let mut a = Multiaddr::empty();
    if tok == "-" {
        return a;
    }
    for c in tok.split('/') {
        let mut it = c.splitn(2, ':');
        let name = it.next().unwrap();
        let v = it.next().unwrap_or("");
        a.push(match name {
            "ip4" => Protocol::Ip4(v.parse::<u32>().unwrap().into()),
            "tcp" => Protocol::Tcp(v.parse().unwrap()),
            "p2p" => Protocol::P2p(PeerId::from_bytes(&hcore::unhex(v)).unwrap()),
            other => panic!("replay: unsupported component {other}"),
        });
    }
    a
}

fn parse_list(tok: &str) -> Vec<Multiaddr> {
    if tok == "~" {
        vec![]
    } else {
        tok.split(';').map(parse_maddr).collect()
    }
}

/// a command a probe field emits from `poll` (field-local form)
#[derive(Clone, Debug)]
pub enum Cmd {
    Gen(u32),
    Notify { peer: usize, one: Option<usize>, v: u32 },
    Dial { peer: usize, addrs: Vec<Multiaddr> },
    Close { peer: usize, one: Option<usize> },
    ExtCandidate(Multiaddr),
    ExtConfirmed(Multiaddr),
    ExtExpired(Multiaddr),
    PeerAddr { peer: usize, a: Multiaddr },
}

fn one_tok(o: &Option<usize>, all: &str) -> String {
    match o {
        Some(c) => format!("one.{c}"),
        None => all.into(),
    }
}
fn parse_one(t: &[&str]) -> Option<usize> {
    if t.first() == Some(&"one") {
        Some(t[1].parse().unwrap())
    } else {
        None
    }
}

impl Cmd {
    pub fn render(&self) -> String {
        match self {
            Cmd::Gen(v) => format!("gen@{v}"),
            Cmd::Notify { peer, one, v } => format!("notify@{peer}@{}@{v}", one_tok(one, "any")),
            Cmd::Dial { peer, addrs } => format!("o@dial.{peer}@{}", maddr_list_tok(addrs)),
            Cmd::Close { peer, one } => format!("o@close.{peer}.{}@-", one_tok(one, "all")),
            Cmd::ExtCandidate(a) => format!("o@extCandidate.{}@-", maddr_tok(a)),
            Cmd::ExtConfirmed(a) => format!("o@extConfirmed.{}@-", maddr_tok(a)),
            Cmd::ExtExpired(a) => format!("o@extExpired.{}@-", maddr_tok(a)),
            Cmd::PeerAddr { peer, a } => format!("o@peerAddr.{peer}.{}@-", maddr_tok(a)),
        }
    }
    pub fn parse(s: &str) -> Cmd {
        let t: Vec<&str> = s.split('@').collect();
        match t[0] {
            "gen" => Cmd::Gen(t[1].parse().unwrap()),
            "notify" => {
                let o: Vec<&str> = t[2].split('.').collect();
                Cmd::Notify { peer: t[1].parse().unwrap(), one: parse_one(&o), v: t[3].parse().unwrap() }
            }
            "o" => {
                let g: Vec<&str> = t[1].split('.').collect();
                match g[0] {
                    "dial" => Cmd::Dial { peer: g[1].parse().unwrap(), addrs: parse_list(t[2]) },
                    "close" => Cmd::Close { peer: g[1].parse().unwrap(), one: parse_one(&g[2..]) },
                    "extCandidate" => Cmd::ExtCandidate(parse_maddr(g[1])),
                    "extConfirmed" => Cmd::ExtConfirmed(parse_maddr(g[1])),
                    "extExpired" => Cmd::ExtExpired(parse_maddr(g[1])),
                    "peerAddr" => Cmd::PeerAddr { peer: g[1].parse().unwrap(), a: parse_maddr(g[2]) },
                    other => panic!("replay: unknown command {other}"),
                }
            }
            other => panic!("replay: unknown command {other}"),
        }
    }
}

#[derive(Clone, Debug)]
pub enum Mv {
    Script { f: usize, bits: [bool; 4], addrs: Vec<Multiaddr> },
    Dial { peer: Option<usize>, addrs: Vec<Multiaddr>, extend: bool },
    Resolve { k: usize, peer: usize },
    Fail { k: usize },
    Incoming,
    ResolveIn { k: usize, peer: usize },
    FailIn { k: usize },
    Close { c: usize },
    Disconnect { peer: usize },
    RemoteClose { c: usize },
    NewAddr { a: Multiaddr },
    ExpireAddr { a: Multiaddr },
    ListenerError,
    Listen { a: Multiaddr },
    ExtAdd { a: Multiaddr },
    ExtRm { a: Multiaddr },
    PeerAddr { peer: usize, a: Multiaddr },
    Push { items: Vec<(usize, Cmd)> },
    /// direct calls on the derived behaviour (no Swarm involved); `k` = direct connection index
    DPendIn { k: usize },
    DPendOut { k: usize },
    DEst { k: usize, inbound: bool },
    DRecv { k: usize, path: String, v: u32 },
    DPoll { k: usize },
    DFrom { k: usize, peer: usize, path: String, v: u32 },
    DSwarm { kind: u8, a: Multiaddr },
}

fn path_tok(p: &str) -> String {
    if p.is_empty() {
        "-".into()
    } else {
        p.into()
    }
}
fn tok_path(p: &str) -> String {
    if p == "-" {
        String::new()
    } else {
        p.into()
    }
}

impl Mv {
    pub fn render(&self) -> String {
        match self {
            Mv::Script { f, bits, addrs } => {
                format!("script {f} {} {}", bits.iter().map(|b| if *b { '1' } else { '0' }).collect::<String>(), maddr_list_tok(addrs))
            }
            Mv::Dial { peer, addrs, extend } => {
                format!("dial {} {} {}", peer.map(|p| p.to_string()).unwrap_or("none".into()), maddr_list_tok(addrs), *extend as u8)
            }
            Mv::Resolve { k, peer } => format!("resolve {k} {peer}"),
            Mv::Fail { k } => format!("fail {k}"),
            Mv::Incoming => "incoming".into(),
            Mv::ResolveIn { k, peer } => format!("resolveIn {k} {peer}"),
            Mv::FailIn { k } => format!("failIn {k}"),
            Mv::Close { c } => format!("close {c}"),
            Mv::Disconnect { peer } => format!("disconnect {peer}"),
            Mv::RemoteClose { c } => format!("remoteClose {c}"),
            Mv::NewAddr { a } => format!("newaddr {}", maddr_tok(a)),
            Mv::ExpireAddr { a } => format!("expire {}", maddr_tok(a)),
            Mv::ListenerError => "lerror".into(),
            Mv::Listen { a } => format!("listen {}", maddr_tok(a)),
            Mv::ExtAdd { a } => format!("extadd {}", maddr_tok(a)),
            Mv::ExtRm { a } => format!("extrm {}", maddr_tok(a)),
            Mv::PeerAddr { peer, a } => format!("peeraddr {peer} {}", maddr_tok(a)),
            Mv::Push { items } => {
                let l: Vec<String> = items.iter().map(|(f, c)| format!("{f}={}", c.render())).collect();
                format!("push {}", l.join(" "))
            }
            Mv::DPendIn { k } => format!("dPendIn {k}"),
            Mv::DPendOut { k } => format!("dPendOut {k}"),
            Mv::DEst { k, inbound } => format!("{} {k}", if *inbound { "dEstIn" } else { "dEstOut" }),
            Mv::DRecv { k, path, v } => format!("dRecv {k} {} {v}", path_tok(path)),
            Mv::DPoll { k } => format!("dPoll {k}"),
            Mv::DFrom { k, peer, path, v } => format!("dFrom {k} {peer} {} {v}", path_tok(path)),
            Mv::DSwarm { kind, a } => format!("dSwarm {kind} {}", maddr_tok(a)),
        }
    }
    /// `t` = tokens after `mv`
    pub fn parse(t: &[String]) -> Mv {
        let n = |i: usize| t[i].parse::<usize>().unwrap();
        match t[0].as_str() {
            "script" => {
                let b: Vec<bool> = t[2].chars().map(|c| c == '1').collect();
                Mv::Script { f: n(1), bits: [b[0], b[1], b[2], b[3]], addrs: parse_list(&t[3]) }
            }
            "dial" => Mv::Dial { peer: if t[1] == "none" { None } else { Some(n(1)) }, addrs: parse_list(&t[2]), extend: t[3] == "1" },
            "resolve" => Mv::Resolve { k: n(1), peer: n(2) },
            "fail" => Mv::Fail { k: n(1) },
            "incoming" => Mv::Incoming,
            "resolveIn" => Mv::ResolveIn { k: n(1), peer: n(2) },
            "failIn" => Mv::FailIn { k: n(1) },
            "close" => Mv::Close { c: n(1) },
            "disconnect" => Mv::Disconnect { peer: n(1) },
            "remoteClose" => Mv::RemoteClose { c: n(1) },
            "newaddr" => Mv::NewAddr { a: parse_maddr(&t[1]) },
            "expire" => Mv::ExpireAddr { a: parse_maddr(&t[1]) },
            "lerror" => Mv::ListenerError,
            "listen" => Mv::Listen { a: parse_maddr(&t[1]) },
            "extadd" => Mv::ExtAdd { a: parse_maddr(&t[1]) },
            "extrm" => Mv::ExtRm { a: parse_maddr(&t[1]) },
            "peeraddr" => Mv::PeerAddr { peer: n(1), a: parse_maddr(&t[2]) },
            "push" => Mv::Push {
                items: t[1..]
                    .iter()
                    .map(|x| {
                        let (f, c) = x.split_once('=').unwrap();
                        (f.parse().unwrap(), Cmd::parse(c))
                    })
                    .collect(),
            },
            "dPendIn" => Mv::DPendIn { k: n(1) },
            "dPendOut" => Mv::DPendOut { k: n(1) },
            "dEstIn" => Mv::DEst { k: n(1), inbound: true },
            "dEstOut" => Mv::DEst { k: n(1), inbound: false },
            "dRecv" => Mv::DRecv { k: n(1), path: tok_path(&t[2]), v: t[3].parse().unwrap() },
            "dPoll" => Mv::DPoll { k: n(1) },
            "dFrom" => Mv::DFrom { k: n(1), peer: n(2), path: tok_path(&t[3]), v: t[4].parse().unwrap() },
            "dSwarm" => Mv::DSwarm { kind: t[1].parse().unwrap(), a: parse_maddr(&t[2]) },
            other => panic!("replay: unknown move {other}"),
        }
    }
}

// ---------------------------------------------------------------------------------------------
// runner

const DIRECT_BASE: usize = 1 << 40;
const GHOST_BASE: usize = 1 << 41;

pub struct Runner<B>
where
    B: Shape,
    THandlerInEvent<B>: Nest,
    THandlerOutEvent<B>: Nest,
{
    pub sim: Sim<Tap<B>>,
    pub peers: Vec<PeerId>,
    pub listener: ListenerId,
    pub scripts: Vec<ScriptH>,
    pub queues: Vec<QueueH>,
    pub mux_of_conn: HashMap<usize, Arc<Mutex<MuxState>>>,
    pub n_incoming: usize,
    pub direct: HashMap<usize, TapHandler<THandler<B>>>,
    pub n_ghost: usize,
}

impl<B> Runner<B>
where
    B: Shape,
    B::ToSwarm: std::fmt::Debug,
    THandlerInEvent<B>: Nest,
    THandlerOutEvent<B>: Nest,
{
    pub fn new() -> Self {
        let peers = peers();
        let mut handles = None;
        let mut sim = Sim::new(
            |w| {
                let (inner, scripts, queues) = B::make(&w);
                handles = Some((scripts.clone(), queues));
                Tap { inner, world: w.clone(), tprobe: Probe::new("T", w), scripts }
            },
            peers[0],
            libp2p_swarm::Config::without_executor(),
        );
        {
            let mut w = sim.world.lock().unwrap();
            for p in &peers {
                w.peer(p);
            }
        }
        let listener = sim.swarm.listen_on("/ip4/10.9.9.9/tcp/9".parse().unwrap()).unwrap();
        sim.settle();
        sim.take_log();
        let (scripts, queues) = handles.unwrap();
        Runner { sim, peers, listener, scripts, queues, mux_of_conn: HashMap::new(), n_incoming: 0, direct: HashMap::new(), n_ghost: 0 }
    }

    fn real_conn(&self, c: usize) -> Option<ConnectionId> {
        self.sim.world.lock().unwrap().conn_names.iter().find(|(_, n)| **n == c).map(|(id, _)| *id)
    }
    fn conn_or_bogus(&self, c: usize) -> ConnectionId {
        self.real_conn(c).unwrap_or(ConnectionId::new_unchecked(usize::MAX - 7))
    }

    fn bind_mux(&mut self, st: Option<Arc<Mutex<MuxState>>>, log: &[String]) {
        if let Some(st) = st {
            for l in log {
                let f: Vec<&str> = l.split(',').collect();
                if f.len() > 2 && f[0] == "s" && f[1] == "Established" {
                    self.mux_of_conn.insert(f[2].parse().unwrap(), st.clone());
                }
            }
        }
    }

    fn build_cmd(&self, c: &Cmd) -> ToSwarm<u32, u32> {
        match c {
            Cmd::Gen(v) => ToSwarm::GenerateEvent(*v),
            Cmd::Notify { peer, one, v } => ToSwarm::NotifyHandler {
                peer_id: self.peers[*peer],
                handler: match one {
                    Some(c) => NotifyHandler::One(self.conn_or_bogus(*c)),
                    None => NotifyHandler::Any,
                },
                event: *v,
            },
            Cmd::Dial { peer, addrs } => ToSwarm::Dial {
                opts: DialOpts::peer_id(self.peers[*peer]).condition(PeerCondition::Always).addresses(addrs.clone()).build(),
            },
            Cmd::Close { peer, one } => ToSwarm::CloseConnection {
                peer_id: self.peers[*peer],
                connection: match one {
                    Some(c) => CloseConnection::One(self.conn_or_bogus(*c)),
                    None => CloseConnection::All,
                },
            },
            Cmd::ExtCandidate(a) => ToSwarm::NewExternalAddrCandidate(a.clone()),
            Cmd::ExtConfirmed(a) => ToSwarm::ExternalAddrConfirmed(a.clone()),
            Cmd::ExtExpired(a) => ToSwarm::ExternalAddrExpired(a.clone()),
            Cmd::PeerAddr { peer, a } => ToSwarm::NewExternalAddrOfPeer { peer_id: self.peers[*peer], address: a.clone() },
        }
    }

    fn direct_id(k: usize) -> ConnectionId {
        ConnectionId::new_unchecked(DIRECT_BASE + k)
    }

    /// execute one move; returns the raw ordered log
    pub fn exec(&mut self, mv: &Mv) -> Vec<String> {
        let mut new_mux = None;
        let la: Multiaddr = "/ip4/10.9.9.9/tcp/9".parse().unwrap();
        let ra: Multiaddr = "/ip4/10.7.7.7/tcp/7".parse().unwrap();
        match mv {
            Mv::Script { f, bits, addrs } => {
                if let Some(s) = self.scripts.get(*f) {
                    let mut s = s.lock().unwrap();
                    s.deny_pending_in = bits[0];
                    s.deny_pending_out = bits[1];
                    s.deny_est_in = bits[2];
                    s.deny_est_out = bits[3];
                    s.beh_addrs = addrs.clone();
                }
            }
            Mv::Dial { peer, addrs, extend } => {
                let opts: DialOpts = match peer {
                    Some(p) => {
                        let b = DialOpts::peer_id(self.peers[*p]).condition(PeerCondition::Always).addresses(addrs.clone());
                        if *extend {
                            b.extend_addresses_through_behaviour().build()
                        } else {
                            b.build()
                        }
                    }
                    None => DialOpts::unknown_peer_id().address(addrs.first().cloned().unwrap_or_else(Multiaddr::empty)).build(),
                };
                self.sim.world.lock().unwrap().conn(opts.connection_id());
                let _ = self.sim.swarm.dial(opts);
            }
            Mv::Resolve { k, peer } => new_mux = self.sim.resolve_dial(*k, Ok(self.peers[*peer])),
            Mv::Fail { k } => {
                self.sim.resolve_dial(*k, Err(()));
            }
            Mv::Incoming => {
                let l = self.listener;
                self.sim.push_incoming(l, la.clone(), format!("/ip4/10.7.7.7/tcp/{}", 2000 + self.n_incoming).parse().unwrap());
                self.n_incoming += 1;
            }
            Mv::ResolveIn { k, peer } => new_mux = self.sim.resolve_incoming(*k, Ok(self.peers[*peer])),
            Mv::FailIn { k } => {
                self.sim.resolve_incoming(*k, Err(()));
            }
            Mv::Close { c } => {
                if let Some(id) = self.real_conn(*c) {
                    self.sim.swarm.close_connection(id);
                }
            }
            Mv::Disconnect { peer } => {
                let _ = self.sim.swarm.disconnect_peer_id(self.peers[*peer]);
            }
            Mv::RemoteClose { c } => {
                if let Some(m) = self.mux_of_conn.get(c) {
                    Sim::<Tap<B>>::fail_muxer(m);
                }
            }
            Mv::NewAddr { a } => {
                let l = self.listener;
                self.sim.push_transport_event(TransportEvent::NewAddress { listener_id: l, listen_addr: a.clone() });
            }
            Mv::ExpireAddr { a } => {
                let l = self.listener;
                self.sim.push_transport_event(TransportEvent::AddressExpired { listener_id: l, listen_addr: a.clone() });
            }
            Mv::ListenerError => {
                let l = self.listener;
                self.sim.push_transport_event(TransportEvent::ListenerError {
                    listener_id: l,
                    error: std::io::Error::new(std::io::ErrorKind::Other, "scripted listener error"),
                });
            }
            Mv::Listen { a } => {
                let _ = self.sim.swarm.listen_on(a.clone());
            }
            Mv::ExtAdd { a } => self.sim.swarm.add_external_address(a.clone()),
            Mv::ExtRm { a } => self.sim.swarm.remove_external_address(a),
            Mv::PeerAddr { peer, a } => self.sim.swarm.add_peer_address(self.peers[*peer], a.clone()),
            Mv::Push { items } => {
                for (f, c) in items {
                    let cmd = self.build_cmd(c);
                    if let ToSwarm::Dial { opts } = &cmd {
                        self.sim.world.lock().unwrap().conn(opts.connection_id());
                    }
                    if let Some(q) = self.queues.get(*f) {
                        q.lock().unwrap().push_back(cmd);
                    }
                }
            }
            Mv::DPendIn { k } => {
                let _ = self.sim.swarm.behaviour_mut().handle_pending_inbound_connection(Self::direct_id(*k), &la, &ra);
            }
            Mv::DPendOut { k } => {
                let _ = self.sim.swarm.behaviour_mut().handle_pending_outbound_connection(Self::direct_id(*k), Some(self.peers[1]), &[], Endpoint::Dialer);
            }
            Mv::DEst { k, inbound } => {
                let id = Self::direct_id(*k);
                let p = self.peers[1];
                let r = if *inbound {
                    self.sim.swarm.behaviour_mut().handle_established_inbound_connection(id, p, &la, &ra)
                } else {
                    self.sim.swarm.behaviour_mut().handle_established_outbound_connection(id, p, &ra, Endpoint::Dialer, PortUse::Reuse)
                };
                if let Ok(h) = r {
                    self.direct.insert(*k, h);
                }
            }
            Mv::DRecv { k, path, v } => {
                if let (Some(h), Some(ev)) = (self.direct.get_mut(k), <THandlerInEvent<B> as Nest>::build(path, *v)) {
                    h.on_behaviour_event(ev);
                }
            }
            Mv::DPoll { k } => {
                if let Some(h) = self.direct.get_mut(k) {
                    let w = Waker::noop();
                    let mut cx = Context::from_waker(w);
                    if let Poll::Ready(ConnectionHandlerEvent::NotifyBehaviour(ev)) = h.poll(&mut cx) {
                        let p = self.peers[1];
                        self.sim.swarm.behaviour_mut().on_connection_handler_event(p, Self::direct_id(*k), ev);
                    }
                }
            }
            Mv::DFrom { k, peer, path, v } => {
                if let Some(ev) = <THandlerOutEvent<B> as Nest>::build(path, *v) {
                    let p = self.peers[*peer];
                    self.sim.swarm.behaviour_mut().on_connection_handler_event(p, Self::direct_id(*k), ev);
                }
            }
            Mv::DSwarm { kind, a } => {
                let b = self.sim.swarm.behaviour_mut();
                match kind {
                    0 => b.on_swarm_event(FromSwarm::ExternalAddrConfirmed(ExternalAddrConfirmed { addr: a })),
                    1 => b.on_swarm_event(FromSwarm::ExternalAddrExpired(ExternalAddrExpired { addr: a })),
                    _ => b.on_swarm_event(FromSwarm::NewExternalAddrCandidate(NewExternalAddrCandidate { addr: a })),
                }
            }
        }
        self.sim.settle();
        let log = self.sim.take_log();
        self.bind_mux(new_mux, &log);
        log
    }

    /// a connection name nobody has yet: register a ghost id for it so that the name the move is
    /// printed with is the name the Swarm-side rendering will use
    fn ghost(&mut self, c: usize) -> usize {
        if self.real_conn(c).is_some() {
            return c;
        }
        self.n_ghost += 1;
        self.sim.world.lock().unwrap().conn(ConnectionId::new_unchecked(GHOST_BASE + self.n_ghost))
    }

    fn normalize(&mut self, mv: &Mv) -> Mv {
        match mv {
            Mv::Push { items } => Mv::Push {
                items: items
                    .iter()
                    .map(|(f, c)| {
                        (
                            *f,
                            match c {
                                Cmd::Notify { peer, one: Some(c), v } => Cmd::Notify { peer: *peer, one: Some(self.ghost(*c)), v: *v },
                                Cmd::Close { peer, one: Some(c) } => Cmd::Close { peer: *peer, one: Some(self.ghost(*c)) },
                                other => other.clone(),
                            },
                        )
                    })
                    .collect(),
            },
            other => other.clone(),
        }
    }

    /// run one move and print it followed by one op/impl pair per observed top-level call
    pub fn step(&mut self, mv: &Mv, out: &mut Out) {
        let mv = &self.normalize(mv);
        out.op(&format!("mv {}", mv.render()));
        match hcore::guarded(|| self.exec(mv)) {
            Ok(raw) => {
                out.imp("ok");
                emit_calls(&raw, out);
            }
            Err(m) => out.imp(&format!("panic {m}")),
        }
    }
}

fn join(ls: &[String]) -> String {
    if ls.is_empty() {
        "-".into()
    } else {
        ls.join("|")
    }
}

/// cut the raw log into the top-level calls recorded by Tap / TapHandler
fn emit_calls(raw: &[String], out: &mut Out) {
    let mut i = 0;
    while i < raw.len() {
        let l = &raw[i];
        if let Some(rest) = l.strip_prefix("T,begin,") {
            let j = (i + 1..raw.len()).find(|j| raw[*j].starts_with("T,end,")).expect("unterminated T call");
            let ret = raw[j]["T,end,".len()..].to_string();
            let inner = &raw[i + 1..j];
            let f: Vec<&str> = rest.split(',').collect();
            match f[0] {
                "swarm" => {
                    let ev = inner.first().and_then(|x| x.strip_prefix("b,T,")).expect("T probe line");
                    out.op(&format!("swarm {ev}"));
                    out.imp(&join(&inner[1..]));
                }
                "pendIn" | "estIn" | "estOut" => {
                    out.op(&format!("{} {} {}", f[0], f[1], f[2]));
                    out.imp(&format!("{} ret={}", join(inner), ret));
                }
                "pendOut" => {
                    out.op(&format!("pendOut {} {} {}", f[1], f[2], f[3]));
                    out.imp(&format!("{} ret={}", join(inner), ret));
                }
                "fromHandler" => {
                    out.op(&format!("fromHandler {} {} {}", f[1], f[2], f[3]));
                    out.imp(&join(inner));
                }
                other => panic!("unknown T call {other}"),
            }
            i = j + 1;
        } else if let Some(rest) = l.strip_prefix("TH,begin,recv,") {
            let j = (i + 1..raw.len()).find(|j| raw[*j] == "TH,end").expect("unterminated TH call");
            let f: Vec<&str> = rest.split(',').collect();
            out.op(&format!("hrecv {} {}", f[0], f[1]));
            out.imp(&join(&raw[i + 1..j]));
            i = j + 1;
        } else if let Some(rest) = l.strip_prefix("T,poll,") {
            out.op("poll");
            out.imp(rest);
            i += 1;
        } else if let Some(rest) = l.strip_prefix("TH,emit,") {
            let f: Vec<&str> = rest.split(',').collect();
            out.op(&format!("hemit {}", f[0]));
            out.imp(f[1]);
            i += 1;
        } else {
            i += 1;
        }
    }
}

// ---------------------------------------------------------------------------------------------
// generators

struct Gen {
    addrs: Vec<Multiaddr>,
    next_val: u32,
    n_direct: usize,
}

impl Gen {
    fn new() -> Self {
        Gen { addrs: base_addrs(), next_val: 0, n_direct: 0 }
    }
    fn val(&mut self) -> u32 {
        self.next_val += 1;
        self.next_val
    }
    fn addr_list(&self, rng: &mut Rng, max: usize) -> Vec<Multiaddr> {
        let n = rng.usize(max + 1);
        (0..n).map(|_| rng.pick(&self.addrs).clone()).collect()
    }
    /// a path that is well-typed for an n-field shape (component chosen uniformly)
    fn path(n: usize, i: usize) -> String {
        let mut s = "L".repeat(n - 1 - i);
        if i != 0 {
            s.push('R');
        }
        s
    }
    fn cmd(&mut self, rng: &mut Rng, n_conns: usize, connected: &[usize]) -> Cmd {
        let peer = if !connected.is_empty() && rng.chance(5, 6) { *rng.pick(connected) } else { 1 + rng.usize(3) };
        match rng.below(100) {
            0..=24 => Cmd::Gen(self.val()),
            25..=69 => Cmd::Notify {
                peer,
                one: if rng.chance(1, 2) { Some(if n_conns == 0 { 0 } else { rng.usize(n_conns + 1) }) } else { None },
                v: self.val(),
            },
            70..=75 => Cmd::Dial { peer: 1 + rng.usize(3), addrs: { let mut l = self.addr_list(rng, 2); if l.is_empty() { l.push(self.addrs[0].clone()) }; l } },
            76..=79 => Cmd::Close { peer, one: if rng.bool() { Some(if n_conns == 0 { 0 } else { rng.usize(n_conns + 1) }) } else { None } },
            80..=85 => Cmd::ExtCandidate(rng.pick(&self.addrs).clone()),
            86..=91 => Cmd::ExtConfirmed(rng.pick(&self.addrs).clone()),
            92..=95 => Cmd::ExtExpired(rng.pick(&self.addrs).clone()),
            _ => Cmd::PeerAddr { peer: 1 + rng.usize(3), a: rng.pick(&self.addrs).clone() },
        }
    }
    fn next<B>(&mut self, rng: &mut Rng, r: &Runner<B>) -> Mv
    where
        B: Shape,
        B::ToSwarm: std::fmt::Debug,
        THandlerInEvent<B>: Nest,
        THandlerOutEvent<B>: Nest,
    {
        let n = B::N;
        let n_dials = r.sim.tstate.lock().unwrap().dials.len();
        let n_conns = r.sim.world.lock().unwrap().conn_names.len();
        let connected: Vec<usize> = {
            let ps: Vec<PeerId> = r.sim.swarm.connected_peers().cloned().collect();
            let mut v: Vec<usize> = ps.iter().filter_map(|p| r.peers.iter().position(|q| q == p)).collect();
            v.sort();
            v
        };
        let some_conn = |rng: &mut Rng| if n_conns == 0 { 0 } else { rng.usize(n_conns + 1) };
        let some_direct = |rng: &mut Rng, g: &Gen| if g.n_direct == 0 { 0 } else { rng.usize(g.n_direct) };
        match rng.below(100) {
            0..=11 => {
                let p = if rng.chance(1, 4) { 2 } else { 7 };
                Mv::Script {
                    f: rng.usize(n),
                    bits: [rng.chance(1, p), rng.chance(1, p), rng.chance(1, p), rng.chance(1, p)],
                    addrs: if rng.chance(2, 3) { self.addr_list(rng, 3) } else { vec![] },
                }
            }
            12..=24 => {
                let peer = if rng.chance(1, 8) { None } else { Some(1 + rng.usize(3)) };
                let mut addrs = self.addr_list(rng, 3);
                if peer.is_none() && addrs.is_empty() {
                    addrs.push(self.addrs[0].clone());
                }
                Mv::Dial { peer, addrs, extend: peer.is_some() && rng.chance(3, 4) }
            }
            25..=36 => Mv::Resolve { k: if n_dials == 0 { 0 } else { rng.usize(n_dials + 1) }, peer: if rng.chance(1, 12) { 0 } else { 1 + rng.usize(3) } },
            37..=39 => Mv::Fail { k: if n_dials == 0 { 0 } else { rng.usize(n_dials + 1) } },
            40..=47 => Mv::Incoming,
            48..=57 => Mv::ResolveIn { k: if r.n_incoming == 0 { 0 } else { rng.usize(r.n_incoming + 1) }, peer: if rng.chance(1, 12) { 0 } else { 1 + rng.usize(3) } },
            58..=59 => Mv::FailIn { k: if r.n_incoming == 0 { 0 } else { rng.usize(r.n_incoming + 1) } },
            60..=62 => Mv::Close { c: some_conn(rng) },
            63..=64 => Mv::Disconnect { peer: 1 + rng.usize(3) },
            65..=66 => Mv::RemoteClose { c: some_conn(rng) },
            67..=68 => Mv::NewAddr { a: rng.pick(&self.addrs).clone() },
            69 => Mv::ExpireAddr { a: rng.pick(&self.addrs).clone() },
            70 => Mv::ListenerError,
            71 => Mv::Listen { a: rng.pick(&self.addrs).clone() },
            72..=73 => Mv::ExtAdd { a: rng.pick(&self.addrs).clone() },
            74 => Mv::ExtRm { a: rng.pick(&self.addrs).clone() },
            75 => Mv::PeerAddr { peer: 1 + rng.usize(3), a: rng.pick(&self.addrs).clone() },
            76..=89 => {
                let k = 1 + rng.usize(4);
                Mv::Push { items: (0..k).map(|_| (rng.usize(n), self.cmd(rng, n_conns, &connected))).collect() }
            }
            90 => Mv::DPendIn { k: { self.n_direct += 1; self.n_direct - 1 } },
            91 => Mv::DPendOut { k: { self.n_direct += 1; self.n_direct - 1 } },
            92..=93 => Mv::DEst { k: { self.n_direct += 1; self.n_direct - 1 }, inbound: rng.bool() },
            94..=95 => Mv::DRecv { k: some_direct(rng, self), path: Self::path(n, rng.usize(n)), v: self.val() },
            96..=97 => Mv::DPoll { k: some_direct(rng, self) },
            98 => Mv::DFrom { k: some_direct(rng, self), peer: 1 + rng.usize(3), path: Self::path(n, rng.usize(n)), v: self.val() },
            _ => Mv::DSwarm { kind: rng.below(3) as u8, a: rng.pick(&self.addrs).clone() },
        }
    }
}

fn header<B: Shape>(class: &str) -> String {
    format!("{class} nt=1 n={} out={}", B::N, if B::USER { "user" } else { "gen" })
}

/// bounded-exhaustive direct calls: every deny vector at each of the four decision points, every
/// component's handler event in both directions, every order of two ready handler components
fn exhaustive<B>(idx: u64, out: &mut Out)
where
    B: Shape,
    B::ToSwarm: std::fmt::Debug,
    THandlerInEvent<B>: Nest,
    THandlerOutEvent<B>: Nest,
{
    let n = B::N;
    out.case(idx, &header::<B>("exh"));
    let mut r = Runner::<B>::new();
    let addrs = base_addrs();
    let mut k = 0usize;
    let mut val = 0u32;
    for point in 0..4usize {
        for mask in 0..(1u32 << n) {
            for f in 0..n {
                let mut bits = [false; 4];
                bits[point] = mask & (1 << f) != 0;
                // field f answers with f+1 addresses (field 0 with none when the mask is even)
                let a: Vec<Multiaddr> = (0..(f + (mask as usize & 1))).map(|j| addrs[(f + j) % addrs.len()].clone()).collect();
                r.step(&Mv::Script { f, bits, addrs: a }, out);
            }
            let mv = match point {
                0 => Mv::DPendIn { k },
                1 => Mv::DPendOut { k },
                2 => Mv::DEst { k, inbound: true },
                _ => Mv::DEst { k, inbound: false },
            };
            r.step(&mv, out);
            if point >= 2 && mask == 0 {
                // a live derived handler: every component, both directions, every pair order
                for i in 0..n {
                    val += 1;
                    r.step(&Mv::DRecv { k, path: Gen::path(n, i), v: val }, out);
                    r.step(&Mv::DPoll { k }, out);
                    val += 1;
                    r.step(&Mv::DFrom { k, peer: 1 + i % 3, path: Gen::path(n, i), v: val }, out);
                }
                for i in 0..n {
                    for j in 0..n {
                        val += 2;
                        r.step(&Mv::DRecv { k, path: Gen::path(n, i), v: val - 1 }, out);
                        r.step(&Mv::DRecv { k, path: Gen::path(n, j), v: val }, out);
                        r.step(&Mv::DPoll { k }, out);
                        r.step(&Mv::DPoll { k }, out);
                        r.step(&Mv::DPoll { k }, out);
                    }
                }
            }
            k += 1;
        }
    }
    // every pair of fields ready in `poll` at once, both push orders
    for f in 0..n {
        r.step(&Mv::Script { f, bits: [false; 4], addrs: vec![] }, out);
    }
    for i in 0..n {
        for j in 0..n {
            val += 3;
            r.step(
                &Mv::Push { items: vec![(i, Cmd::Gen(val - 2)), (j, Cmd::Notify { peer: 1, one: None, v: val - 1 }), (i, Cmd::ExtCandidate(addrs[j].clone()))] },
                out,
            );
        }
    }
    out.end();
}

fn script_case<B>(idx: u64, seed: u64, out: &mut Out)
where
    B: Shape,
    B::ToSwarm: std::fmt::Debug,
    THandlerInEvent<B>: Nest,
    THandlerOutEvent<B>: Nest,
{
    let mut rng = Rng::for_case(seed, idx);
    let len = 10 + rng.usize(50);
    out.case(idx, &header::<B>("script"));
    let mut r = Runner::<B>::new();
    let mut g = Gen::new();
    for _ in 0..len {
        let mv = g.next(&mut rng, &r);
        r.step(&mv, out);
    }
    out.end();
}

fn replay_case<B>(idx: u64, ops: &[Vec<String>], out: &mut Out)
where
    B: Shape,
    B::ToSwarm: std::fmt::Debug,
    THandlerInEvent<B>: Nest,
    THandlerOutEvent<B>: Nest,
{
    out.case(idx, &header::<B>("replay"));
    let mut r = Runner::<B>::new();
    for t in ops {
        if t[0] == "mv" {
            r.step(&Mv::parse(&t[1..]), out);
        }
    }
    out.end();
}

macro_rules! by_shape {
    ($n:expr, $user:expr, $f:ident ( $($arg:expr),* )) => {
        match ($n, $user) {
            (1, false) => $f::<D1>($($arg),*),
            (2, false) => $f::<D2>($($arg),*),
            (3, false) => $f::<D3>($($arg),*),
            (4, false) => $f::<D4>($($arg),*),
            (1, true) => $f::<U1>($($arg),*),
            (2, true) => $f::<U2>($($arg),*),
            (3, true) => $f::<U3>($($arg),*),
            _ => $f::<U4>($($arg),*),
        }
    };
}

pub fn run(args: &Args, out: &mut Out) {
    if let Some(cases) = args.replay_cases() {
        for (i, (hdr, ops)) in cases.iter().enumerate() {
            let n: usize = hdr.iter().find_map(|t| t.strip_prefix("n=")).and_then(|v| v.parse().ok()).unwrap_or(3);
            let user = hdr.iter().any(|t| t == "out=user");
            by_shape!(n, user, replay_case(i as u64, ops, out));
        }
        return;
    }
    let mut idx = 0u64;
    for user in [false, true] {
        for n in 1..=4usize {
            by_shape!(n, user, exhaustive(idx, out));
            idx += 1;
        }
    }
    let total = args.n(1500, 20_000);
    for _ in 0..total {
        // shape from the index so every shape is hit equally often; 3 and 4 fields twice as often
        let pick = [(1, false), (2, false), (3, false), (3, true), (4, false), (4, true), (2, true), (1, true), (3, false), (4, false)][(idx % 10) as usize];
        by_shape!(pick.0, pick.1, script_case(idx, args.seed, out));
        idx += 1;
    }
}
