//! C50, life cycle part: drives a real `autonat::v1::Behaviour` (server role) through op histories
//! using only the public `NetworkBehaviour` API — connections via `handle_established_*_connection`
//! + `on_swarm_event`, inbound requests / stream failures / ResponseSent as handler events via
//! `on_connection_handler_event` (so the real request-response behaviour and `Behaviour::poll`
//! dispatch are in the loop), dial-back outcomes via `ConnectionEstablished{Dialer}` / `DialFailure`
//! — and compares after EVERY op: emitted `ToSwarm` actions, the response written to the request's
//! channel, the key set of `ongoing_inbound`, `throttled_clients`.
//!
//! ops (model tokens)
//!   warp <secs>
//!   conn <peer> <connid> <stored-observed|none> <dialed-addr|none>
//!   close <peer> <connid> <remaining>
//!   req <peer> <connid> <reqpeer> <reqid> <demanded-list>
//!   ifail <peer> <reqid>          (request-response reported InboundFailure for that request)
//!   rsent <peer> <reqid>
//!   dialfail <peer|none>
//! impl line: ev=<actions> resp=<responses> ongoing=<sorted peers> thr=<peers in order>
//! The clock is frozen (see main.rs): only `warp` moves it, so every throttle comparison is exact.
use std::task::{Context, Poll};
use std::time::Duration;

use hcore::{maddr_list_tok, maddr_tok, Multiaddr, Out, Protocol, Rng};
use libp2p_autonat::v1::verif_c50 as hook;
use libp2p_autonat::{Behaviour, Config, Event, InboundProbeError, InboundProbeEvent};
use libp2p_core::{ConnectedPoint, Endpoint, PeerId};
use libp2p_swarm::behaviour::{ConnectionClosed, ConnectionEstablished, DialFailure, FromSwarm};
use libp2p_swarm::{ConnectionId, DialError, NetworkBehaviour, THandlerInEvent, ToSwarm};

type Action = ToSwarm<Event, THandlerInEvent<Behaviour>>;

fn ptok(p: &PeerId) -> String {
    hcore::hex(&p.to_bytes())
}

fn probe_tok(p: &libp2p_autonat::ProbeId) -> String {
    format!("{p:?}").chars().filter(|c| c.is_ascii_digit()).collect()
}

pub struct SeqCfg {
    pub max_addrs: usize,
    pub gmax: usize,
    pub pmax: usize,
    pub period: u64,
    pub only_global: bool,
}

impl SeqCfg {
    pub fn tok(&self) -> String {
        format!("cfg={},{},{},{}", self.max_addrs, self.gmax, self.pmax, self.period)
    }
    pub fn parse(tok: &str) -> Option<SeqCfg> {
        let v: Vec<u64> = tok.strip_prefix("cfg=")?.split(',').map(|x| x.parse().ok()).collect::<Option<_>>()?;
        if v.len() != 4 {
            return None;
        }
        Some(SeqCfg { max_addrs: v[0] as usize, gmax: v[1] as usize, pmax: v[2] as usize, period: v[3], only_global: false })
    }
}

struct Req {
    id: u64,
    peer: PeerId,
    conn: usize,
    rx: hook::PendingResponse,
    /// still pending inside request-response (no ResponseSent / failure yet, connection open)
    rr_pending: bool,
    /// the server wrote a response / dropped the channel
    resolved: bool,
    responded: bool,
}

pub struct Sim {
    b: Behaviour,
    conns: Vec<(PeerId, usize)>,
    reqs: Vec<Req>,
    /// addresses of the last Dial per peer (to script a successful dial-back)
    pub dialed: Vec<(PeerId, Vec<Multiaddr>)>,
    pub lines: Vec<(String, String)>,
    pub dials: usize,
    pub stale_failures: usize,
}

fn local_addr() -> Multiaddr {
    "/ip4/9.9.9.9/tcp/1".parse().unwrap()
}

impl Sim {
    pub fn new(c: &SeqCfg) -> Sim {
        let cfg = Config {
            max_peer_addresses: c.max_addrs,
            throttle_clients_global_max: c.gmax,
            throttle_clients_peer_max: c.pmax,
            throttle_clients_period: Duration::from_secs(c.period),
            only_global_ips: c.only_global,
            // the client role must stay silent
            boot_delay: Duration::from_secs(1_000_000_000),
            ..Config::default()
        };
        Sim { b: Behaviour::new(hcore::peer(250), cfg), conns: vec![], reqs: vec![], dialed: vec![], lines: vec![], dials: 0, stale_failures: 0 }
    }

    fn drain(&mut self) -> Vec<Action> {
        let waker = futures::task::noop_waker();
        let mut cx = Context::from_waker(&waker);
        let mut v = vec![];
        while let Poll::Ready(a) = self.b.poll(&mut cx) {
            v.push(a);
            if v.len() > 64 {
                break;
            }
        }
        v
    }

    fn render(&mut self, actions: Vec<Action>) -> String {
        let mut toks = vec![];
        for a in actions {
            match a {
                ToSwarm::GenerateEvent(Event::InboundProbe(e)) => match e {
                    InboundProbeEvent::Request { probe_id, peer, addresses } => {
                        toks.push(format!("req,{},{},{}", probe_tok(&probe_id), ptok(&peer), maddr_list_tok(&addresses)))
                    }
                    InboundProbeEvent::Response { probe_id, peer, address } => {
                        toks.push(format!("ok,{},{},{}", probe_tok(&probe_id), ptok(&peer), maddr_tok(&address)))
                    }
                    InboundProbeEvent::Error { probe_id, peer, error } => {
                        let k = match error {
                            InboundProbeError::InboundRequest(_) => "inbound".to_string(),
                            InboundProbeError::Response(e) => format!("resp-{e:?}"),
                        };
                        toks.push(format!("err,{},{},{}", probe_tok(&probe_id), ptok(&peer), k))
                    }
                },
                ToSwarm::Dial { opts } => {
                    let addrs = libp2p_swarm::verif_c50::dial_opts_addresses(&opts);
                    let peer = opts.get_peer_id();
                    if let Some(p) = peer {
                        self.dialed.retain(|(q, _)| *q != p);
                        self.dialed.push((p, addrs.clone()));
                    }
                    self.dials += 1;
                    toks.push(format!("dial,{},{}", peer.map(|p| ptok(&p)).unwrap_or_else(|| "none".into()), maddr_list_tok(&addrs)))
                }
                _ => toks.push("other".to_string()),
            }
        }
        if toks.is_empty() {
            "-".into()
        } else {
            toks.join("+")
        }
    }

    fn responses(&mut self) -> String {
        let mut toks = vec![];
        for r in self.reqs.iter_mut().filter(|r| !r.resolved) {
            match r.rx.state() {
                hook::ResponseState::Pending => {}
                hook::ResponseState::Dropped => {
                    r.resolved = true;
                    toks.push(format!("{}:dropped", r.id));
                }
                hook::ResponseState::Sent(res, text) => {
                    r.resolved = true;
                    r.responded = true;
                    match res {
                        Ok(a) => toks.push(format!("{}:Ok,{}", r.id, maddr_tok(&a))),
                        Err(e) => toks.push(format!("{}:Err,{:?},{}", r.id, e, text.unwrap_or_else(|| "-".into()).replace(' ', "_"))),
                    }
                }
            }
        }
        if toks.is_empty() {
            "-".into()
        } else {
            toks.join("+")
        }
    }

    /// after an op has been applied to the behaviour: poll, observe, record the (op, impl) pair
    fn record(&mut self, op: String, poll: bool) {
        let actions = if poll { self.drain() } else { vec![] };
        let ev = self.render(actions);
        let resp = self.responses();
        let mut keys: Vec<String> = hook::ongoing_keys(&self.b).iter().map(ptok).collect();
        keys.sort();
        let thr: Vec<String> = hook::throttled_peers(&self.b).iter().map(ptok).collect();
        let j = |v: &Vec<String>| if v.is_empty() { "-".to_string() } else { v.join(",") };
        self.lines.push((op, format!("ev={} resp={} ongoing={} thr={}", ev, resp, j(&keys), j(&thr))));
    }

    pub fn live_conns(&self) -> &[(PeerId, usize)] {
        &self.conns
    }

    pub fn has_conn(&self, peer: &PeerId, conn: usize) -> bool {
        self.conns.contains(&(*peer, conn))
    }

    pub fn conn_used(&self, conn: usize) -> bool {
        self.conns.iter().any(|(_, c)| *c == conn)
    }

    /// ids of requests still pending inside request-response: (id, peer, responded)
    pub fn rr_pending(&self) -> Vec<(u64, PeerId, bool)> {
        self.reqs.iter().filter(|r| r.rr_pending).map(|r| (r.id, r.peer, r.responded)).collect()
    }

    pub fn has_req(&self, id: u64) -> bool {
        self.reqs.iter().any(|r| r.id == id)
    }

    pub fn ongoing(&self) -> Vec<PeerId> {
        hook::ongoing_keys(&self.b)
    }

    pub fn warp(&mut self, secs: u64) {
        hcore::warp(Duration::from_secs(secs));
        self.record(format!("warp {secs}"), true);
    }

    /// `remote` is the send-back address (listener) or the dialed address (dialer); `relayed`
    /// makes a listener endpoint a relayed one (`ConnectedPoint::is_relayed` looks at `local_addr`)
    pub fn connect(&mut self, peer: PeerId, conn: usize, remote: &Multiaddr, dialer: bool, relayed: bool) {
        if self.conn_used(conn) {
            return;
        }
        let cid = ConnectionId::new_unchecked(conn);
        let ep = if dialer {
            let _ = self.b.handle_established_outbound_connection(cid, peer, remote, Endpoint::Dialer, libp2p_core::transport::PortUse::New);
            ConnectedPoint::Dialer { address: remote.clone(), role_override: Endpoint::Dialer, port_use: libp2p_core::transport::PortUse::New }
        } else {
            let mut local = local_addr();
            if relayed {
                local.push(Protocol::P2p(hcore::peer(9)));
                local.push(Protocol::P2pCircuit);
            }
            let _ = self.b.handle_established_inbound_connection(cid, peer, &local, remote);
            ConnectedPoint::Listener { local_addr: local, send_back_addr: remote.clone() }
        };
        let other = self.conns.iter().filter(|(p, _)| *p == peer).count();
        self.b.on_swarm_event(FromSwarm::ConnectionEstablished(ConnectionEstablished {
            peer_id: peer,
            connection_id: cid,
            endpoint: &ep,
            failed_addresses: &[],
            other_established: other,
        }));
        self.conns.push((peer, conn));
        let stored = hook::observed_entry(&self.b, &peer, &cid).flatten();
        let op = format!(
            "conn {} {} {} {}",
            ptok(&peer),
            conn,
            stored.as_ref().map(maddr_tok).unwrap_or_else(|| "none".into()),
            if dialer { maddr_tok(remote) } else { "none".into() }
        );
        self.record(op, true);
    }

    pub fn close(&mut self, peer: PeerId, conn: usize) {
        if !self.has_conn(&peer, conn) {
            return;
        }
        self.conns.retain(|c| *c != (peer, conn));
        let remaining = self.conns.iter().filter(|(p, _)| *p == peer).count();
        let ep = ConnectedPoint::Listener { local_addr: local_addr(), send_back_addr: local_addr() };
        self.b.on_swarm_event(FromSwarm::ConnectionClosed(ConnectionClosed {
            peer_id: peer,
            connection_id: ConnectionId::new_unchecked(conn),
            endpoint: &ep,
            cause: None,
            remaining_established: remaining,
        }));
        // request-response queues an InboundFailure for every request pending on that connection;
        // the server sees them at the next poll, one per poll result, in an unspecified order —
        // the caller keeps at most one pending per closing connection.
        let lost: Vec<u64> = self.reqs.iter().filter(|r| r.rr_pending && r.peer == peer && r.conn == conn).map(|r| r.id).collect();
        self.record(format!("close {} {} {}", ptok(&peer), conn, remaining), false);
        for id in lost {
            self.mark_failed(id);
            let waker = futures::task::noop_waker();
            let mut cx = Context::from_waker(&waker);
            let mut acts = vec![];
            if let Poll::Ready(a) = self.b.poll(&mut cx) {
                acts.push(a);
            }
            let ev = self.render(acts);
            let resp = self.responses();
            let mut keys: Vec<String> = hook::ongoing_keys(&self.b).iter().map(ptok).collect();
            keys.sort();
            let thr: Vec<String> = hook::throttled_peers(&self.b).iter().map(ptok).collect();
            let j = |v: &Vec<String>| if v.is_empty() { "-".to_string() } else { v.join(",") };
            self.lines.push((format!("ifail {} {}", ptok(&peer), id), format!("ev={} resp={} ongoing={} thr={}", ev, resp, j(&keys), j(&thr))));
        }
    }

    fn mark_failed(&mut self, id: u64) {
        let ongoing = self.ongoing();
        if let Some(r) = self.reqs.iter_mut().find(|r| r.id == id) {
            r.rr_pending = false;
            // a failure of a request that is not the one answered by the tracked dial-back
            if ongoing.contains(&r.peer) && r.resolved {
                self.stale_failures += 1;
            }
        }
    }

    pub fn request(&mut self, peer: PeerId, conn: usize, reqpeer: PeerId, id: u64, addrs: Vec<Multiaddr>) {
        if !self.has_conn(&peer, conn) || self.has_req(id) {
            return;
        }
        let (ev, rx) = hook::handler_request(id, reqpeer, addrs.clone());
        self.b.on_connection_handler_event(peer, ConnectionId::new_unchecked(conn), ev);
        self.reqs.push(Req { id, peer, conn, rx, rr_pending: true, resolved: false, responded: false });
        self.record(format!("req {} {} {} {} {}", ptok(&peer), conn, ptok(&reqpeer), id, maddr_list_tok(&addrs)), true);
    }

    /// the handler reports that the inbound stream of request `id` failed / timed out
    pub fn fail(&mut self, id: u64, timeout: bool) {
        let Some(r) = self.reqs.iter().find(|r| r.id == id && r.rr_pending) else { return };
        let (peer, conn) = (r.peer, r.conn);
        let ev = if timeout { hook::handler_inbound_timeout(id) } else { hook::handler_inbound_stream_failed(id) };
        self.mark_failed(id);
        self.b.on_connection_handler_event(peer, ConnectionId::new_unchecked(conn), ev);
        self.record(format!("ifail {} {}", ptok(&peer), id), true);
    }

    pub fn response_sent(&mut self, id: u64) {
        let Some(r) = self.reqs.iter_mut().find(|r| r.id == id && r.rr_pending && r.responded) else { return };
        let (peer, conn) = (r.peer, r.conn);
        r.rr_pending = false;
        self.b.on_connection_handler_event(peer, ConnectionId::new_unchecked(conn), hook::handler_response_sent(id));
        self.record(format!("rsent {} {}", ptok(&peer), id), true);
    }

    pub fn dial_failure(&mut self, peer: Option<PeerId>) {
        let err = DialError::Aborted;
        self.b.on_swarm_event(FromSwarm::DialFailure(DialFailure { peer_id: peer, error: &err, connection_id: ConnectionId::new_unchecked(999_999) }));
        self.record(format!("dialfail {}", peer.map(|p| ptok(&p)).unwrap_or_else(|| "none".into())), true);
    }

    pub fn emit(self, out: &mut Out, idx: u64, header: &str) {
        out.case(idx, header);
        for (op, imp) in &self.lines {
            out.op(op);
            out.imp(imp);
        }
        out.end();
    }
}

fn peer_ip(i: usize) -> Protocol<'static> {
    match i {
        0 => Protocol::Ip4([8, 8, 8, 8].into()),
        1 => Protocol::Ip4([1, 2, 3, 4].into()),
        _ => Protocol::Ip6("2001:4860:4860::8888".parse().unwrap()),
    }
}

fn build(ps: &[Protocol<'static>]) -> Multiaddr {
    let mut a = Multiaddr::empty();
    for p in ps {
        a.push(p.clone());
    }
    a
}

/// one generated history
pub fn gen_case(rng: &mut Rng, out: &mut Out, idx: u64, thorough: bool) {
    let cfg = SeqCfg {
        max_addrs: *rng.pick(&[1usize, 2, 16]),
        gmax: *rng.pick(&[1usize, 2, 3, 4, 30]),
        pmax: *rng.pick(&[1usize, 2, 3, 30]),
        period: *rng.pick(&[5u64, 15, 35]),
        only_global: rng.bool(),
    };
    let peers: Vec<PeerId> = (0..3).map(|i| hcore::peer(1 + i as u8)).collect();
    let foreign = hcore::peer(9);
    let mut sim = Sim::new(&cfg);
    let mut next_conn = 0usize;
    let mut next_req = 0u64;
    let steps = if thorough { 10 + rng.usize(50) } else { 8 + rng.usize(30) };
    // start with a connection so that requests are possible early
    let demanded = |rng: &mut Rng, pi: usize, me: PeerId| -> Vec<Multiaddr> {
        let ip = peer_ip(pi);
        let other = peer_ip((pi + 1) % 3);
        let n = 1 + rng.usize(3);
        (0..n)
            .map(|_| match rng.below(8) {
                0 => build(&[other.clone(), Protocol::Tcp(rng.range(1, 3) as u16), Protocol::P2p(me)]),
                1 => build(&[ip.clone(), Protocol::Tcp(1), other.clone(), Protocol::Tcp(2)]),
                2 => build(&[ip.clone(), Protocol::P2p(me), Protocol::Tcp(rng.range(1, 3) as u16)]),
                3 => build(&[ip.clone(), Protocol::Tcp(1), Protocol::P2p(foreign), Protocol::P2pCircuit, Protocol::P2p(me)]),
                4 => build(&[Protocol::Dns("example.com".into()), Protocol::Tcp(1)]),
                _ => build(&[other.clone(), Protocol::Tcp(rng.range(1, 4) as u16)]),
            })
            .collect()
    };
    for step in 0..steps {
        let pi = if rng.chance(2, 3) { 0 } else { rng.usize(3) };
        let p = peers[pi];
        let choice = if step == 0 { 0 } else { rng.below(20) };
        match choice {
            // new inbound connection, observed at the peer's ip (or hidden)
            0 | 1 => {
                let (remote, relayed) = match rng.below(5) {
                    0 => (build(&[peer_ip(pi), Protocol::Tcp(1)]), true),
                    1 if cfg.only_global => (build(&[Protocol::Ip4([10, 0, 0, 1].into()), Protocol::Tcp(7)]), false),
                    _ => (build(&[peer_ip(pi), Protocol::Tcp(rng.range(1000, 60000) as u16)]), false),
                };
                sim.connect(p, next_conn, &remote, false, relayed);
                next_conn += 1;
            }
            // outbound connection: the dial-back succeeded (address from the last Dial) or an unrelated one
            2 | 3 => {
                let addr = match sim.dialed.iter().find(|(q, _)| *q == p) {
                    Some((_, addrs)) if !addrs.is_empty() && rng.chance(4, 5) => rng.pick(addrs).clone(),
                    _ => build(&[peer_ip(pi), Protocol::Tcp(7777)]),
                };
                sim.connect(p, next_conn, &addr, true, false);
                next_conn += 1;
            }
            // close a connection (fail all but at most one of its pending requests first)
            4 => {
                if !sim.live_conns().is_empty() {
                    let (cp, cc) = *rng.pick(sim.live_conns());
                    let mut pend: Vec<u64> = sim.reqs.iter().filter(|r| r.rr_pending && r.peer == cp && r.conn == cc).map(|r| r.id).collect();
                    let keep = if rng.bool() { pend.pop() } else { None };
                    let _ = keep;
                    for id in pend {
                        sim.fail(id, false);
                    }
                    sim.close(cp, cc);
                }
            }
            // inbound request
            5..=11 => {
                let mine: Vec<usize> = sim.live_conns().iter().filter(|(q, _)| *q == p).map(|(_, c)| *c).collect();
                if mine.is_empty() {
                    let remote = build(&[peer_ip(pi), Protocol::Tcp(rng.range(1000, 60000) as u16)]);
                    sim.connect(p, next_conn, &remote, false, false);
                    next_conn += 1;
                } else {
                    let conn = *rng.pick(&mine);
                    let reqpeer = if rng.chance(1, 12) { foreign } else { p };
                    let d = demanded(rng, pi, p);
                    sim.request(p, conn, reqpeer, next_req, d);
                    next_req += 1;
                }
            }
            // failure of a pending inbound request: prefer "stale" ones (not the tracked dial-back's)
            12..=14 => {
                let pend = sim.rr_pending();
                if !pend.is_empty() {
                    let stale: Vec<&(u64, PeerId, bool)> = pend.iter().filter(|(_, _, responded)| *responded).collect();
                    let id = if !stale.is_empty() && rng.chance(2, 3) { rng.pick(&stale).0 } else { rng.pick(&pend).0 };
                    sim.fail(id, rng.bool());
                }
            }
            // ResponseSent
            15 => {
                let pend: Vec<u64> = sim.rr_pending().iter().filter(|x| x.2).map(|x| x.0).collect();
                if !pend.is_empty() {
                    sim.response_sent(*rng.pick(&pend));
                }
            }
            // dial failure
            16 | 17 => {
                let on = sim.ongoing();
                let target = if !on.is_empty() && rng.chance(3, 4) { Some(*rng.pick(&on)) } else if rng.chance(1, 4) { None } else { Some(p) };
                sim.dial_failure(target);
            }
            // time passes (boundary values of the throttle period included)
            _ => {
                let secs = *rng.pick(&[1u64, cfg.period - 1, cfg.period, cfg.period + 1, 2 * cfg.period + 1]);
                sim.warp(secs);
            }
        }
    }
    let nt = sim.dials > 0;
    let header = format!("seq nt={} {} og={} dials={} stale={}", nt as u8, cfg.tok(), cfg.only_global as u8, sim.dials, sim.stale_failures);
    sim.emit(out, idx, &header);
}

/// replay: re-execute the op lines (ops that are impossible in the current state are skipped, so
/// shrunk cases stay meaningful; `ifail` lines produced by a `close` are re-produced by the close)
pub fn replay_case(out: &mut Out, idx: u64, header: &[String], ops: &[Vec<String>], peer_of: &dyn Fn(&str) -> PeerId, parse: &dyn Fn(&str) -> Multiaddr, list_of: &dyn Fn(&str) -> Vec<Multiaddr>) {
    let cfg = header.iter().find_map(|t| SeqCfg::parse(t)).unwrap_or(SeqCfg { max_addrs: 16, gmax: 30, pmax: 3, period: 5, only_global: false });
    let mut sim = Sim::new(&cfg);
    for op in ops {
        match op[0].as_str() {
            "warp" => sim.warp(op[1].parse().unwrap()),
            "conn" => {
                let peer = peer_of(&op[1]);
                let conn: usize = op[2].parse().unwrap();
                if op[4] != "none" {
                    sim.connect(peer, conn, &parse(&op[4]), true, false);
                } else if op[3] != "none" {
                    sim.connect(peer, conn, &parse(&op[3]), false, false);
                } else {
                    sim.connect(peer, conn, &build(&[Protocol::Ip4([1, 2, 3, 4].into()), Protocol::Tcp(1)]), false, true);
                }
            }
            "close" => sim.close(peer_of(&op[1]), op[2].parse().unwrap()),
            "req" => sim.request(peer_of(&op[1]), op[2].parse().unwrap(), peer_of(&op[3]), op[4].parse().unwrap(), list_of(&op[5])),
            "ifail" => sim.fail(op[2].parse().unwrap(), false),
            "rsent" => sim.response_sent(op[2].parse().unwrap()),
            "dialfail" => sim.dial_failure(if op[1] == "none" { None } else { Some(peer_of(&op[1])) }),
            _ => {}
        }
    }
    let h = format!("replay nt=1 {}", cfg.tok());
    sim.emit(out, idx, &h);
}
