//! C50 — AutoNAT v1 server: `filter_valid_addrs` and `resolve_inbound_request` (through the
//! `cfg(libp2p_verif)` hook `libp2p_autonat::v1::verif_c50`) vs the Lean model `C50`.
//!
//! ops
//!   filter  <peer> <observed> <demanded-list>                       -> impl <list>
//!   resolve <maxaddrs> <gmax> <pmax> <period> <thr> <conns> <sender> <reqpeer> <demanded-list>
//!                                                                   -> impl ok <list> thr=<peers> | err <text> <code> thr=<peers> | panic <msg>
//! `thr`   = `peer@age,…` oldest first (`-` empty); ages are multiples of 10 s, periods are ≡ 5 mod 10,
//!           so no comparison in the real code is within 5 s of its boundary (no timing dependence).
//! `conns` = `!` (peer not connected) | `~` | `;`-joined stored observed addresses (`none` = hidden)
//!           in the iteration order of the real `HashMap` (read back through the hook).
use std::time::Duration;

use hcore::{maddr_list_tok, maddr_tok, Args, Multiaddr, Out, Protocol, Rng};
use libp2p_autonat::v1::verif_c50 as hook;
use libp2p_autonat::{Behaviour, Config};
use libp2p_core::{ConnectedPoint, Endpoint, PeerId};
use libp2p_swarm::behaviour::{ConnectionClosed, ConnectionEstablished, FromSwarm};
use libp2p_swarm::{ConnectionId, NetworkBehaviour};

fn ptok(p: &PeerId) -> String {
    hcore::hex(&p.to_bytes())
}

fn ip4(a: u8, b: u8, c: u8, d: u8) -> Protocol<'static> {
    Protocol::Ip4([a, b, c, d].into())
}

/// global (publicly routable) and non-global IPs
fn ips() -> Vec<Protocol<'static>> {
    vec![
        ip4(8, 8, 8, 8),
        ip4(1, 2, 3, 4),
        ip4(203, 0, 114, 7),
        Protocol::Ip6("2001:4860:4860::8888".parse().unwrap()),
        Protocol::Ip6("2606:4700::1111".parse().unwrap()),
        ip4(10, 0, 0, 1),
        ip4(127, 0, 0, 1),
        Protocol::Ip6("::1".parse().unwrap()),
    ]
}

fn build(ps: &[Protocol<'static>]) -> Multiaddr {
    let mut a = Multiaddr::empty();
    for p in ps {
        a.push(p.clone());
    }
    a
}

/// component alphabet for demanded addresses relative to (observed ip, requester)
fn alphabet(obs_ip: &Protocol<'static>, other_ip: &Protocol<'static>, me: PeerId, foreign: PeerId) -> Vec<Protocol<'static>> {
    vec![
        obs_ip.clone(),
        other_ip.clone(),
        Protocol::Tcp(4001),
        Protocol::P2p(me),
        Protocol::P2p(foreign),
        Protocol::P2pCircuit,
        Protocol::Dns("example.com".into()),
        Protocol::Udp(9),
        Protocol::QuicV1,
        Protocol::Ip6("2001:db8::7".parse().unwrap()),
        Protocol::Dns4("a.b".into()),
        Protocol::Tls,
        Protocol::Ws("/".into()),
        Protocol::Memory(5),
        Protocol::Tcp(80),
    ]
}

/// mostly-valid dial-back address with seeded malformations
fn gen_addr(rng: &mut Rng, al: &[Protocol<'static>], me: PeerId) -> Multiaddr {
    let ip_any = |rng: &mut Rng| if rng.chance(1, 3) { al[0].clone() } else if rng.chance(1, 2) { al[1].clone() } else { al[9].clone() };
    match rng.below(10) {
        // plain valid shapes
        0 | 1 => build(&[ip_any(rng), Protocol::Tcp(rng.range(1, 3) as u16)]),
        2 => build(&[ip_any(rng), Protocol::Tcp(rng.range(1, 3) as u16), Protocol::P2p(me)]),
        3 => build(&[ip_any(rng), Protocol::Udp(9), Protocol::QuicV1]),
        // two / three IP components
        4 => {
            let mut v = vec![ip_any(rng), Protocol::Tcp(1), ip_any(rng), Protocol::Tcp(2)];
            if rng.bool() {
                v.push(ip_any(rng));
            }
            if rng.bool() {
                v.push(Protocol::P2p(me));
            }
            build(&v)
        }
        // /p2p in the middle
        5 => {
            let who = if rng.chance(3, 4) { me } else { hcore::peer(200) };
            let mut v = vec![ip_any(rng), Protocol::P2p(who), Protocol::Tcp(1)];
            if rng.chance(1, 3) {
                v.push(Protocol::P2p(me));
            }
            build(&v)
        }
        // relay
        6 => build(&[ip_any(rng), Protocol::Tcp(1), Protocol::P2p(hcore::peer(201)), Protocol::P2pCircuit, Protocol::P2p(me)]),
        // dns first, ip later / no ip at all
        7 => {
            if rng.bool() {
                build(&[Protocol::Dns("example.com".into()), Protocol::Tcp(1), ip_any(rng), Protocol::Tcp(2)])
            } else {
                build(&[Protocol::Dns4("a.b".into()), Protocol::Tcp(1)])
            }
        }
        // random soup
        _ => {
            let n = rng.usize(6);
            let v: Vec<_> = (0..n).map(|_| rng.pick(al).clone()).collect();
            build(&v)
        }
    }
}

fn gen_list(rng: &mut Rng, al: &[Protocol<'static>], me: PeerId) -> Vec<Multiaddr> {
    let n = match rng.below(8) {
        0 => 0,
        1 => 1,
        2..=5 => 2 + rng.usize(4),
        _ => 6 + rng.usize(14),
    };
    let mut l: Vec<Multiaddr> = vec![];
    for _ in 0..n {
        if !l.is_empty() && rng.chance(1, 4) {
            // exact duplicate, or a variant that collapses after rewriting (other ip / explicit suffix)
            let a = rng.pick(&l).clone();
            let b = match rng.below(3) {
                0 => a,
                1 => {
                    let mut first = true;
                    a.iter()
                        .map(|p| {
                            if first && matches!(p, Protocol::Ip4(_) | Protocol::Ip6(_)) {
                                first = false;
                                al[1].clone()
                            } else {
                                p
                            }
                        })
                        .collect()
                }
                _ => {
                    let mut a = a;
                    a.push(Protocol::P2p(me));
                    a
                }
            };
            l.push(b);
        } else {
            l.push(gen_addr(rng, al, me));
        }
    }
    l
}

fn do_filter(out: &mut Out, peer: PeerId, obs: &Multiaddr, demanded: Vec<Multiaddr>) {
    out.op(&format!("filter {} {} {}", ptok(&peer), maddr_tok(obs), maddr_list_tok(&demanded)));
    match hcore::guarded(|| hook::filter_valid_addrs(peer, demanded, obs)) {
        Ok(l) => out.imp(&maddr_list_tok(&l)),
        Err(m) => out.imp(&format!("panic {m}")),
    }
}

#[derive(Clone)]
struct ResolveCase {
    max_addrs: usize,
    gmax: usize,
    pmax: usize,
    period: u64,
    thr: Vec<(PeerId, u64)>,
    /// connections to establish for the sender: remote address (None = do not connect at all)
    conns: Option<Vec<Multiaddr>>,
    only_global: bool,
    /// close this many of them again (the first ones)
    close: usize,
    sender: PeerId,
    reqpeer: PeerId,
    demanded: Vec<Multiaddr>,
}

fn establish(b: &mut Behaviour, peer: PeerId, id: usize, remote: &Multiaddr, dialer: bool) {
    let ep = if dialer {
        ConnectedPoint::Dialer { address: remote.clone(), role_override: Endpoint::Dialer, port_use: libp2p_core::transport::PortUse::New }
    } else {
        ConnectedPoint::Listener { local_addr: "/ip4/9.9.9.9/tcp/1".parse().unwrap(), send_back_addr: remote.clone() }
    };
    // the swarm first asks for a handler (request-response registers the connection there) …
    let cid = ConnectionId::new_unchecked(id);
    let local: Multiaddr = "/ip4/9.9.9.9/tcp/1".parse().unwrap();
    if dialer {
        let _ = b.handle_established_outbound_connection(cid, peer, remote, Endpoint::Dialer, libp2p_core::transport::PortUse::New);
    } else {
        let _ = b.handle_established_inbound_connection(cid, peer, &local, remote);
    }
    // … then reports the established connection
    b.on_swarm_event(FromSwarm::ConnectionEstablished(ConnectionEstablished {
        peer_id: peer,
        connection_id: ConnectionId::new_unchecked(id),
        endpoint: &ep,
        failed_addresses: &[],
        other_established: id,
    }));
}

fn err_tok(text: &str, e: &libp2p_autonat::ResponseError) -> String {
    format!("{} {:?}", text.replace(' ', "_"), e)
}

fn setup_conns(b: &mut Behaviour, c: &ResolveCase) {
    if let Some(conns) = &c.conns {
        for (i, r) in conns.iter().enumerate() {
            establish(b, c.sender, i, r, i % 3 == 2);
        }
        for i in 0..c.close.min(conns.len()) {
            let ep = ConnectedPoint::Listener { local_addr: "/ip4/9.9.9.9/tcp/1".parse().unwrap(), send_back_addr: conns[i].clone() };
            b.on_swarm_event(FromSwarm::ConnectionClosed(ConnectionClosed {
                peer_id: c.sender,
                connection_id: ConnectionId::new_unchecked(i),
                endpoint: &ep,
                cause: None,
                remaining_established: conns.len() - i - 1,
            }));
        }
    }
}

fn do_resolve(out: &mut Out, c: &ResolveCase) {
    let cfg = Config {
        max_peer_addresses: c.max_addrs,
        throttle_clients_global_max: c.gmax,
        throttle_clients_peer_max: c.pmax,
        throttle_clients_period: Duration::from_secs(c.period),
        only_global_ips: c.only_global,
        ..Config::default()
    };
    let mut b = Behaviour::new(hcore::peer(250), cfg);
    let setup = hcore::guarded(|| setup_conns(&mut b, c));
    if let Err(m) = setup {
        eprintln!("C50 harness: connection setup panicked: {m}");
        std::process::exit(3);
    }
    let conns_tok = match hook::observed_of(&b, &c.sender) {
        None => "!".to_string(),
        Some(v) if v.is_empty() => "~".to_string(),
        Some(v) => v.iter().map(|o| o.as_ref().map(maddr_tok).unwrap_or_else(|| "none".into())).collect::<Vec<_>>().join(";"),
    };
    let thr_tok = if c.thr.is_empty() { "-".to_string() } else { c.thr.iter().map(|(p, a)| format!("{}@{}", ptok(p), a)).collect::<Vec<_>>().join(",") };
    out.op(&format!(
        "resolve {} {} {} {} {} {} {} {} {}",
        c.max_addrs, c.gmax, c.pmax, c.period, thr_tok, conns_tok, ptok(&c.sender), ptok(&c.reqpeer), maddr_list_tok(&c.demanded)
    ));
    let thr: Vec<(PeerId, Duration)> = c.thr.iter().map(|(p, a)| (*p, Duration::from_secs(*a))).collect();
    let r = hcore::guarded(|| hook::resolve_inbound_request(&mut b, &thr, c.sender, c.reqpeer, c.demanded.clone()));
    match r {
        Ok((res, left)) => {
            let left = if left.is_empty() { "-".to_string() } else { left.iter().map(ptok).collect::<Vec<_>>().join(",") };
            match res {
                Ok(l) => out.imp(&format!("ok {} thr={}", maddr_list_tok(&l), left)),
                Err((t, e)) => out.imp(&format!("err {} thr={}", err_tok(&t, &e), left)),
            }
        }
        Err(m) => out.imp(&format!("panic {m}")),
    }
}

fn gen_resolve(rng: &mut Rng) -> ResolveCase {
    let ipv = ips();
    let sender = hcore::peer(1 + rng.below(3) as u8);
    let foreign = hcore::peer(9);
    let obs_ip = rng.pick(&ipv[..5]).clone();
    let other_ip = loop {
        let o = rng.pick(&ipv).clone();
        if o != obs_ip {
            break o;
        }
    };
    let al = alphabet(&obs_ip, &other_ip, sender, foreign);
    let only_global = rng.chance(2, 3);
    let conns = if rng.chance(1, 12) {
        None
    } else {
        let n = 1 + rng.usize(3);
        Some(
            (0..n)
                .map(|_| match rng.below(6) {
                    // relayed endpoint
                    0 => build(&[ipv[1].clone(), Protocol::Tcp(1), Protocol::P2p(foreign), Protocol::P2pCircuit]),
                    // private ip (hidden iff only_global)
                    1 => build(&[rng.pick(&ipv[5..]).clone(), Protocol::Tcp(7)]),
                    // address without ip in front
                    2 => build(&[Protocol::Dns("example.com".into()), Protocol::Tcp(1), obs_ip.clone()]),
                    3 => build(&[rng.pick(&ipv[..5]).clone(), Protocol::Udp(2), Protocol::QuicV1]),
                    _ => build(&[obs_ip.clone(), Protocol::Tcp(rng.range(1, 60000) as u16)]),
                })
                .collect::<Vec<_>>(),
        )
    };
    let close = if rng.chance(1, 8) { 1 + rng.usize(2) } else { 0 };
    let gmax = *rng.pick(&[0usize, 1, 2, 3, 5, 5, 30, 30]);
    let pmax = *rng.pick(&[0usize, 1, 2, 3, 3, 30]);
    let period = *rng.pick(&[5u64, 15, 35, 105]);
    // throttled list, oldest first, sized around the limits
    let n = match rng.below(4) {
        0 => 0,
        1 => gmax.saturating_sub(1) + rng.usize(3),
        _ => rng.usize(gmax + 3),
    };
    let mut ages: Vec<u64> = (0..n).map(|_| 10 * rng.below(period / 10 + 3)).collect();
    ages.sort_unstable_by(|a, b| b.cmp(a));
    let thr = ages.into_iter().map(|a| (hcore::peer(1 + rng.below(6) as u8), a)).collect();
    let reqpeer = if rng.chance(1, 10) { foreign } else { sender };
    ResolveCase {
        max_addrs: *rng.pick(&[0usize, 1, 2, 3, 16]),
        gmax,
        pmax,
        period,
        thr,
        conns,
        only_global,
        close,
        sender,
        reqpeer,
        demanded: gen_list(rng, &al, sender),
    }
}

pub fn run(args: &Args, out: &mut Out) {
    // head-room so that `Instant::now() - age` never underflows the monotonic clock
    hcore::warp(Duration::from_secs(10_000_000));
    if let Some(cases) = args.replay_cases() {
        for (i, (header, ops)) in cases.iter().enumerate() {
            let seq = ops.iter().any(|op| matches!(op[0].as_str(), "warp" | "conn" | "close" | "req" | "ifail" | "rsent" | "dialfail"));
            if seq {
                crate::c50_seq::replay_case(out, i as u64, header, ops, &peer_of, &parse_tok, &list_of);
                continue;
            }
            out.case(i as u64, "replay nt=1");
            for op in ops {
                replay_op(out, op);
            }
            out.end();
        }
        return;
    }
    let ipv = ips();
    let mut idx = 0u64;

    // (1) bounded-exhaustive: every address of ≤ 3 (thorough: ≤ 4) components over a 7-letter alphabet,
    // as a one-element list, against an observed address whose IP is not its first component
    let me = hcore::peer(1);
    let foreign = hcore::peer(9);
    let obs_ip = ipv[0].clone();
    let al = alphabet(&obs_ip, &ipv[1], me, foreign);
    let small = &al[..7];
    let obs = build(&[obs_ip.clone(), Protocol::Tcp(7)]);
    let maxlen = if args.thorough { 4 } else { 3 };
    let mut words: Vec<Vec<usize>> = vec![vec![]];
    let mut frontier: Vec<Vec<usize>> = vec![vec![]];
    for _ in 0..maxlen {
        let mut next = vec![];
        for w in &frontier {
            for k in 0..small.len() {
                let mut w2 = w.clone();
                w2.push(k);
                next.push(w2);
            }
        }
        words.extend(next.iter().cloned());
        frontier = next;
    }
    if args.count == 0 {
        for w in &words {
            let a = build(&w.iter().map(|&k| small[k].clone()).collect::<Vec<_>>());
            out.case(idx, &format!("enum1 nt={}", (!w.is_empty()) as u8));
            do_filter(out, me, &obs, vec![a]);
            out.end();
            idx += 1;
        }
        // pairs of short addresses (dedup interplay): all ordered pairs of the ≤2-component words
        let short: Vec<&Vec<usize>> = words.iter().filter(|w| w.len() <= 2).collect();
        for w1 in &short {
            for w2 in &short {
                let a = build(&w1.iter().map(|&k| small[k].clone()).collect::<Vec<_>>());
                let b = build(&w2.iter().map(|&k| small[k].clone()).collect::<Vec<_>>());
                out.case(idx, "enum2 nt=1");
                do_filter(out, me, &obs, vec![a, b]);
                out.end();
                idx += 1;
            }
        }
    }

    // (2) random lists against random observed addresses
    let n = args.n(3000, 150_000);
    for i in 0..n {
        let mut rng = Rng::for_case(args.seed, i);
        let me = hcore::peer(1 + rng.below(3) as u8);
        let obs_ip = rng.pick(&ipv).clone();
        let other_ip = loop {
            let o = rng.pick(&ipv).clone();
            if o != obs_ip {
                break o;
            }
        };
        let al = alphabet(&obs_ip, &other_ip, me, foreign);
        let obs = match rng.below(8) {
            0 => build(&[Protocol::Memory(3)]),
            1 => build(&[Protocol::Dns("example.com".into()), Protocol::Tcp(1)]),
            2 => build(&[Protocol::Dns("example.com".into()), obs_ip.clone(), Protocol::Tcp(1), other_ip.clone()]),
            3 => build(&[obs_ip.clone(), Protocol::Udp(1), Protocol::QuicV1, Protocol::P2p(me)]),
            4 => Multiaddr::empty(),
            _ => build(&[obs_ip.clone(), Protocol::Tcp(rng.range(1, 65535) as u16)]),
        };
        let demanded = gen_list(&mut rng, &al, me);
        let nt = !demanded.is_empty() && obs.iter().any(|p| matches!(p, Protocol::Ip4(_) | Protocol::Ip6(_)));
        out.case(idx, &format!("filter nt={}", nt as u8));
        do_filter(out, me, &obs, demanded);
        out.end();
        idx += 1;
    }

    // (4) op histories on a real Behaviour (life cycle of `ongoing_inbound`, throttling over time)
    let n = args.n(1500, 30_000);
    for i in 0..n {
        let mut rng = Rng::for_case(args.seed ^ 0x5E0, i);
        crate::c50_seq::gen_case(&mut rng, out, 1_000_000 + i, args.thorough);
    }

    // (3) resolve_inbound_request on generated server states
    let n = args.n(3000, 150_000);
    for i in 0..n {
        let mut rng = Rng::for_case(args.seed ^ 0x5050, i);
        let c = gen_resolve(&mut rng);
        let nt = c.conns.is_some() && !c.demanded.is_empty();
        out.case(idx, &format!("resolve nt={} og={} close={}", nt as u8, c.only_global as u8, c.close));
        do_resolve(out, &c);
        out.end();
        idx += 1;
    }
}

fn peer_of(tok: &str) -> PeerId {
    PeerId::from_bytes(&hcore::unhex(tok)).unwrap()
}

fn list_of(tok: &str) -> Vec<Multiaddr> {
    if tok == "~" {
        vec![]
    } else {
        tok.split(';').map(parse_tok).collect()
    }
}

fn replay_op(out: &mut Out, op: &[String]) {
    match op[0].as_str() {
        "filter" => do_filter(out, peer_of(&op[1]), &parse_tok(&op[2]), list_of(&op[3])),
        "resolve" => {
            // the stored observations are reproduced exactly by connecting with `only_global_ips = false`
            // from the stored address (hidden ones from a relayed address); the order of a ≥2-entry
            // HashMap is not reproducible, so the op line is re-read from the real map again.
            let conns = match op[6].as_str() {
                "!" => None,
                "~" => Some(vec![]),
                t => Some(
                    t.split(';')
                        .map(|c| {
                            if c == "none" {
                                build(&[ip4(1, 2, 3, 4), Protocol::Tcp(1), Protocol::P2p(hcore::peer(9)), Protocol::P2pCircuit])
                            } else {
                                parse_tok(c)
                            }
                        })
                        .collect::<Vec<_>>(),
                ),
            };
            // (`~`, an empty connection map, is not reachable through consistent swarm events)
            let close = 0;
            let thr = if op[5] == "-" {
                vec![]
            } else {
                op[5]
                    .split(',')
                    .map(|e| {
                        let (p, a) = e.split_once('@').unwrap();
                        (peer_of(p), a.parse().unwrap())
                    })
                    .collect()
            };
            let c = ResolveCase {
                max_addrs: op[1].parse().unwrap(),
                gmax: op[2].parse().unwrap(),
                pmax: op[3].parse().unwrap(),
                period: op[4].parse().unwrap(),
                thr,
                conns,
                only_global: false,
                close,
                sender: peer_of(&op[7]),
                reqpeer: peer_of(&op[8]),
                demanded: list_of(&op[9]),
            };
            do_resolve(out, &c);
        }
        other => panic!("replay: unknown op {other}"),
    }
}

/// inverse of `maddr_tok` for the components this harness generates (replay only)
fn parse_tok(tok: &str) -> Multiaddr {
    let mut a = Multiaddr::empty();
    if tok == "-" {
        return a;
    }
    for c in tok.split('/') {
        let mut it = c.splitn(2, ':');
        let name = it.next().unwrap();
        let v = it.next().unwrap_or("");
        let s = |v: &str| String::from_utf8(hcore::unhex(v)).unwrap();
        a.push(match name {
            "ip4" => Protocol::Ip4(v.parse::<u32>().unwrap().into()),
            "ip6" => Protocol::Ip6(v.parse::<u128>().unwrap().into()),
            "dns" => Protocol::Dns(s(v).into()),
            "dns4" => Protocol::Dns4(s(v).into()),
            "dns6" => Protocol::Dns6(s(v).into()),
            "dnsaddr" => Protocol::Dnsaddr(s(v).into()),
            "tcp" => Protocol::Tcp(v.parse().unwrap()),
            "udp" => Protocol::Udp(v.parse().unwrap()),
            "p2p" => Protocol::P2p(PeerId::from_bytes(&hcore::unhex(v)).unwrap()),
            "quic" => Protocol::Quic,
            "quic-v1" => Protocol::QuicV1,
            "p2p-circuit" => Protocol::P2pCircuit,
            "ws" => Protocol::Ws("/".into()),
            "wss" => Protocol::Wss("/".into()),
            "tls" => Protocol::Tls,
            "webtransport" => Protocol::WebTransport,
            "webrtc-direct" => Protocol::WebRTCDirect,
            "memory" => Protocol::Memory(v.parse().unwrap()),
            "ip6zone" => Protocol::Ip6zone(s(v).into()),
            other => panic!("replay: unsupported component {other}"),
        });
    }
    a
}
