//! Harness binary `h_autonat <PROP> --seed S --tier T [--count N] [--replay F]`.
//! One module per property (`cNN.rs`, `pub fn run(args: &hcore::Args, out: &mut hcore::Out)`).

mod c50;

hcore::install_clock!();

fn main() {
    let args = hcore::Args::parse();
    hcore::quiet_panics();
    let mut out = hcore::Out::new();
    match args.prop.as_str() {
        "C50" => c50::run(&args, &mut out),
        p => {
            let _ = &mut out;
            eprintln!("h_autonat: unknown property {p}");
            std::process::exit(2);
        }
    }
    #[allow(unreachable_code)]
    out.flush();
}
