//! Harness binary `h_autonat <PROP> --seed S --tier T [--count N] [--replay F]`.
//! One module per property (`cNN.rs`, `pub fn run(args: &hcore::Args, out: &mut hcore::Out)`).

mod c50;
mod c50_seq;

// Frozen monotonic clock: `Instant::now()` = (real time at first use) + `hcore::warp` offset, so
// the only way time passes for the code under test is an explicit `hcore::warp` — every throttle
// comparison in the AutoNAT server is exact and reproducible (no dependence on machine load).
extern "C" {
    fn __clock_gettime(clk: i32, ts: *mut [i64; 2]) -> i32;
}
static BASE_SET: std::sync::atomic::AtomicBool = std::sync::atomic::AtomicBool::new(false);
static BASE_S: std::sync::atomic::AtomicI64 = std::sync::atomic::AtomicI64::new(0);
static BASE_NS: std::sync::atomic::AtomicI64 = std::sync::atomic::AtomicI64::new(0);

#[no_mangle]
pub unsafe extern "C" fn clock_gettime(clk: i32, ts: *mut [i64; 2]) -> i32 {
    use std::sync::atomic::Ordering::SeqCst;
    let r = __clock_gettime(clk, ts);
    if r == 0 && clk == 1 {
        let t = &mut *ts;
        if !BASE_SET.load(SeqCst) {
            BASE_S.store(t[0], SeqCst);
            BASE_NS.store(t[1], SeqCst);
            BASE_SET.store(true, SeqCst);
        }
        let off = hcore::CLOCK_OFFSET_NS.load(SeqCst) as i64;
        let total = BASE_NS.load(SeqCst) + off % 1_000_000_000;
        t[0] = BASE_S.load(SeqCst) + off / 1_000_000_000 + total / 1_000_000_000;
        t[1] = total % 1_000_000_000;
    }
    r
}

fn main() {
    let args = hcore::Args::parse();
    hcore::quiet_panics();
    let mut out = hcore::Out::new();
    match args.prop.as_str() {
        "C50" => c50::run(&args, &mut out),
        p => {
            let _ = &mut out;
            eprintln!("h_autonat: unknown property {p}");
            std::process::exit(2);
        }
    }
    #[allow(unreachable_code)]
    out.flush();
}
