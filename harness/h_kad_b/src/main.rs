//! Harness binary `h_kad_b <PROP> --seed S --tier T [--count N] [--replay F]`.
//! One module per property (`cNN.rs`, `pub fn run(args: &hcore::Args, out: &mut hcore::Out)`).

mod c39;
mod c41;

fn main() {
    let args = hcore::Args::parse();
    hcore::quiet_panics();
    let mut out = hcore::Out::new();
    match args.prop.as_str() {
        "C39" => c39::run(&args, &mut out),
        "C41" => c41::run(&args, &mut out),
        p => {
            let _ = &mut out;
            eprintln!("h_kad_b: unknown property {p}");
            std::process::exit(2);
        }
    }
    #[allow(unreachable_code)]
    out.flush();
}
