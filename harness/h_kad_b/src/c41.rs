//! C41 — `MemoryStore` (public `RecordStore` API) vs the Lean model `C41.step`.
//!
//! Every `impl` line is `<result> <records()> <providers(k) for all keys> <provided()>`: the result of
//! the call followed by the complete observable state (sorted where the store is unordered).
use std::collections::HashMap;
use std::time::{Duration, Instant};

use hcore::{Args, Multiaddr, Out, Protocol, Rng};
use libp2p_core::PeerId;
use libp2p_kad::store::{Error, MemoryStore, MemoryStoreConfig, RecordStore};
use libp2p_kad::{ProviderRecord, Record, RecordKey};

const NKEYS: usize = 12;
const NPEERS: usize = 6;

struct World {
    keys: Vec<RecordKey>,
    key_idx: HashMap<Vec<u8>, usize>,
    peers: Vec<PeerId>,
    peer_idx: HashMap<PeerId, usize>,
    base: Instant,
}

impl World {
    fn new() -> World {
        let mut raw: Vec<Vec<u8>> = vec![
            vec![],
            vec![0],
            vec![1],
            b"a".to_vec(),
            b"ab".to_vec(),
            vec![0xff; 32],
            vec![0x12, 0x20, 1, 2, 3],
            b"/pk/some-long-key-with-a-path/and/more".to_vec(),
            vec![0, 0],
            vec![0x80],
            b"b".to_vec(),
            vec![7; 100],
        ];
        raw.truncate(NKEYS);
        let keys: Vec<RecordKey> = raw.iter().map(|b| RecordKey::from(b.clone())).collect();
        let key_idx = raw.iter().cloned().enumerate().map(|(i, b)| (b, i)).collect();
        let peers: Vec<PeerId> = (0..NPEERS as u8).map(hcore::peer).collect();
        let peer_idx = peers.iter().cloned().enumerate().map(|(i, p)| (p, i)).collect();
        World { keys, key_idx, peers, peer_idx, base: Instant::now() + Duration::from_secs(1000) }
    }
    fn kidx(&self, k: &RecordKey) -> usize {
        self.key_idx.get(&k.to_vec()).copied().unwrap_or(999)
    }
    fn pidx(&self, p: &PeerId) -> usize {
        self.peer_idx.get(p).copied().unwrap_or(999)
    }
    fn exp_tok(&self, e: &Option<Instant>) -> String {
        match e {
            None => "n".into(),
            Some(t) => t.duration_since(self.base).as_secs().to_string(),
        }
    }
    fn rec_tok(&self, r: &Record) -> String {
        format!(
            "{}:{}:{}:{}",
            self.kidx(&r.key),
            hcore::hex(&r.value),
            r.publisher.as_ref().map_or("n".into(), |p| self.pidx(p).to_string()),
            self.exp_tok(&r.expires)
        )
    }
    fn prec_tok(&self, r: &ProviderRecord) -> String {
        let addrs: Vec<String> = r
            .addresses
            .iter()
            .map(|a| match a.iter().next() {
                Some(Protocol::Memory(n)) => n.to_string(),
                _ => "999".into(),
            })
            .collect();
        format!(
            "{}:{}:{}:{}",
            self.kidx(&r.key),
            self.pidx(&r.provider),
            self.exp_tok(&r.expires),
            if addrs.is_empty() { "~".into() } else { addrs.join("+") }
        )
    }
    fn opt(&self, s: &str) -> Option<u64> {
        if s == "n" {
            None
        } else {
            Some(s.parse().unwrap())
        }
    }
    fn parse_rec(&self, tok: &str) -> Record {
        let f: Vec<&str> = tok.split(':').collect();
        Record {
            key: self.keys[f[0].parse::<usize>().unwrap()].clone(),
            value: hcore::unhex(f[1]),
            publisher: self.opt(f[2]).map(|p| self.peers[p as usize]),
            expires: self.opt(f[3]).map(|s| self.base + Duration::from_secs(s)),
        }
    }
    fn parse_prec(&self, tok: &str) -> ProviderRecord {
        let f: Vec<&str> = tok.split(':').collect();
        let addresses: Vec<Multiaddr> = if f[3] == "~" {
            vec![]
        } else {
            f[3].split('+')
                .map(|a| {
                    let mut m = Multiaddr::empty();
                    m.push(Protocol::Memory(a.parse().unwrap()));
                    m
                })
                .collect()
        };
        ProviderRecord {
            key: self.keys[f[0].parse::<usize>().unwrap()].clone(),
            provider: self.peers[f[1].parse::<usize>().unwrap()],
            expires: self.opt(f[2]).map(|s| self.base + Duration::from_secs(s)),
            addresses,
        }
    }
    fn snapshot(&self, st: &MemoryStore) -> String {
        let mut recs: Vec<(usize, String)> = st.records().map(|r| (self.kidx(&r.key), self.rec_tok(&r))).collect();
        recs.sort();
        let recs: Vec<String> = recs.into_iter().map(|x| x.1).collect();
        let mut provs: Vec<String> = vec![];
        for k in &self.keys {
            for p in st.providers(k) {
                provs.push(self.prec_tok(&p));
            }
        }
        let mut provided: Vec<(usize, usize, String)> =
            st.provided().map(|r| (self.kidx(&r.key), self.pidx(&r.provider), self.prec_tok(&r))).collect();
        provided.sort();
        let provided: Vec<String> = provided.into_iter().map(|x| x.2).collect();
        format!("{} {} {}", hcore::list(&recs), hcore::list(&provs), hcore::list(&provided))
    }
}

#[derive(Clone, Copy, Debug)]
struct Cfg {
    loc: usize,
    mr: usize,
    mv: usize,
    mp: usize,
    mk: usize,
}

impl Cfg {
    fn toks(&self) -> String {
        format!("loc={} mr={} mv={} mp={} mk={}", self.loc, self.mr, self.mv, self.mp, self.mk)
    }
    fn from_header(h: &[String]) -> Cfg {
        let get = |n: &str| -> usize {
            h.iter()
                .find_map(|t| t.strip_prefix(&format!("{n}=")).map(|v| v.parse().unwrap()))
                .unwrap_or(0)
        };
        Cfg { loc: get("loc"), mr: get("mr"), mv: get("mv"), mp: get("mp"), mk: get("mk") }
    }
}

fn err_tok(e: &Error) -> &'static str {
    match e {
        Error::MaxRecords => "err:MaxRecords",
        Error::MaxProvidedKeys => "err:MaxProvidedKeys",
        Error::ValueTooLarge => "err:ValueTooLarge",
    }
}

/// run one case: the op token lists against a fresh store
fn run_case(w: &World, out: &mut Out, idx: u64, class: &str, nt: bool, cfg: Cfg, ops: &[Vec<String>]) {
    out.case(idx, &format!("{class} nt={} {}", nt as u8, cfg.toks()));
    let mut st = MemoryStore::with_config(
        w.peers[cfg.loc],
        MemoryStoreConfig {
            max_records: cfg.mr,
            max_value_bytes: cfg.mv,
            max_providers_per_key: cfg.mp,
            max_provided_keys: cfg.mk,
        },
    );
    for op in ops {
        out.op(&op.join(" "));
        let r = hcore::guarded(|| -> String {
            let t: Vec<&str> = op.iter().map(|s| s.as_str()).collect();
            match t.as_slice() {
                ["get", k] => match st.get(&w.keys[k.parse::<usize>().unwrap()]) {
                    None => "none".into(),
                    Some(r) => format!("some={}", w.rec_tok(&r)),
                },
                ["put", r] => match st.put(w.parse_rec(r)) {
                    Ok(()) => "ok".into(),
                    Err(e) => err_tok(&e).into(),
                },
                ["remove", k] => {
                    st.remove(&w.keys[k.parse::<usize>().unwrap()]);
                    "unit".into()
                }
                ["retain", "maxlen", n] => {
                    let n: usize = n.parse().unwrap();
                    st.retain(|_, r| r.value.len() <= n);
                    "unit".into()
                }
                ["retain", "keymod", m, x] => {
                    let (m, x): (usize, usize) = (m.parse().unwrap(), x.parse().unwrap());
                    st.retain(|k, _| w.kidx(k) % m == x);
                    "unit".into()
                }
                ["retain", "haspub"] => {
                    st.retain(|_, r| r.publisher.is_some());
                    "unit".into()
                }
                ["addp", r] => match st.add_provider(w.parse_prec(r)) {
                    Ok(()) => "ok".into(),
                    Err(e) => err_tok(&e).into(),
                },
                ["rmp", k, p] => {
                    st.remove_provider(&w.keys[k.parse::<usize>().unwrap()], &w.peers[p.parse::<usize>().unwrap()]);
                    "unit".into()
                }
                _ => "bad-op".into(),
            }
        });
        match r {
            Ok(res) => {
                let snap = hcore::guarded(|| w.snapshot(&st)).unwrap_or_else(|m| format!("panic {m}"));
                out.imp(&format!("{res} {snap}"));
            }
            Err(m) => out.imp(&format!("panic {m}")),
        }
    }
    out.end();
}

fn opt_tok(rng: &mut Rng, hi: u64) -> String {
    if rng.chance(1, 3) {
        "n".into()
    } else {
        rng.below(hi).to_string()
    }
}

/// a random op; `nk` keys and `np` peers are in play
fn gen_op(rng: &mut Rng, cfg: &Cfg, nk: usize, np: usize, prov_weight: u64) -> Vec<String> {
    let s = |x: &str| x.to_string();
    let k = rng.usize(nk);
    let roll = rng.below(100);
    let rec_share = 100 - prov_weight; // share of record ops
    if roll < rec_share * 45 / 100 {
        // put: value length around the limit
        let len = match rng.below(6) {
            0 => cfg.mv,
            1 => cfg.mv.saturating_sub(1),
            2 => cfg.mv + 1,
            3 => 0,
            _ => rng.usize(cfg.mv.min(12) + 2),
        };
        let val = rng.bytes(len.min(40));
        let publisher = if rng.chance(1, 2) { "n".into() } else { rng.usize(NPEERS).to_string() };
        vec![s("put"), format!("{}:{}:{}:{}", k, hcore::hex(&val), publisher, opt_tok(rng, 100))]
    } else if roll < rec_share * 70 / 100 {
        vec![s("get"), k.to_string()]
    } else if roll < rec_share * 92 / 100 {
        vec![s("remove"), k.to_string()]
    } else if roll < rec_share {
        match rng.below(3) {
            0 => vec![s("retain"), s("maxlen"), rng.usize(cfg.mv.min(12) + 1).to_string()],
            1 => {
                let m = 2 + rng.usize(2);
                vec![s("retain"), s("keymod"), m.to_string(), rng.usize(m).to_string()]
            }
            _ => vec![s("retain"), s("haspub")],
        }
    } else if roll < rec_share + prov_weight * 65 / 100 {
        let p = if rng.chance(1, 3) { cfg.loc } else { rng.usize(np) };
        let n_addr = rng.usize(3);
        let addrs: Vec<String> = (0..n_addr).map(|_| rng.below(9).to_string()).collect();
        vec![
            s("addp"),
            format!("{}:{}:{}:{}", k, p, opt_tok(rng, 100), if addrs.is_empty() { s("~") } else { addrs.join("+") }),
        ]
    } else {
        let p = if rng.chance(1, 3) { cfg.loc } else { rng.usize(np) };
        vec![s("rmp"), k.to_string(), p.to_string()]
    }
}

/// the small op alphabet of the bounded-exhaustive enumeration
fn alphabet(cfg: &Cfg) -> Vec<Vec<String>> {
    let s = |x: &str| x.to_string();
    let other = (cfg.loc + 1) % NPEERS;
    let mut a = vec![];
    for k in 0..2usize {
        a.push(vec![s("put"), format!("{k}:aa:n:n")]);
        a.push(vec![s("put"), format!("{k}:bbbb:1:5")]);
        a.push(vec![s("get"), k.to_string()]);
        a.push(vec![s("remove"), k.to_string()]);
        for p in [cfg.loc, other] {
            a.push(vec![s("addp"), format!("{k}:{p}:n:~")]);
            a.push(vec![s("rmp"), k.to_string(), p.to_string()]);
        }
        a.push(vec![s("addp"), format!("{k}:{}:7:3", cfg.loc)]);
    }
    a.push(vec![s("put"), s("2:-:n:n")]);
    a.push(vec![s("addp"), format!("2:{}:n:1+2", (cfg.loc + 2) % NPEERS)]);
    a.push(vec![s("retain"), s("maxlen"), s("1")]);
    a
}

pub fn run(args: &Args, out: &mut Out) {
    let w = World::new();
    if let Some(cases) = args.replay_cases() {
        for (i, (h, ops)) in cases.iter().enumerate() {
            let cfg = Cfg::from_header(h);
            run_case(&w, out, i as u64, "replay", true, cfg, ops);
        }
        return;
    }
    let mut idx = 0u64;
    // bounded-exhaustive: every op sequence of length L over the small alphabet, two configurations
    let depth = if args.thorough { 3 } else { 2 };
    if args.count == 0 {
        for cfg in [Cfg { loc: 0, mr: 1, mv: 2, mp: 1, mk: 1 }, Cfg { loc: 1, mr: 2, mv: 3, mp: 2, mk: 2 }] {
            let al = alphabet(&cfg);
            let n = al.len();
            let total = n.pow(depth as u32);
            for code in 0..total {
                let mut c = code;
                let mut ops = vec![];
                for _ in 0..depth {
                    ops.push(al[c % n].clone());
                    c /= n;
                }
                run_case(&w, out, idx, "exhaustive", true, cfg, &ops);
                idx += 1;
            }
        }
    }
    let n = args.n(1500, 60_000);
    for i in 0..n {
        let mut rng = Rng::for_case(args.seed, i);
        let class = rng.below(5);
        let (name, cfg, nk, np, len, pw): (&str, Cfg, usize, usize, usize, u64) = match class {
            0 => {
                let cfg = Cfg {
                    loc: rng.usize(NPEERS),
                    mr: rng.usize(5),
                    mv: rng.usize(11),
                    mp: rng.usize(4),
                    mk: rng.usize(5),
                };
                ("tiny", cfg, 2 + rng.usize(5), 2 + rng.usize(NPEERS - 1), rng.usize(60), 45)
            }
            1 => {
                let cfg = Cfg { loc: rng.usize(NPEERS), mr: 3, mv: 8, mp: 2, mk: 3 };
                ("design", cfg, NKEYS, NPEERS, if args.thorough { 50 + rng.usize(450) } else { 20 + rng.usize(100) }, 45)
            }
            2 => {
                let cfg = Cfg { loc: rng.usize(NPEERS), mr: 1024, mv: 65 * 1024, mp: 20, mk: 1024 };
                ("default", cfg, NKEYS, NPEERS, 10 + rng.usize(50), 50)
            }
            3 => {
                let cfg = Cfg { loc: rng.usize(3), mr: 2, mv: 4, mp: 1 + rng.usize(3), mk: 1 + rng.usize(3) };
                ("providers", cfg, 1 + rng.usize(4), 1 + rng.usize(NPEERS), 5 + rng.usize(80), 90)
            }
            _ => {
                let cfg = Cfg { loc: rng.usize(NPEERS), mr: 1 + rng.usize(4), mv: 1 + rng.usize(6), mp: 1, mk: 1 };
                ("records", cfg, 1 + rng.usize(6), 2, 5 + rng.usize(80), 8)
            }
        };
        let ops: Vec<Vec<String>> = (0..len).map(|_| gen_op(&mut rng, &cfg, nk, np, pw)).collect();
        run_case(&w, out, idx, name, ops.len() >= 3, cfg, &ops);
        idx += 1;
    }
}
