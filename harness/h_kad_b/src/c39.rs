//! C39 — the peer iterators (`ClosestPeersIter`, `FixedPeersIter`, `ClosestDisjointPeersIter`, reached
//! through the `cfg(libp2p_verif)` wrappers in `libp2p_kad::verif_c39`) vs the Lean models.
//!
//! Peers are named by the rank of their distance to the target within the case's universe, so the
//! model never needs the XOR metric.  Time is an explicit argument: `now = base + <ms>`.
use std::collections::HashMap;
use std::num::NonZeroUsize;
use std::time::{Duration, Instant};

use hcore::{Args, Out, Rng};
use libp2p_core::PeerId;
use libp2p_kad::verif_c39::{Closest, Disjoint, Fixed, St};
use libp2p_kad::KBucketKey;

/// the peer universe of one case: `n` peers sorted by distance to the target
struct Universe {
    peers: Vec<PeerId>,
    rank: HashMap<PeerId, usize>,
    target: PeerId,
    base: Instant,
}

impl Universe {
    fn new(n: usize, salt: u8) -> Universe {
        let target = hcore::peer(salt.wrapping_mul(7).wrapping_add(200));
        let tk = KBucketKey::from(target);
        let mut peers: Vec<PeerId> = (0..=n as u8).map(|i| hcore::peer(i.wrapping_add(salt))).filter(|p| *p != target).collect();
        peers.truncate(n);
        peers.sort_by_key(|p| KBucketKey::from(*p).distance(&tk));
        let rank = peers.iter().cloned().enumerate().map(|(i, p)| (p, i)).collect();
        Universe { peers, rank, target, base: Instant::now() + Duration::from_secs(3600) }
    }
    fn r(&self, p: &PeerId) -> usize {
        self.rank.get(p).copied().unwrap_or(9999)
    }
    fn ranks(&self, ps: &[PeerId]) -> Vec<usize> {
        ps.iter().map(|p| self.r(p)).collect()
    }
    fn ps(&self, ranks: &[usize]) -> Vec<PeerId> {
        ranks.iter().map(|r| self.peers[*r]).collect()
    }
    fn at(&self, ms: u64) -> Instant {
        self.base + Duration::from_millis(ms)
    }
    fn st(&self, s: &St) -> String {
        match s {
            St::Waiting(Some(p)) => format!("W:{}", self.r(p)),
            St::Waiting(None) => "W:none".into(),
            St::WaitingAtCapacity => "CAP".into(),
            St::Finished => "FIN".into(),
        }
    }
}

#[derive(Clone, Debug)]
struct Cfg {
    kind: String,
    par: usize,
    nr: usize,
    to: u64,
    n: usize,
    salt: u8,
    known: Vec<usize>,
}

impl Cfg {
    fn toks(&self) -> String {
        if self.kind == "fixed" {
            format!("kind=fixed par={} n={} salt={} peers={}", self.par, self.n, self.salt, hcore::list(&self.known))
        } else {
            format!(
                "kind={} par={} nr={} to={} k={} n={} salt={} known={}",
                self.kind,
                self.par,
                self.nr,
                self.to,
                libp2p_kad::K_VALUE.get(),
                self.n,
                self.salt,
                hcore::list(&self.known)
            )
        }
    }
    fn from_header(h: &[String]) -> Cfg {
        let get = |n: &str| -> Option<String> { h.iter().find_map(|t| t.strip_prefix(&format!("{n}=")).map(|v| v.to_string())) };
        let num = |n: &str| -> u64 { get(n).and_then(|v| v.parse().ok()).unwrap_or(0) };
        let kind = get("kind").unwrap_or_default();
        let lst = get(if kind == "fixed" { "peers" } else { "known" }).unwrap_or("-".into());
        Cfg {
            kind,
            par: num("par") as usize,
            nr: num("nr") as usize,
            to: num("to"),
            n: num("n") as usize,
            salt: num("salt") as u8,
            known: parse_list(&lst),
        }
    }
}

fn parse_list(s: &str) -> Vec<usize> {
    if s == "-" {
        vec![]
    } else {
        s.split(',').map(|x| x.parse().unwrap()).collect()
    }
}

enum It {
    Closest(Closest),
    Fixed(Option<Fixed>),
    Disjoint(Option<Disjoint>),
}

/// the real iterator of one case; `apply` executes one op and prints the op/impl pair
struct Exec<'a> {
    u: Universe,
    it: It,
    out: &'a mut Out,
    /// what the last `next` returned (for the generators)
    last: Option<St>,
    last_bool: bool,
}

fn nz(x: usize) -> NonZeroUsize {
    NonZeroUsize::new(x.max(1)).unwrap()
}

impl<'a> Exec<'a> {
    fn start(out: &'a mut Out, idx: u64, class: &str, nt: bool, cfg: &Cfg) -> Exec<'a> {
        // the universe has n peers unless the target collides with one of them
        let u = Universe::new(cfg.n, cfg.salt);
        let mut cfg = cfg.clone();
        cfg.n = cfg.n.min(u.peers.len());
        cfg.known.retain(|r| *r < u.peers.len());
        out.case(idx, &format!("{class} nt={} {}", nt as u8, cfg.toks()));
        let known = u.ps(&cfg.known);
        let it = match cfg.kind.as_str() {
            "closest" => It::Closest(Closest::with_config(nz(cfg.par), nz(cfg.nr), Duration::from_millis(cfg.to), u.target, known)),
            "fixed" => It::Fixed(Some(Fixed::new(known, nz(cfg.par)))),
            _ => It::Disjoint(Some(Disjoint::with_config(nz(cfg.par), nz(cfg.nr), Duration::from_millis(cfg.to), u.target, known))),
        };
        Exec { u, it, out, last: None, last_bool: false }
    }

    fn n(&self) -> usize {
        self.u.peers.len()
    }

    fn waiting(&self) -> Vec<usize> {
        match &self.it {
            It::Closest(c) => self.u.ranks(&c.waiting()),
            _ => vec![],
        }
    }

    fn finished(&self) -> bool {
        match &self.it {
            It::Closest(c) => c.is_finished(),
            It::Fixed(Some(f)) => f.is_finished(),
            It::Disjoint(Some(d)) => d.is_finished(),
            _ => true,
        }
    }

    fn apply(&mut self, op: &[String]) {
        self.out.op(&op.join(" "));
        let t: Vec<&str> = op.iter().map(|s| s.as_str()).collect();
        let u = &self.u;
        let it = &mut self.it;
        let mut last: Option<St> = None;
        let mut last_bool = false;
        let r = hcore::guarded(|| -> String {
            let b = |x: bool| if x { "true".to_string() } else { "false".to_string() };
            let peer = |s: &str| -> PeerId { u.peers[s.parse::<usize>().unwrap()] };
            match it {
                It::Closest(c) => {
                    let res = match t.as_slice() {
                        ["next", now] => {
                            let s = c.next(u.at(now.parse().unwrap()));
                            let tok = u.st(&s);
                            last = Some(s);
                            tok
                        }
                        ["succ", p, cl] => {
                            last_bool = c.on_success(&peer(p), u.ps(&parse_list(cl)));
                            b(last_bool)
                        }
                        ["fail", p] => {
                            last_bool = c.on_failure(&peer(p));
                            b(last_bool)
                        }
                        ["finish"] => {
                            c.finish();
                            "unit".into()
                        }
                        _ => return "bad-op".into(),
                    };
                    let w = u.ranks(&c.waiting());
                    // `is_waiting` must agree with `waiting()`
                    for (i, p) in u.peers.iter().enumerate() {
                        if c.is_waiting(p) != w.contains(&i) {
                            return format!("is_waiting-disagrees-with-waiting:{i}");
                        }
                    }
                    format!(
                        "{res} {} {} {} {}",
                        c.num_waiting(),
                        hcore::list(&w),
                        c.is_finished() as u8,
                        hcore::list(&u.ranks(&c.result()))
                    )
                }
                It::Fixed(f) => {
                    if t.as_slice() == ["result"] {
                        let mut r = u.ranks(&f.take().unwrap().into_result());
                        r.sort();
                        return format!("res {}", hcore::list(&r));
                    }
                    let f = f.as_mut().unwrap();
                    let res = match t.as_slice() {
                        ["next"] => {
                            let s = f.next();
                            let tok = u.st(&s);
                            last = Some(s);
                            tok
                        }
                        ["succ", p] => {
                            last_bool = f.on_success(&peer(p));
                            b(last_bool)
                        }
                        ["fail", p] => {
                            last_bool = f.on_failure(&peer(p));
                            b(last_bool)
                        }
                        ["finish"] => {
                            f.finish();
                            "unit".into()
                        }
                        _ => return "bad-op".into(),
                    };
                    format!("{res} {}", f.is_finished() as u8)
                }
                It::Disjoint(d) => {
                    if t.as_slice() == ["result"] {
                        let r = u.ranks(&d.take().unwrap().into_result());
                        return format!("res {}", hcore::list(&r));
                    }
                    let d = d.as_mut().unwrap();
                    let res = match t.as_slice() {
                        ["next", now] => {
                            let s = d.next(u.at(now.parse().unwrap()));
                            let tok = u.st(&s);
                            last = Some(s);
                            tok
                        }
                        ["succ", p, cl] => {
                            last_bool = d.on_success(&peer(p), u.ps(&parse_list(cl)));
                            b(last_bool)
                        }
                        ["fail", p] => {
                            last_bool = d.on_failure(&peer(p));
                            b(last_bool)
                        }
                        ["finishpaths", ps] => b(d.finish_paths(&u.ps(&parse_list(ps)))),
                        ["finish"] => {
                            d.finish();
                            "unit".into()
                        }
                        _ => return "bad-op".into(),
                    };
                    format!("{res} {}", d.is_finished() as u8)
                }
            }
        });
        self.last = last;
        self.last_bool = last_bool;
        match r {
            Ok(s) => self.out.imp(&s),
            Err(m) => self.out.imp(&format!("panic {m}")),
        }
    }

    fn end(self) {
        self.out.end();
    }
}

fn s(x: &str) -> String {
    x.to_string()
}

fn op_next(now: u64) -> Vec<String> {
    vec![s("next"), now.to_string()]
}
fn op_succ(p: usize, closer: &[usize]) -> Vec<String> {
    vec![s("succ"), p.to_string(), hcore::list(closer)]
}
fn op_fail(p: usize) -> Vec<String> {
    vec![s("fail"), p.to_string()]
}

fn rand_cfg(rng: &mut Rng, kind: &str) -> Cfg {
    let n = 3 + rng.usize(28);
    let par = 1 + rng.usize(4);
    let nr = 1 + rng.usize(5);
    let to = *rng.pick(&[0u64, 1, 5, 10, 10, 100]);
    let nknown = match rng.below(6) {
        0 => 0,
        1 => 1,
        2 => 21 + rng.usize(5),
        _ => 1 + rng.usize(n.min(8)),
    };
    let known: Vec<usize> = (0..nknown).map(|_| rng.usize(n)).collect();
    Cfg { kind: kind.into(), par, nr, to, n, salt: rng.below(150) as u8, known }
}

/// an adversarial `closer_peers` list: duplicates, the responder itself, far and near peers
fn rand_closer(rng: &mut Rng, n: usize, me: usize) -> Vec<usize> {
    let len = match rng.below(5) {
        0 => 0,
        1 => 1,
        _ => rng.usize(7),
    };
    let mut v: Vec<usize> = (0..len)
        .map(|_| match rng.below(6) {
            0 => me,
            1 => rng.usize(n.min(3)),
            _ => rng.usize(n),
        })
        .collect();
    if rng.chance(1, 4) && !v.is_empty() {
        let d = v[0];
        v.push(d);
    }
    v
}

/// random simulation of a lookup against the closest / disjoint iterator
fn random_lookup(out: &mut Out, idx: u64, rng: &mut Rng, kind: &str) {
    let cfg = rand_cfg(rng, kind);
    let mut ex = Exec::start(out, idx, &format!("{kind}-random"), true, &cfg);
    let n = ex.n();
    if n == 0 {
        ex.end();
        return;
    }
    let mut now: u64 = rng.below(3);
    let mut issued: Vec<usize> = vec![];
    let mut resolved: Vec<usize> = vec![];
    let steps = 10 + rng.usize(150);
    let mut after_finish = 0;
    for _ in 0..steps {
        if ex.finished() {
            after_finish += 1;
            if after_finish > 4 {
                break;
            }
        }
        let roll = rng.below(100);
        let pending: Vec<usize> = issued.iter().cloned().filter(|p| !resolved.contains(p)).collect();
        if roll < 45 || pending.is_empty() && roll < 80 {
            // advance the clock sometimes (occasionally backwards: `now` is just an argument)
            match rng.below(10) {
                0 => now += cfg.to,
                1 => now += cfg.to + 1,
                2 => now += 1,
                3 => now = now.saturating_sub(1),
                _ => {}
            }
            ex.apply(&op_next(now));
            if let Some(St::Waiting(Some(p))) = &ex.last {
                let r = ex.u.r(p);
                issued.push(r);
            }
        } else if roll < 75 {
            let p = if !pending.is_empty() && rng.chance(5, 6) { *rng.pick(&pending) } else { rng.usize(n) };
            let closer = rand_closer(rng, n, p);
            ex.apply(&op_succ(p, &closer));
            if ex.last_bool {
                resolved.push(p);
            }
        } else if roll < 92 {
            let p = if !pending.is_empty() && rng.chance(5, 6) { *rng.pick(&pending) } else { rng.usize(n) };
            ex.apply(&op_fail(p));
            if ex.last_bool {
                resolved.push(p);
            }
        } else if roll < 95 && kind == "disjoint" {
            let k = rng.usize(3);
            let ps: Vec<usize> = (0..k).map(|_| if !issued.is_empty() && rng.bool() { *rng.pick(&issued) } else { rng.usize(n) }).collect();
            ex.apply(&[s("finishpaths"), hcore::list(&ps)]);
        } else if roll < 97 {
            ex.apply(&[s("finish")]);
        } else {
            now += cfg.to;
            ex.apply(&op_next(now));
            if let Some(St::Waiting(Some(p))) = &ex.last {
                let r = ex.u.r(p);
                issued.push(r);
            }
        }
    }
    if kind == "disjoint" {
        ex.apply(&[s("result")]);
    }
    ex.end();
}

/// a well-behaved driver: call `next` until it stops yielding peers, then resolve one request
fn driven_lookup(out: &mut Out, idx: u64, rng: &mut Rng, kind: &str) {
    let cfg = rand_cfg(rng, kind);
    let mut ex = Exec::start(out, idx, &format!("{kind}-driven"), true, &cfg);
    let n = ex.n();
    // a fixed peer graph: closer[p] is what p answers
    let graph: Vec<Vec<usize>> = (0..n).map(|p| rand_closer(rng, n.max(1), p)).collect();
    let fail_pct = rng.below(60);
    let timeout_pct = rng.below(40);
    let mut now = 0u64;
    let mut pending: Vec<usize> = vec![];
    for _ in 0..400 {
        ex.apply(&op_next(now));
        match ex.last.clone() {
            Some(St::Waiting(Some(p))) => {
                let r = ex.u.r(&p);
                pending.push(r);
            }
            Some(St::Finished) => break,
            _ => {
                if pending.is_empty() {
                    // nothing in flight from our point of view: let time pass
                    now += cfg.to + 1;
                    continue;
                }
                let i = rng.usize(pending.len());
                let p = pending.remove(i);
                let roll = rng.below(100);
                if roll < timeout_pct {
                    now += cfg.to;
                    // the response may still arrive later
                    if rng.bool() {
                        pending.push(p);
                    }
                } else if roll < timeout_pct + fail_pct {
                    ex.apply(&op_fail(p));
                } else {
                    ex.apply(&op_succ(p, &graph[p]));
                }
            }
        }
    }
    if kind == "disjoint" {
        ex.apply(&[s("result")]);
    }
    ex.end();
}

fn fixed_case(out: &mut Out, idx: u64, rng: &mut Rng) {
    let n = 1 + rng.usize(12);
    let len = rng.usize(16);
    let peers: Vec<usize> = (0..len).map(|_| rng.usize(n)).collect();
    let cfg = Cfg { kind: s("fixed"), par: 1 + rng.usize(4), nr: 0, to: 0, n, salt: rng.below(150) as u8, known: peers };
    let mut ex = Exec::start(out, idx, "fixed-random", true, &cfg);
    let n = ex.n();
    let mut issued: Vec<usize> = vec![];
    let steps = 5 + rng.usize(60);
    for _ in 0..steps {
        let roll = rng.below(100);
        if roll < 50 || issued.is_empty() {
            ex.apply(&[s("next")]);
            if let Some(St::Waiting(Some(p))) = &ex.last {
                let r = ex.u.r(p);
                issued.push(r);
            }
        } else if roll < 75 {
            let p = if rng.chance(5, 6) { *rng.pick(&issued) } else { rng.usize(n.max(1)) };
            ex.apply(&[s("succ"), p.to_string()]);
        } else if roll < 96 {
            let p = if rng.chance(5, 6) { *rng.pick(&issued) } else { rng.usize(n.max(1)) };
            ex.apply(&[s("fail"), p.to_string()]);
        } else {
            ex.apply(&[s("finish")]);
        }
    }
    ex.apply(&[s("result")]);
    ex.end();
}

/// Bounded-exhaustive exploration: a fixed small graph; at every point where `next` does not yield a
/// peer, every choice of (waiting or timed-out peer × success/failure) and "let the timeout pass" is
/// explored (depth-first, one emitted case per complete path).
fn exhaustive(out: &mut Out, idx: &mut u64, kind: &str, cfg: &Cfg, graph: &[Vec<usize>], max_cases: u64) {
    let mut path: Vec<(usize, usize)> = vec![];
    let mut emitted = 0u64;
    loop {
        let mut ex = Exec::start(out, *idx, &format!("{kind}-exhaustive"), true, cfg);
        *idx += 1;
        emitted += 1;
        let mut depth = 0usize;
        let mut now = 0u64;
        let mut pending: Vec<usize> = vec![]; // issued, no response delivered yet
        let mut guard = 0;
        loop {
            guard += 1;
            if guard > 200 {
                break;
            }
            ex.apply(&op_next(now));
            match ex.last.clone() {
                Some(St::Waiting(Some(p))) => {
                    let r = ex.u.r(&p);
                    pending.push(r);
                }
                Some(St::Finished) => break,
                _ => {
                    // options: success / failure for every pending peer, or let the timeout pass
                    let waiting_now = ex.waiting();
                    let can_timeout = kind == "disjoint" || !waiting_now.is_empty();
                    let nopt = pending.len() * 2 + can_timeout as usize;
                    if nopt == 0 {
                        break;
                    }
                    let choice = if depth < path.len() {
                        path[depth].0
                    } else {
                        path.push((0, nopt));
                        0
                    };
                    depth += 1;
                    if choice < pending.len() * 2 {
                        let p = pending.remove(choice / 2);
                        if choice % 2 == 0 {
                            ex.apply(&op_succ(p, &graph[p]));
                        } else {
                            ex.apply(&op_fail(p));
                        }
                    } else {
                        now += cfg.to;
                        if pending.is_empty() {
                            break;
                        }
                    }
                    if depth > 12 {
                        break;
                    }
                }
            }
        }
        if kind == "disjoint" {
            ex.apply(&[s("result")]);
        }
        ex.end();
        // backtrack
        path.truncate(depth);
        loop {
            match path.pop() {
                None => return,
                Some((c, n)) => {
                    if c + 1 < n {
                        path.push((c + 1, n));
                        break;
                    }
                }
            }
        }
        if emitted >= max_cases {
            return;
        }
    }
}

pub fn run(args: &Args, out: &mut Out) {
    if let Some(cases) = args.replay_cases() {
        for (i, (h, ops)) in cases.iter().enumerate() {
            let cfg = Cfg::from_header(h);
            let mut ex = Exec::start(out, i as u64, "replay", true, &cfg);
            for op in ops {
                ex.apply(op);
            }
            ex.end();
        }
        return;
    }
    let mut idx = 0u64;
    if args.count == 0 {
        // bounded-exhaustive part
        let graphs: Vec<(usize, Vec<usize>, Vec<Vec<usize>>)> = vec![
            (3, vec![2], vec![vec![], vec![0], vec![1, 0]]),
            (4, vec![3, 1], vec![vec![1], vec![0, 2], vec![0], vec![2, 2, 3]]),
            (4, vec![0, 1, 2, 3], vec![vec![], vec![], vec![], vec![]]),
            (5, vec![4], vec![vec![], vec![0], vec![1], vec![2, 0], vec![3, 1]]),
            (5, vec![2, 4], vec![vec![1], vec![0], vec![0, 1, 3], vec![4], vec![3, 0]]),
        ];
        let budget: u64 = if args.thorough { 6000 } else { 150 };
        for (gi, (n, known, graph)) in graphs.iter().enumerate() {
            if !args.thorough && *n > 4 {
                continue;
            }
            for (par, nr) in [(1usize, 1usize), (1, 2), (2, 1), (2, 2), (2, 3), (3, 2)] {
                if !args.thorough && par + nr > 4 {
                    continue;
                }
                for kind in ["closest", "disjoint"] {
                    let cfg = Cfg { kind: s(kind), par, nr, to: 10, n: *n, salt: gi as u8 * 11, known: known.clone() };
                    exhaustive(out, &mut idx, kind, &cfg, graph, budget);
                }
            }
        }
    }
    let n = args.n(900, 40_000);
    for i in 0..n {
        let mut rng = Rng::for_case(args.seed, i);
        match rng.below(10) {
            0 | 1 | 2 => random_lookup(out, idx, &mut rng, "closest"),
            3 | 4 => driven_lookup(out, idx, &mut rng, "closest"),
            5 | 6 => random_lookup(out, idx, &mut rng, "disjoint"),
            7 => driven_lookup(out, idx, &mut rng, "disjoint"),
            _ => fixed_case(out, idx, &mut rng),
        }
        idx += 1;
    }
}
