//! Harness binary `h_rdv <PROP> --seed S --tier T [--count N] [--replay F]`.
//! One module per property (`cNN.rs`, `pub fn run(args: &hcore::Args, out: &mut hcore::Out)`).
mod c51;

// `Instant::now()` (and therefore futures-timer) follows `hcore::warp`.
hcore::install_clock!();

fn main() {
    let args = hcore::Args::parse();
    hcore::quiet_panics();
    let mut out = hcore::Out::new();
    match args.prop.as_str() {
        "C51" => c51::run(&args, &mut out),
        p => {
            eprintln!("h_rdv: unknown property {p}");
            std::process::exit(2);
        }
    }
    out.flush();
}
