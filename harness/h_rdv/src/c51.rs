//! C51 — the rendezvous server's `Registrations` store (add / remove / get / poll) vs the Lean
//! model `C51`. The real store is driven through the cfg(libp2p_verif) hook
//! `libp2p_rendezvous::server::verif_c51::Regs`; registrations carry PeerRecords signed with real
//! ed25519 keys; expiry is driven by warping the interposed monotonic clock and kicking the
//! futures-timer helper thread (no real sleeping beyond ~1 ms polls).
//!
//! Line protocol (all times in seconds of model time):
//!   case <idx> <class> nt=<0|1> min=<s> max=<s> pp=<n> tot=<n> cc=<n>
//!   (generator classes: limits, refresh, cookies, mixed, slots = fill to a limit / no-op unregisters / fresh namespaces)
//!   op reg <peer> <ns> <ttl|->          impl ok <ttl> sz=<a>/<b>/<c> | err <Code> sz=…
//!   op unreg <peer> <ns>                impl ok sz=…
//!   op disc <ns|*> <cookie|-> <limit|-> <chosen>   impl ok <entries> <cookie-ns|*> sz=… | err mismatch sz=…
//!   op adv <secs>                       impl exp <entries> sz=… | stuck
//! `entries` = comma-joined `id:peer:ns:ttl`, sorted by id (`-` when empty); the id of a registration
//! is the serial number (count of earlier accepted registrations) that the harness embeds in the
//! record's address `/memory/<serial>`. `cookie` = `<k>:<ns|*>`: the id of the k-th issued cookie
//! (a forged id when k has not been issued) relabelled with namespace `ns`, passed through the
//! cookie wire encoding. `chosen` = the ids the real code returned (oracle for the `take(limit)` over
//! the hash map's iteration order); it is recomputed on replay.
//! sz = (registrations_for_peer.len, registrations.len, cookies.len).
use std::task::{Context, Poll};
use std::time::{Duration, Instant};

use hcore::{Args, Out, Rng};
use libp2p_core::{Multiaddr, PeerRecord};
use libp2p_rendezvous::server::{verif_c51::Regs, Config};
use libp2p_rendezvous::{Cookie, ErrorCode, Namespace, Registration};

const NS: [&str; 8] = ["a", "b", "c", "d", "e", "f", "g", "h"];
/// namespaces used by the undirected random classes
const NNS: usize = 3;
const NPEERS: usize = 4;
/// granularity of every accepted ttl and every clock advance (margin against real-time drift)
const G: u64 = 600;

#[derive(Clone, Copy, Debug)]
struct Cfg {
    min: u64,
    max: u64,
    pp: usize,
    tot: usize,
    cc: usize,
}

impl Cfg {
    fn toks(&self) -> String {
        format!("min={} max={} pp={} tot={} cc={}", self.min, self.max, self.pp, self.tot, self.cc)
    }
    fn from_header(h: &[String]) -> Cfg {
        let mut c = Cfg { min: 7200, max: 259200, pp: 32, tot: 10000, cc: 10000 };
        for t in h {
            if let Some((k, v)) = t.split_once('=') {
                let n: u64 = match v.parse() {
                    Ok(n) => n,
                    Err(_) => continue,
                };
                match k {
                    "min" => c.min = n,
                    "max" => c.max = n,
                    "pp" => c.pp = n as usize,
                    "tot" => c.tot = n as usize,
                    "cc" => c.cc = n as usize,
                    _ => {}
                }
            }
        }
        c
    }
}

fn ns_tok(n: Option<usize>) -> String {
    match n {
        Some(i) => i.to_string(),
        None => "*".into(),
    }
}

fn ns_of(i: usize) -> Namespace {
    Namespace::new(NS[i % NS.len()].to_string()).unwrap()
}

fn ns_index(ns: &Namespace) -> usize {
    let s = ns.to_string();
    NS.iter().position(|x| *x == s).unwrap_or(99)
}

fn err_tok(e: ErrorCode) -> &'static str {
    match e {
        ErrorCode::InvalidNamespace => "InvalidNamespace",
        ErrorCode::InvalidSignedPeerRecord => "InvalidSignedPeerRecord",
        ErrorCode::InvalidTtl => "InvalidTtl",
        ErrorCode::InvalidCookie => "InvalidCookie",
        ErrorCode::NotAuthorized => "NotAuthorized",
        ErrorCode::InternalError => "InternalError",
        ErrorCode::Unavailable => "Unavailable",
    }
}

struct World {
    regs: Regs,
    keys: Vec<libp2p_identity::Keypair>,
    peers: Vec<libp2p_identity::PeerId>,
    /// ids of issued cookies (index = issue order)
    issued: Vec<[u8; 8]>,
    /// number of accepted registrations so far = next serial
    serial: u64,
    /// deadlines (model seconds) of every timer created by an accepted registration, not yet fired
    deadlines: Vec<u64>,
    now: u64,
}

impl World {
    fn new(cfg: Cfg) -> World {
        let config = Config::default()
            .with_min_ttl(cfg.min)
            .with_max_ttl(cfg.max)
            .with_max_registration_per_peer(cfg.pp)
            .with_max_registration_total(cfg.tot)
            .with_max_stored_cookies(cfg.cc);
        let keys: Vec<_> = (0..NPEERS).map(|i| hcore::keypair(i as u8 + 1)).collect();
        let peers = keys.iter().map(|k| k.public().to_peer_id()).collect();
        World { regs: Regs::new(config), keys, peers, issued: vec![], serial: 0, deadlines: vec![], now: 0 }
    }

    fn sz(&self) -> String {
        let (a, b, c) = self.regs.sizes();
        format!("sz={a}/{b}/{c}")
    }

    fn entry(&self, r: &Registration) -> (u64, String) {
        let id = match r.record.addresses().first().and_then(|a| a.iter().next()) {
            Some(hcore::Protocol::Memory(n)) => n,
            _ => u64::MAX,
        };
        let p = r.record.peer_id();
        let peer = self.peers.iter().position(|x| *x == p).unwrap_or(99);
        (id, format!("{}:{}:{}:{}", id, peer, ns_index(&r.namespace), r.ttl))
    }

    fn entries(&self, rs: &[Registration]) -> (Vec<u64>, String) {
        let mut es: Vec<(u64, String)> = rs.iter().map(|r| self.entry(r)).collect();
        es.sort();
        let ids: Vec<u64> = es.iter().map(|e| e.0).collect();
        let strs: Vec<String> = es.into_iter().map(|e| e.1).collect();
        (ids, hcore::list(&strs))
    }

    fn cookie(&self, k: usize, ns: Option<usize>) -> Cookie {
        let id: [u8; 8] = match self.issued.get(k) {
            Some(b) => *b,
            None => (0xF0F0_0000_0000_0000u64 | k as u64).to_be_bytes(),
        };
        let mut wire = id.to_vec();
        if let Some(n) = ns {
            wire.extend_from_slice(NS[n % NS.len()].as_bytes());
        }
        Cookie::from_wire_encoding(wire).expect("well-formed cookie")
    }
}

#[derive(Clone, Debug)]
enum Op {
    Reg { peer: usize, ns: usize, ttl: Option<u64> },
    Unreg { peer: usize, ns: usize },
    Disc { ns: Option<usize>, cookie: Option<(usize, Option<usize>)>, limit: Option<u64> },
    Adv(u64),
}

fn parse_ns(s: &str) -> Option<usize> {
    if s == "*" {
        None
    } else {
        s.parse().ok()
    }
}

fn parse_op(t: &[String]) -> Option<Op> {
    let opt = |s: &str| -> Option<u64> { if s == "-" { None } else { s.parse().ok() } };
    match t.first()?.as_str() {
        "reg" => Some(Op::Reg { peer: t.get(1)?.parse().ok()?, ns: t.get(2)?.parse().ok()?, ttl: opt(t.get(3)?) }),
        "unreg" => Some(Op::Unreg { peer: t.get(1)?.parse().ok()?, ns: t.get(2)?.parse().ok()? }),
        "disc" => {
            let ns = parse_ns(t.get(1)?);
            let c = t.get(2)?;
            let cookie = if c == "-" {
                None
            } else {
                let (k, n) = c.split_once(':')?;
                Some((k.parse().ok()?, parse_ns(n)))
            };
            Some(Op::Disc { ns, cookie, limit: opt(t.get(3)?) })
        }
        "adv" => Some(Op::Adv(t.get(1)?.parse().ok()?)),
        _ => None,
    }
}

/// Execute one op on the real code; prints the op and impl lines. Returns false after a panic.
fn exec(w: &mut World, op: &Op, out: &mut Out) -> bool {
    match op {
        Op::Reg { peer, ns, ttl } => {
            let peer = peer % NPEERS;
            out.op(&format!("reg {} {} {}", peer, ns % NS.len(), ttl.map(|t| t.to_string()).unwrap_or("-".into())));
            let addr: Multiaddr = format!("/memory/{}", w.serial).parse().unwrap();
            let record = PeerRecord::new(&w.keys[peer], vec![addr]).expect("sign");
            let namespace = ns_of(*ns);
            let ttl = *ttl;
            let r = hcore::guarded(|| w.regs.add(namespace, record, ttl));
            match r {
                Ok(Ok(reg)) => {
                    w.serial += 1;
                    w.deadlines.push(w.now.saturating_add(reg.ttl));
                    out.imp(&format!("ok {} {}", reg.ttl, w.sz()));
                }
                Ok(Err(e)) => out.imp(&format!("err {} {}", err_tok(e), w.sz())),
                Err(m) => {
                    out.imp(&format!("panic {m}"));
                    return false;
                }
            }
        }
        Op::Unreg { peer, ns } => {
            let peer = peer % NPEERS;
            out.op(&format!("unreg {} {}", peer, ns % NS.len()));
            let p = w.peers[peer];
            let namespace = ns_of(*ns);
            match hcore::guarded(|| w.regs.remove(namespace, p)) {
                Ok(()) => out.imp(&format!("ok {}", w.sz())),
                Err(m) => {
                    out.imp(&format!("panic {m}"));
                    return false;
                }
            }
        }
        Op::Disc { ns, cookie, limit } => {
            let ns = ns.map(|n| n % NS.len());
            let cookie = cookie.map(|(k, n)| (k, n.map(|n| n % NS.len())));
            let ck = cookie.map(|(k, n)| w.cookie(k, n));
            let namespace = ns.map(ns_of);
            let limit = *limit;
            let r = hcore::guarded(|| w.regs.get(namespace, ck, limit));
            let head = format!(
                "disc {} {} {}",
                ns_tok(ns),
                cookie.map(|(k, n)| format!("{}:{}", k, ns_tok(n))).unwrap_or("-".into()),
                limit.map(|l| l.to_string()).unwrap_or("-".into())
            );
            match r {
                Ok(Ok((regs, new_cookie))) => {
                    let (ids, es) = w.entries(&regs);
                    out.op(&format!("{} {}", head, hcore::list(&ids)));
                    let cns = new_cookie.namespace().map(ns_index);
                    let wire = new_cookie.into_wire_encoding();
                    let mut id = [0u8; 8];
                    id.copy_from_slice(&wire[..8]);
                    w.issued.push(id);
                    out.imp(&format!("ok {} {} {}", es, ns_tok(cns), w.sz()));
                }
                Ok(Err(())) => {
                    out.op(&format!("{} -", head));
                    out.imp(&format!("err mismatch {}", w.sz()));
                }
                Err(m) => {
                    out.op(&format!("{} -", head));
                    out.imp(&format!("panic {m}"));
                    return false;
                }
            }
        }
        Op::Adv(d) => {
            out.op(&format!("adv {}", d));
            w.now = w.now.saturating_add(*d);
            hcore::warp(Duration::from_secs(*d));
            // creating any Delay unparks the futures-timer helper thread, which then re-reads the
            // (warped) clock and fires every due timer
            let _kick = futures_timer::Delay::new(Duration::from_millis(1));
            let now = w.now;
            let not_due = w.deadlines.iter().filter(|d| **d > now).count();
            let waker = futures::task::noop_waker();
            let mut cx = Context::from_waker(&waker);
            let start = Instant::now();
            let mut expired: Vec<Registration> = vec![];
            let mut panicked = None;
            let mut stuck = false;
            loop {
                loop {
                    match hcore::guarded(|| w.regs.poll_expired(&mut cx)) {
                        Ok(Poll::Ready(r)) => expired.push(r),
                        Ok(Poll::Pending) => break,
                        Err(m) => {
                            panicked = Some(m);
                            break;
                        }
                    }
                }
                if panicked.is_some() || w.regs.pending_timers() <= 1 + not_due {
                    break;
                }
                // generous real-time cap: reaching it is an infrastructure failure, reported as such
                if start.elapsed() > Duration::from_secs(60 + *d) {
                    stuck = true;
                    break;
                }
                std::thread::sleep(Duration::from_millis(1));
            }
            w.deadlines.retain(|d| *d > now);
            if let Some(m) = panicked {
                out.imp(&format!("panic {m}"));
                return false;
            }
            if stuck || w.regs.pending_timers() != 1 + not_due {
                out.imp("stuck");
                return false;
            }
            let (_, es) = w.entries(&expired);
            out.imp(&format!("exp {} {}", es, w.sz()));
        }
    }
    true
}

fn run_case(cfg: Cfg, ops: &[Op], out: &mut Out) {
    let mut w = World::new(cfg);
    for op in ops {
        if !exec(&mut w, op, out) {
            break;
        }
    }
    out.end();
}

// ------------------------------------------------------------------ generators

fn gen_cfg(r: &mut Rng, class: &str) -> Cfg {
    let min = *r.pick(&[G, 2 * G, 7200]);
    let max = match r.below(4) {
        0 => min,
        1 => min + G,
        2 => min + 3 * G,
        _ => 14400u64.max(min),
    };
    let (pp, tot, cc) = match class {
        "limits" => (r.range(1, 2) as usize, r.range(1, 3) as usize, r.range(1, 3) as usize),
        // small caches (eviction) and caches large enough that no cookie of the case is ever evicted, so
        // that the Spec's per-cookie clause judges every re-presented cookie
        "cookies" => (3, 8, *r.pick(&[0usize, 1, 2, 3, 3, 6, 64, 64])),
        "refresh" => (r.range(1, 2) as usize, r.range(2, 4) as usize, 2),
        _ => (r.range(1, 3) as usize, r.range(1, 6) as usize, r.range(1, 3) as usize),
    };
    Cfg { min, max, pp, tot, cc }
}

fn gen_ttl(r: &mut Rng, cfg: &Cfg) -> Option<u64> {
    match r.below(16) {
        0 => None,
        1 => Some(cfg.min.wrapping_sub(1)),
        2 => Some(cfg.max + 1),
        3 => Some(0),
        4 | 5 => Some(cfg.max),
        6 | 7 | 8 => Some(cfg.min),
        9 => Some(cfg.max + G),
        _ => {
            let steps = (cfg.max - cfg.min) / G;
            Some(cfg.min + G * r.range(0, steps))
        }
    }
}

/// generator bookkeeping: which (peer, ns) were probably registered, how many discovers were issued
struct GenSt {
    discs: usize,
    last_ns: Option<usize>,
    pending: Vec<u64>,
    now: u64,
}

fn gen_op(r: &mut Rng, cfg: &Cfg, class: &str, g: &mut GenSt) -> Op {
    let npeers = if class == "limits" || class == "refresh" { 2 } else { NPEERS };
    let nns = if class == "refresh" { 2 } else { NNS };
    let w = match class {
        "limits" => [60, 10, 15, 15],
        "refresh" => [45, 5, 20, 30],
        "cookies" => [25, 5, 60, 10],
        _ => [35, 10, 35, 20],
    };
    let x = r.below(100);
    if x < w[0] {
        let ttl = gen_ttl(r, cfg);
        let eff = ttl.unwrap_or(7200);
        if eff >= cfg.min && eff <= cfg.max {
            g.pending.push(g.now + eff);
        }
        Op::Reg { peer: r.usize(npeers), ns: r.usize(nns), ttl }
    } else if x < w[0] + w[1] {
        Op::Unreg { peer: r.usize(npeers), ns: r.usize(nns) }
    } else if x < w[0] + w[1] + w[2] {
        let ns = if r.chance(2, 5) { None } else { Some(r.usize(nns)) };
        let cookie = if g.discs == 0 || r.chance(1, 4) {
            if r.chance(1, 8) {
                Some((1000 + r.usize(3), ns))
            } else {
                None
            }
        } else {
            let k = if r.chance(3, 4) { g.discs - 1 } else { r.usize(g.discs) };
            match r.below(10) {
                // chain: same namespace as the discover that issued the latest cookie
                0..=5 => Some((k, if k == g.discs - 1 { g.last_ns } else { ns })),
                6 | 7 => Some((k, ns)),
                8 => Some((k, None)),
                _ => Some((k, Some(r.usize(NNS)))),
            }
        };
        let (ns, cookie) = match cookie {
            // mostly keep chains valid: discover the namespace the cookie was issued for
            Some((k, cn)) if r.chance(3, 4) => (cn.or(ns), Some((k, cn))),
            c => (ns, c),
        };
        let limit = match r.below(8) {
            0 => Some(0),
            1 | 2 => Some(1),
            3 => Some(2),
            4 => Some(5),
            _ => None,
        };
        // the discover is refused on a namespace mismatch and then issues no cookie
        let mismatch = matches!((ns, cookie), (None, Some((_, Some(_)))))
            || matches!((ns, cookie), (Some(a), Some((_, Some(b)))) if a != b);
        if !mismatch {
            g.discs += 1;
            g.last_ns = ns;
        }
        Op::Disc { ns, cookie, limit }
    } else {
        let d = if !g.pending.is_empty() && r.chance(2, 3) {
            let t = *r.pick(&g.pending);
            if t > g.now {
                if r.chance(1, 4) && t - g.now > G {
                    t - g.now - G
                } else {
                    t - g.now
                }
            } else {
                G
            }
        } else {
            G * r.range(1, 4)
        };
        g.now += d;
        let now = g.now;
        g.pending.retain(|t| *t > now);
        Op::Adv(d)
    }
}

/// directed: fill a peer (or the whole store) to its limit, then k no-op unregisters (namespace never
/// registered / duplicate unregister / already expired / a peer without registrations), then register
/// fresh namespaces; more namespaces (8) than any limit (<= 3)
fn gen_slots(r: &mut Rng) -> (Cfg, Vec<Op>) {
    let total_mode = r.chance(1, 3);
    let lim = r.range(1, 3) as usize;
    let cfg = if total_mode {
        Cfg { min: G, max: 4 * G, pp: 6, tot: lim, cc: 2 }
    } else {
        Cfg { min: G, max: 4 * G, pp: lim, tot: if r.chance(1, 4) { lim + 1 } else { 12 }, cc: 2 }
    };
    let mut nss: Vec<usize> = (0..NS.len()).collect();
    r.shuffle(&mut nss);
    let p = r.usize(NPEERS);
    // the i-th registration of the fill: (peer, ns); per-peer mode keeps one peer, total mode varies it
    let who = |i: usize| if total_mode { ((p + i) % NPEERS, nss[i]) } else { (p, nss[i]) };
    let reg = |(peer, ns): (usize, usize), ttl: u64| Op::Reg { peer, ns, ttl: Some(ttl) };
    let unreg = |(peer, ns): (usize, usize)| Op::Unreg { peer, ns };
    let short_first = r.bool();
    let mut ops = vec![];
    for i in 0..lim {
        ops.push(reg(who(i), if i == 0 && short_first { G } else { 4 * G }));
    }
    let mut fresh = lim; // next never-used index into nss
    let mut expired_done = false;
    for _ in 0..r.range(1, 3) {
        match r.below(4) {
            0 => ops.push(unreg(who(fresh))), // never registered (total mode: possibly a peer with no registration)
            1 => {
                let i = r.usize(lim);
                if i == 0 && expired_done {
                    ops.push(unreg(who(fresh)));
                } else {
                    ops.push(unreg(who(i)));
                    ops.push(unreg(who(i)));
                    ops.push(reg(who(i), 4 * G));
                }
            }
            2 if short_first && !expired_done => {
                ops.push(Op::Adv(G));
                ops.push(unreg(who(0)));
                ops.push(reg(who(0), 4 * G));
                expired_done = true;
            }
            _ => ops.push(Op::Unreg { peer: (p + 1 + r.usize(NPEERS - 1)) % NPEERS, ns: nss[fresh] }),
        }
    }
    for _ in 0..r.range(2, 3) {
        ops.push(reg(who(fresh), if r.bool() { G } else { 4 * G }));
        fresh += 1;
    }
    ops.push(Op::Disc { ns: None, cookie: None, limit: None });
    if r.bool() {
        ops.push(Op::Adv(G));
        ops.push(reg(who(fresh), G));
        ops.push(Op::Disc { ns: None, cookie: None, limit: None });
    }
    (cfg, ops)
}

fn has_kind(ops: &[Op]) -> bool {
    let reg = ops.iter().any(|o| matches!(o, Op::Reg { .. }));
    let obs = ops.iter().any(|o| matches!(o, Op::Disc { .. } | Op::Adv(_)));
    reg && obs
}

/// hand-written scenarios aimed at the refresh / limit / supersede / cookie branches
fn scripted() -> Vec<(&'static str, Cfg, Vec<Op>)> {
    let reg = |peer, ns, ttl| Op::Reg { peer, ns, ttl: Some(ttl) };
    let disc = |ns, cookie, limit| Op::Disc { ns, cookie, limit };
    vec![
        (
            "refresh_at_peer_limit",
            Cfg { min: G, max: 4 * G, pp: 1, tot: 4, cc: 2 },
            vec![reg(0, 0, G), reg(0, 0, 2 * G), disc(None, None, None), reg(0, 1, G), Op::Adv(G), Op::Adv(G), disc(None, None, None)],
        ),
        (
            "total_limit",
            Cfg { min: G, max: 4 * G, pp: 3, tot: 2, cc: 2 },
            vec![reg(0, 0, G), reg(1, 0, G), reg(2, 0, G), reg(3, 0, G), reg(0, 0, 2 * G), disc(None, None, None), Op::Adv(G), reg(2, 0, G), disc(None, None, None)],
        ),
        (
            "superseded_expiry",
            Cfg { min: G, max: 4 * G, pp: 2, tot: 4, cc: 2 },
            vec![reg(0, 0, G), reg(0, 0, 3 * G), disc(Some(0), None, None), Op::Adv(G), disc(Some(0), None, None), Op::Adv(2 * G), disc(Some(0), None, None)],
        ),
        (
            "unregister_then_expiry",
            Cfg { min: G, max: 4 * G, pp: 2, tot: 4, cc: 2 },
            vec![reg(0, 0, G), reg(1, 1, 2 * G), Op::Unreg { peer: 0, ns: 0 }, Op::Unreg { peer: 3, ns: 2 }, Op::Adv(G), disc(None, None, None), Op::Adv(G), disc(None, None, None)],
        ),
        (
            "pagination",
            Cfg { min: G, max: 4 * G, pp: 3, tot: 8, cc: 2 },
            vec![
                reg(0, 0, G), reg(1, 0, 2 * G), reg(2, 0, 2 * G), reg(3, 1, 2 * G),
                disc(Some(0), None, Some(1)), disc(Some(0), Some((0, Some(0))), Some(1)), disc(Some(0), Some((1, Some(0))), Some(1)),
                disc(Some(0), Some((2, Some(0))), None), disc(None, Some((3, Some(0))), None), disc(Some(1), Some((3, Some(0))), None),
                disc(Some(0), Some((3, None)), None), Op::Adv(G), disc(Some(0), Some((3, Some(0))), None), reg(0, 0, G), disc(Some(0), Some((5, Some(0))), None),
            ],
        ),
        (
            "cookie_eviction",
            Cfg { min: G, max: 4 * G, pp: 3, tot: 8, cc: 1 },
            vec![reg(0, 0, G), reg(1, 1, G), disc(None, None, Some(1)), disc(Some(1), None, None), disc(None, Some((0, None)), None), disc(None, Some((2, None)), None), disc(None, None, Some(0)), Op::Adv(G), disc(None, None, None)],
        ),
        (
            "cookie_replay",
            Cfg { min: G, max: 4 * G, pp: 3, tot: 8, cc: 6 },
            vec![
                reg(0, 0, 2 * G), reg(1, 0, 2 * G), reg(2, 0, 2 * G), reg(3, 1, 2 * G),
                disc(Some(0), None, Some(1)), disc(Some(0), Some((0, Some(0))), Some(1)), disc(Some(0), Some((0, Some(0))), Some(1)),
                disc(Some(0), Some((0, Some(0))), None), disc(Some(0), Some((1, Some(0))), None), disc(None, None, Some(2)),
                disc(None, Some((5, None)), None), disc(None, Some((5, None)), None), disc(Some(0), Some((0, Some(0))), None),
            ],
        ),
        (
            "ttl_bounds",
            Cfg { min: 2 * G, max: 7200, pp: 3, tot: 8, cc: 2 },
            vec![reg(0, 0, 2 * G - 1), reg(0, 0, 2 * G), reg(0, 1, 7200), reg(0, 2, 7201), Op::Reg { peer: 1, ns: 0, ttl: None }, reg(1, 1, 0), disc(None, None, None), Op::Adv(2 * G), Op::Adv(7200 - 2 * G)],
        ),
        (
            "noop_unregister_at_peer_limit",
            Cfg { min: G, max: 4 * G, pp: 2, tot: 12, cc: 2 },
            vec![
                reg(0, 0, G), reg(0, 1, 4 * G), reg(0, 2, G), Op::Unreg { peer: 0, ns: 2 }, Op::Unreg { peer: 0, ns: 3 }, reg(0, 2, G), reg(0, 3, G),
                Op::Unreg { peer: 0, ns: 1 }, Op::Unreg { peer: 0, ns: 1 }, reg(0, 1, 4 * G), reg(0, 4, G), Op::Adv(G), Op::Unreg { peer: 0, ns: 0 },
                reg(0, 0, G), reg(0, 5, G), reg(0, 6, G), disc(None, None, None),
            ],
        ),
        (
            "noop_unregister_at_total_limit",
            Cfg { min: G, max: 4 * G, pp: 6, tot: 2, cc: 2 },
            vec![
                reg(0, 0, G), reg(1, 1, 4 * G), reg(2, 2, G), Op::Unreg { peer: 2, ns: 2 }, Op::Unreg { peer: 0, ns: 5 }, Op::Unreg { peer: 1, ns: 1 },
                Op::Unreg { peer: 1, ns: 1 }, reg(1, 1, 4 * G), reg(2, 2, G), reg(0, 5, G), Op::Adv(G), Op::Unreg { peer: 0, ns: 0 }, reg(3, 3, G), reg(0, 0, G),
                disc(None, None, None),
            ],
        ),
        (
            "default_ttl_out_of_range",
            Cfg { min: G, max: 2 * G, pp: 3, tot: 8, cc: 2 },
            vec![Op::Reg { peer: 1, ns: 0, ttl: None }, disc(None, None, None)],
        ),
    ]
}

/// bounded-exhaustive: every op sequence of length ≤ `len` over a small alphabet
fn exhaustive(len: usize, out: &mut Out, idx: &mut u64) {
    let cfg = Cfg { min: G, max: 2 * G, pp: 1, tot: 2, cc: 1 };
    let reg = |peer, ns, ttl| Op::Reg { peer, ns, ttl: Some(ttl) };
    let alphabet: Vec<Op> = vec![
        reg(0, 0, G),
        reg(0, 0, 2 * G),
        reg(0, 1, G),
        reg(1, 0, G),
        reg(2, 1, 2 * G),
        Op::Unreg { peer: 0, ns: 0 },
        Op::Unreg { peer: 0, ns: 1 },
        Op::Disc { ns: None, cookie: None, limit: None },
        Op::Disc { ns: None, cookie: Some((usize::MAX, None)), limit: Some(1) },
        Op::Disc { ns: Some(0), cookie: Some((usize::MAX, Some(0))), limit: None },
        Op::Adv(G),
    ];
    let n = alphabet.len();
    for l in 1..=len {
        let total = n.pow(l as u32);
        for code in 0..total {
            let mut c = code;
            let mut ops = vec![];
            let mut discs = 0usize;
            for _ in 0..l {
                let mut op = alphabet[c % n].clone();
                c /= n;
                if let Op::Disc { cookie, .. } = &mut op {
                    // usize::MAX = "the most recently issued cookie" (none before the first discover)
                    if let Some((k, cn)) = *cookie {
                        if k == usize::MAX {
                            *cookie = if discs == 0 { None } else { Some((discs - 1, cn)) };
                        }
                    }
                    discs += 1; // may over-count after a refused discover: the reference is then "forged"
                }
                ops.push(op);
            }
            out.case(*idx, &format!("exh{} nt={} {}", l, has_kind(&ops) as u8, cfg.toks()));
            run_case(cfg, &ops, out);
            *idx += 1;
        }
    }
}

pub fn run(args: &Args, out: &mut Out) {
    if let Some(cases) = args.replay_cases() {
        for (i, (header, ops)) in cases.iter().enumerate() {
            let cfg = Cfg::from_header(header);
            let ops: Vec<Op> = ops.iter().filter_map(|t| parse_op(t)).collect();
            out.case(i as u64, &format!("replay nt=1 {}", cfg.toks()));
            run_case(cfg, &ops, out);
        }
        return;
    }
    let mut idx = 0u64;
    for (name, cfg, ops) in scripted() {
        out.case(idx, &format!("s_{} nt=1 {}", name, cfg.toks()));
        run_case(cfg, &ops, out);
        idx += 1;
    }
    if args.thorough && args.count == 0 {
        exhaustive(4, out, &mut idx);
    } else if args.count == 0 {
        exhaustive(3, out, &mut idx);
    }
    let n = args.n(400, 6000);
    let classes = ["limits", "refresh", "cookies", "mixed", "slots"];
    for i in 0..n {
        let mut r = Rng::for_case(args.seed, i);
        let class = classes[(i % 5) as usize];
        if class == "slots" {
            let (cfg, ops) = gen_slots(&mut r);
            out.case(idx, &format!("{} nt=1 {}", class, cfg.toks()));
            run_case(cfg, &ops, out);
            idx += 1;
            continue;
        }
        let cfg = gen_cfg(&mut r, class);
        let len = if r.chance(1, 10) { r.range(60, 200) } else { r.range(3, 40) } as usize;
        let mut g = GenSt { discs: 0, last_ns: None, pending: vec![], now: 0 };
        let ops: Vec<Op> = (0..len).map(|_| gen_op(&mut r, &cfg, class, &mut g)).collect();
        out.case(idx, &format!("{} nt={} {}", class, has_kind(&ops) as u8, cfg.toks()));
        run_case(cfg, &ops, out);
        idx += 1;
    }
}
