//! Harness binary `h_kad_c <PROP> --seed S --tier T [--count N] [--replay F]`.
//! One module per property (`cNN.rs`, `pub fn run(args: &hcore::Args, out: &mut hcore::Out)`).

mod c42;
mod c43;
mod c44;

/// A *frozen* monotonic clock: once `clock::freeze(ns)` was called, `Instant::now()` returns exactly
/// the value last set with `clock::set` / advanced with `clock::warp`, so that no output of a
/// check depends on how fast the harness runs.  (Same interposition technique as
/// `hcore::install_clock!`, which only adds an offset to the running clock.)
pub mod clock {
    use std::sync::atomic::{AtomicBool, AtomicU64, Ordering::SeqCst};
    pub static FROZEN: AtomicBool = AtomicBool::new(false);
    pub static NOW_NS: AtomicU64 = AtomicU64::new(0);

    pub fn freeze(ns: u64) {
        NOW_NS.store(ns, SeqCst);
        FROZEN.store(true, SeqCst);
    }
    pub fn warp(ns: u64) {
        NOW_NS.fetch_add(ns, SeqCst);
    }
    pub fn now_ns() -> u64 {
        NOW_NS.load(SeqCst)
    }

    extern "C" {
        fn __clock_gettime(clk: i32, ts: *mut [i64; 2]) -> i32;
    }

    /// # Safety
    /// called by libc users with a valid `timespec` pointer
    #[no_mangle]
    pub unsafe extern "C" fn clock_gettime(clk: i32, ts: *mut [i64; 2]) -> i32 {
        if clk == 1 && FROZEN.load(SeqCst) {
            let n = NOW_NS.load(SeqCst);
            (*ts)[0] = (n / 1_000_000_000) as i64;
            (*ts)[1] = (n % 1_000_000_000) as i64;
            return 0;
        }
        __clock_gettime(clk, ts)
    }
}

fn main() {
    let args = hcore::Args::parse();
    hcore::quiet_panics();
    let mut out = hcore::Out::new();
    match args.prop.as_str() {
        "C42" => c42::run(&args, &mut out),
        "C43" => c43::run(&args, &mut out),
        "C44" => c44::run(&args, &mut out),
        p => {
            eprintln!("h_kad_c: unknown property {p}");
            std::process::exit(2);
        }
    }
    out.flush();
}
