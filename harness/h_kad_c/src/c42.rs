//! C42 — record lifetimes: `Behaviour::record_received` (via an injected `HandlerEvent::PutRecord`),
//! `record_to_proto` / `record_from_proto` (via the message conversions) vs the Lean model `C42.*`.
//!
//! The monotonic clock is frozen (`crate::clock`), every instant is printed relative to it.
use std::{
    num::NonZeroUsize,
    task::{Context, Poll},
    time::{Duration, Instant},
};

use hcore::{hex, unhex, Args, Out, Rng};
use libp2p_identity::PeerId;
use libp2p_kad::{
    self as kad, store::MemoryStore, store::RecordStore, verif_c42 as hook, Behaviour, Config,
    KBucketKey, Record, RecordKey, StoreInserts,
};
use libp2p_swarm::{ConnectionId, NetworkBehaviour, ToSwarm};

const NS: u128 = 1_000_000_000;
const S: u64 = 1_000_000_000;

#[derive(Clone, Debug)]
struct Cfg {
    /// configured record TTL in ns
    ttl: Option<u128>,
    k: usize,
    filt: bool,
    now: u64,
    peers: usize,
    pseed: u64,
}

impl Cfg {
    fn header(&self, class: &str, nt: bool) -> String {
        format!(
            "{class} nt={} ttl={} k={} filt={} now={} peers={} pseed={}",
            nt as u8,
            self.ttl.map(|t| t.to_string()).unwrap_or("none".into()),
            self.k,
            self.filt as u8,
            self.now,
            self.peers,
            self.pseed
        )
    }
    fn parse(toks: &[String]) -> Cfg {
        let kv = |k: &str| {
            toks.iter()
                .find_map(|t| t.strip_prefix(&format!("{k}=")).map(|s| s.to_string()))
        };
        Cfg {
            ttl: kv("ttl").and_then(|s| s.parse().ok()),
            k: kv("k").and_then(|s| s.parse().ok()).unwrap_or(20),
            filt: kv("filt").as_deref() == Some("1"),
            now: kv("now").and_then(|s| s.parse().ok()).unwrap_or(1_000_000_000 * S),
            peers: kv("peers").and_then(|s| s.parse().ok()).unwrap_or(0),
            pseed: kv("pseed").and_then(|s| s.parse().ok()).unwrap_or(0),
        }
    }
}

fn dur_ns(ns: u128) -> Duration {
    Duration::new((ns / NS) as u64, (ns % NS) as u32)
}

fn rand_peer(rng: &mut Rng) -> PeerId {
    let mut b = vec![0x12u8, 0x20];
    b.extend(rng.bytes(32));
    PeerId::from_bytes(&b).unwrap()
}

struct World {
    beh: Behaviour<MemoryStore>,
    local: PeerId,
    source: PeerId,
    /// peers in the routing table
    table: Vec<PeerId>,
}

fn drain(beh: &mut Behaviour<MemoryStore>) -> Vec<ToSwarm<kad::Event, libp2p_swarm::THandlerInEvent<Behaviour<MemoryStore>>>> {
    let waker = futures::task::noop_waker();
    let mut cx = Context::from_waker(&waker);
    let mut v = vec![];
    for _ in 0..10_000 {
        match beh.poll(&mut cx) {
            Poll::Ready(e) => v.push(e),
            Poll::Pending => break,
        }
    }
    v
}

fn build(cfg: &Cfg) -> World {
    crate::clock::freeze(cfg.now);
    let mut rng = Rng::new(cfg.pseed ^ 0xC42);
    let local = rand_peer(&mut rng);
    let source = rand_peer(&mut rng);
    let mut c = Config::new(kad::PROTOCOL_NAME);
    c.set_replication_factor(NonZeroUsize::new(cfg.k.max(1)).unwrap());
    c.set_record_ttl(cfg.ttl.map(dur_ns));
    c.set_record_filtering(if cfg.filt { StoreInserts::FilterBoth } else { StoreInserts::Unfiltered });
    c.set_replication_interval(None);
    c.set_publication_interval(None);
    c.set_provider_publication_interval(None);
    c.set_periodic_bootstrap_interval(None);
    let mut beh = Behaviour::with_config(local, MemoryStore::new(local), c);
    // fill the routing table: up to 20 per bucket in the top buckets
    let lk = KBucketKey::from(local);
    let mut per_bucket = std::collections::HashMap::<u32, usize>::new();
    let mut table = vec![];
    let mut tries = 0;
    while table.len() < cfg.peers && tries < 200_000 {
        tries += 1;
        let p = rand_peer(&mut rng);
        let b = match lk.distance(&KBucketKey::from(p)).ilog2() {
            Some(b) => b,
            None => continue,
        };
        let n = per_bucket.entry(b).or_insert(0);
        if *n >= 20 {
            continue;
        }
        let addr: hcore::Multiaddr = format!("/ip4/10.0.0.1/tcp/{}", 1000 + table.len()).parse().unwrap();
        if matches!(beh.add_address(&p, addr), kad::RoutingUpdate::Success) {
            *n += 1;
            table.push(p);
        }
    }
    let _ = drain(&mut beh);
    World { beh, local, source, table }
}

/// `KBucketsTable::count_nodes_between(target)` recomputed from the public API (an INPUT of the
/// model: the property quantifies over it).
fn nodes_between(w: &World, key: &RecordKey) -> usize {
    let lk = KBucketKey::from(w.local);
    let d = lk.distance(&KBucketKey::new(key.clone()));
    let i0 = match d.ilog2() {
        Some(i) if i > 0 => i,
        _ => return 0,
    };
    w.table
        .iter()
        .filter(|p| {
            let dp = lk.distance(&KBucketKey::from(**p));
            match dp.ilog2() {
                Some(b) if b == i0 => dp <= d,
                Some(b) if b > 0 && b < i0 => d.0.bit(b as usize),
                _ => false,
            }
        })
        .count()
}

fn rel(e: Option<Instant>) -> String {
    let now = Instant::now();
    match e {
        None => "none".into(),
        Some(t) if t > now => format!("in:{}", (t - now).as_nanos()),
        Some(t) => format!("ago:{}", (now - t).as_nanos()),
    }
}

fn abs(tok: &str) -> Option<Instant> {
    let now = Instant::now();
    if let Some(d) = tok.strip_prefix("in:") {
        Some(now + dur_ns(d.parse().unwrap()))
    } else if let Some(d) = tok.strip_prefix("ago:") {
        Some(now - dur_ns(d.parse().unwrap()))
    } else {
        None
    }
}

/// inject a PUT_VALUE from `source`, return `store=… ev=… ack=…`
fn put(w: &mut World, key: &[u8], val: &[u8], expires: Option<Instant>, req: u64) -> String {
    let rk = RecordKey::from(key.to_vec());
    w.beh.store_mut().remove(&rk);
    let record = Record { key: rk.clone(), value: val.to_vec(), publisher: None, expires };
    let src = w.source;
    let r = hcore::guarded(|| hook::inject_put_record(&mut w.beh, src, ConnectionId::new_unchecked(7), record, req));
    if let Err(m) = r {
        return format!("panic {m}");
    }
    let mut ev = "absent".to_string();
    let mut acks = vec![];
    for e in drain(&mut w.beh) {
        match e {
            ToSwarm::GenerateEvent(kad::Event::InboundRequest {
                request: kad::InboundRequest::PutRecord { source, record, .. },
            }) if source == src => {
                ev = match record {
                    None => "null".into(),
                    Some(r) => rel(r.expires),
                }
            }
            ToSwarm::NotifyHandler { event, .. } => acks.push(hook::handler_in_tag(&event)),
            _ => {}
        }
    }
    let store = match w.beh.store_mut().get(&rk) {
        None => "absent".to_string(),
        Some(r) => rel(r.expires),
    };
    format!("store={store} ev={ev} ack={}", if acks.is_empty() { "none".to_string() } else { acks.join(",") })
}

fn to_proto(path: &str, expires: Option<Instant>) -> Result<u32, String> {
    let record = Record { key: RecordKey::from(vec![1u8, 2, 3]), value: vec![9], publisher: None, expires };
    hcore::guarded(|| if path == "resp" { hook::resp_record_ttl(record) } else { hook::req_record_ttl(record) })
        .map(|o| o.expect("record present"))
}

fn from_proto(path: &str, ttl: u32) -> String {
    let r = hcore::guarded(|| {
        if path == "resp" {
            hook::resp_record_from_ttl(vec![1, 2, 3], vec![9], ttl)
        } else {
            hook::req_record_from_ttl(vec![1, 2, 3], vec![9], ttl)
        }
    });
    match r {
        Err(m) => format!("panic {m}"),
        Ok(Err(_)) => "err".into(),
        Ok(Ok(None)) => "norecord".into(),
        Ok(Ok(Some(rec))) => format!("exp {}", rel(rec.expires)),
    }
}

/// execute one op (tokens as printed after `op `), printing the op and impl lines
fn exec(w: &mut World, out: &mut Out, t: &[String]) {
    match t[0].as_str() {
        "warp" => {
            out.op(&t.join(" "));
            crate::clock::warp(t[1].parse().unwrap());
            out.imp("ok");
        }
        "put" => {
            let (key, val) = (unhex(&t[1]), unhex(&t[2]));
            let req: u64 = t.iter().find_map(|x| x.strip_prefix("req=")).unwrap().parse().unwrap();
            let nb = nodes_between(w, &RecordKey::from(key.clone()));
            out.op(&format!("put {} {} {} nb={} req={}", t[1], t[2], t[3], nb, req));
            let e = abs(&t[3]);
            let line = put(w, &key, &val, e, req);
            out.imp(&line);
        }
        "toproto" => {
            out.op(&t.join(" "));
            match to_proto(&t[1], abs(&t[2])) {
                Ok(ttl) => out.imp(&format!("ttl {ttl}")),
                Err(m) => out.imp(&format!("panic {m}")),
            }
        }
        "fromproto" => {
            out.op(&t.join(" "));
            out.imp(&from_proto(&t[1], t[2].parse().unwrap()));
        }
        "relay" => {
            // sender encodes at `now`, the message travels `delay`, receiver decodes and stores
            let (key, val) = (unhex(&t[1]), unhex(&t[2]));
            let delay: u64 = t[4].parse().unwrap();
            let req: u64 = t.iter().find_map(|x| x.strip_prefix("req=")).unwrap().parse().unwrap();
            let nb = nodes_between(w, &RecordKey::from(key.clone()));
            out.op(&format!("relay {} {} {} {} nb={} req={}", t[1], t[2], t[3], delay, nb, req));
            let ttl = match to_proto("req", abs(&t[3])) {
                Ok(x) => x,
                Err(m) => {
                    out.imp(&format!("panic {m}"));
                    return;
                }
            };
            crate::clock::warp(delay);
            let rec = hcore::guarded(|| hook::req_record_from_ttl(key.clone(), val.clone(), ttl));
            let line = match rec {
                Ok(Ok(Some(rec))) => format!("ttl={ttl} {}", put(w, &key, &val, rec.expires, req)),
                Ok(_) => "err".to_string(),
                Err(m) => format!("panic {m}"),
            };
            let line = if line.contains(" panic ") { line[line.find("panic ").unwrap()..].to_string() } else { line };
            out.imp(&line);
        }
        other => panic!("unknown op {other}"),
    }
}

fn toks(s: &str) -> Vec<String> {
    s.split_whitespace().map(|x| x.to_string()).collect()
}

fn run_case(out: &mut Out, idx: u64, class: &str, cfg: &Cfg, ops: &[String]) {
    let nt = ops.iter().any(|o| o.contains("in:") || o.contains("ago:") || o.starts_with("fromproto"))
        || (cfg.ttl.is_some() && ops.iter().any(|o| o.starts_with("put")));
    out.case(idx, &cfg.header(class, nt));
    let mut w = build(cfg);
    for o in ops {
        exec(&mut w, out, &toks(o));
    }
    out.end();
}

const BASE: u64 = 1_000_000_000 * S;

fn ttl_values() -> Vec<Option<u128>> {
    let s = NS;
    vec![
        None,
        Some(0),
        Some(s / 2),
        Some(s),
        Some(3 * s / 2),
        Some(48 * 3600 * s),
        Some((1u128 << 32) * s),
        Some((1u128 << 40) * s + 7),
    ]
}

fn rem_values() -> Vec<String> {
    let s = S as u128;
    let mut v: Vec<String> = vec!["none".into(), "ago:0".into(), "ago:1".into(), format!("ago:{}", 5 * s)];
    for ns in [
        1,
        s / 2,
        s - 1,
        s,
        s + 1,
        3 * s / 2,
        2 * s - 1,
        2 * s,
        3600 * s,
        48 * 3600 * s - 1,
        48 * 3600 * s + 1,
        ((1u128 << 32) - 1) * s,
        ((1u128 << 32) - 1) * s + s - 1,
        (1u128 << 32) * s,
        (1u128 << 32) * s + s / 2,
        ((1u128 << 32) + 1) * s,
        (1u128 << 33) * s,
        (1u128 << 33) * s + 5 * s,
    ] {
        v.push(format!("in:{ns}"));
    }
    v
}

fn rand_rem(rng: &mut Rng) -> String {
    let vals = rem_values();
    match rng.below(10) {
        0..=4 => rng.pick(&vals).clone(),
        5 => format!("in:{}", rng.range(1, 3 * S)),
        6 => format!("in:{}", rng.range(1, 100_000) * S + rng.below(3) * (S / 2)),
        7 => format!("in:{}", ((1u128 << 32) * NS) as u64 - 2 * S + rng.below(4 * S)),
        8 => format!("ago:{}", rng.below(10 * S)),
        _ => format!("in:{}", rng.range(1, 1 << 20) * rng.range(1, 1 << 20) * 1000),
    }
}

fn rand_key(rng: &mut Rng) -> String {
    let n = rng.range(1, 8) as usize;
    hex(&rng.bytes(n))
}

fn rand_ttl(rng: &mut Rng) -> Option<u128> {
    let vals = ttl_values();
    match rng.below(8) {
        0..=3 => *rng.pick(&vals),
        4 => Some(rng.range(0, 5 * S) as u128),
        5 => Some(rng.range(1, 1 << 20) as u128 * NS + rng.below(S) as u128),
        6 => Some((rng.next_u64() >> rng.below(40)) as u128 * NS),
        _ => Some(rng.range(1, 200_000) as u128 * NS),
    }
}

pub fn run(args: &Args, out: &mut Out) {
    if let Some(cases) = args.replay_cases() {
        for (i, (hdr, ops)) in cases.iter().enumerate() {
            let cfg = Cfg::parse(hdr);
            let class = hdr.get(1).cloned().unwrap_or("replay".into());
            let ops: Vec<String> = ops.iter().map(|o| o.join(" ")).collect();
            run_case(out, i as u64, &class, &cfg, &ops);
        }
        return;
    }
    let mut idx = 0u64;
    let rems = rem_values();
    // --- grid 1: outgoing records (both encode paths), every boundary lifetime, two clock phases
    for (ci, now) in [BASE, BASE + 999_999_999, BASE + 123_456_789].iter().enumerate() {
        let cfg = Cfg { ttl: None, k: 20, filt: false, now: *now, peers: 0, pseed: ci as u64 };
        let mut ops = vec![];
        for r in &rems {
            ops.push(format!("toproto req {r}"));
            ops.push(format!("toproto resp {r}"));
        }
        for ttl in [0u64, 1, 2, 59, 3600, 1 << 31, u32::MAX as u64 - 1, u32::MAX as u64] {
            ops.push(format!("fromproto req {ttl}"));
            ops.push(format!("fromproto resp {ttl}"));
        }
        run_case(out, idx, "wire-grid", &cfg, &ops);
        idx += 1;
    }
    // --- grid 2: received records: ttl config x remote expiry x filtering x replication factor
    for (ti, ttl) in ttl_values().iter().enumerate() {
        for filt in [false, true] {
            for (k, peers) in [(20usize, 0usize), (1, 12), (3, 140)] {
                let cfg = Cfg { ttl: *ttl, k, filt, now: BASE + 500_000_000 * (ti as u64 % 2), peers, pseed: 1000 + ti as u64 };
                let mut ops = vec![];
                for (j, r) in rems.iter().enumerate() {
                    ops.push(format!("put {} {} {} req={}", hex(&[ti as u8, j as u8, 0x5a]), hex(&[j as u8]), r, j));
                }
                run_case(out, idx, "put-grid", &cfg, &ops);
                idx += 1;
            }
        }
    }
    // --- the configuration whose `now + ttl` leaves the Instant range (the code panics)
    {
        let cfg = Cfg { ttl: Some(u64::MAX as u128 * NS), k: 20, filt: false, now: BASE, peers: 0, pseed: 77 };
        let ops = vec!["put 0102 03 in:1000000000 req=1".to_string(), "put 0103 03 none req=2".to_string()];
        run_case(out, idx, "ttl-overflow", &cfg, &ops);
        idx += 1;
    }
    // --- random mixed sequences
    let n = args.n(1500, 60_000);
    for i in 0..n {
        let mut rng = Rng::for_case(args.seed, i);
        let peers = *rng.pick(&[0usize, 0, 5, 25, 60, 140]);
        let cfg = Cfg {
            ttl: rand_ttl(&mut rng),
            k: *rng.pick(&[1usize, 2, 5, 20, 20]),
            filt: rng.bool(),
            now: BASE + rng.below(4 * S),
            peers,
            pseed: rng.below(40),
        };
        let len = rng.range(1, 10);
        let mut ops = vec![];
        for j in 0..len {
            ops.push(match rng.below(10) {
                0..=3 => format!("put {} {} {} req={}", rand_key(&mut rng), hex(&rng.bytes(2)), rand_rem(&mut rng), j),
                4 | 5 => format!("toproto {} {}", if rng.bool() { "req" } else { "resp" }, rand_rem(&mut rng)),
                6 => format!(
                    "fromproto {} {}",
                    if rng.bool() { "req" } else { "resp" },
                    match rng.below(4) {
                        0 => 0,
                        1 => rng.range(1, 5),
                        2 => rng.range(1, 200_000),
                        _ => rng.next_u64() as u32 as u64,
                    }
                ),
                7 | 8 => format!(
                    "relay {} {} {} {} req={}",
                    rand_key(&mut rng),
                    hex(&rng.bytes(1)),
                    rand_rem(&mut rng),
                    match rng.below(3) {
                        0 => 0,
                        1 => rng.below(2 * S),
                        _ => rng.below(100) * S,
                    },
                    j
                ),
                _ => format!(
                    "warp {}",
                    match rng.below(3) {
                        0 => rng.below(2 * S),
                        1 => rng.range(1, 100_000) * S,
                        _ => 1,
                    }
                ),
            });
        }
        run_case(out, idx, "random", &cfg, &ops);
        idx += 1;
    }
}
